//! vsched — checks that need an owned scheduler / instrumented DashMap (C09, C10, C12).
//! Linked against /verif/shims/dashmap (dashmap 6.1.0 + verif_hooks) through [patch.crates-io].

#[path = "../../engine/src/runner.rs"]
mod runner;
#[path = "../../engine/src/lsp.rs"]
mod lsp;

mod c09;
mod c10;
mod c12;
mod mini;

use runner::{Ctx, Outcome, Tier};
use serde_json::Value;

/// first differing JSON path between two serialized snapshots
pub fn first_diff_str(a: &str, b: &str) -> String {
    let (Ok(x), Ok(y)) = (serde_json::from_str::<Value>(a), serde_json::from_str::<Value>(b)) else { return String::new() };
    fn go(a: &Value, b: &Value, path: &mut Vec<String>) -> Option<String> {
        if a == b {
            return None;
        }
        if let (Value::Object(x), Value::Object(y)) = (a, b) {
            let mut keys: Vec<&String> = x.keys().chain(y.keys()).collect();
            keys.sort();
            keys.dedup();
            for k in keys {
                match (x.get(k), y.get(k)) {
                    (Some(p), Some(q)) => {
                        path.push(k.clone());
                        if let Some(d) = go(p, q, path) {
                            return Some(d);
                        }
                        path.pop();
                    }
                    (p, q) => return Some(format!("at {}/{}: interleaved={} sequential={}", path.join("/"), k, p.map(|v| v.to_string()).unwrap_or("<absent>".into()), q.map(|v| v.to_string()).unwrap_or("<absent>".into()))),
                }
            }
            return None;
        }
        Some(format!("at {}: interleaved={} sequential={}", path.join("/"), a, b))
    }
    go(&x, &y, &mut vec![]).unwrap_or_default()
}

fn usage() -> ! {
    eprintln!("usage: vsched check <C09|C10|C12> --tier quick|thorough [--seed N] [--replay FILE]");
    std::process::exit(2)
}

type Judge = fn(&Ctx, &str, &Value) -> Option<Outcome>;
type Run = fn(&Ctx);

fn main() {
    let args: Vec<String> = std::env::args().collect();
    if args.len() < 3 || args[1] != "check" {
        usage();
    }
    let id = args[2].clone();
    let mut tier = Tier::Quick;
    let mut seed: u64 = std::env::var("VERIF_SEED").ok().and_then(|s| s.parse().ok()).unwrap_or(1);
    let mut replay: Option<String> = None;
    let mut i = 3;
    while i < args.len() {
        match args[i].as_str() {
            "--tier" => {
                i += 1;
                tier = match args.get(i).map(|s| s.as_str()) {
                    Some("quick") => Tier::Quick,
                    Some("thorough") => Tier::Thorough,
                    _ => usage(),
                };
            }
            "--seed" => {
                i += 1;
                seed = args.get(i).and_then(|s| s.parse().ok()).unwrap_or_else(|| usage());
            }
            "--replay" => {
                i += 1;
                replay = Some(args.get(i).cloned().unwrap_or_else(|| usage()));
            }
            _ => usage(),
        }
        i += 1;
    }
    std::panic::set_hook(Box::new(|_| {}));
    // controlled runs must be reproducible: fixed hashing for every DashMap of this process
    dashmap::verif_hooks::set_deterministic_hashing(true);
    let ctx = Ctx::new(&id, tier, seed);
    let (run, judge, rule, assumptions): (Run, Judge, &str, &[&str]) = match id.as_str() {
        "C09" => (c09::run, c09::judge, c09::RULE, c09::ASSUMPTIONS),
        "C10" => (c10::run, c10::judge, c10::RULE, c10::ASSUMPTIONS),
        "C12" => (c12::run, c12::judge, c12::RULE, c12::ASSUMPTIONS),
        _ => usage(),
    };
    if let Some(path) = replay {
        let Some(r) = runner::load_replay(&path) else {
            eprintln!("cannot read replay file {}", path);
            std::process::exit(2)
        };
        let code = match judge(&ctx, &r.sub, &r.case) {
            None => 2,
            Some(Outcome::Ok) => {
                println!("replay passed: {}", path);
                0
            }
            Some(Outcome::Known(ks)) => {
                if ks.iter().all(|k| runner::is_listed_known(&ctx.known, k)) {
                    for k in &ks {
                        if let Some(kf) = ctx.known.iter().find(|x| &x.id == k) {
                            ctx.known_line(&kf.what);
                        }
                    }
                    0
                } else {
                    println!("VIOLATION property={} replay={}", ctx.id, path);
                    1
                }
            }
            Some(Outcome::Fail(m)) => {
                println!("VIOLATION property={} replay={}", ctx.id, path);
                for l in m.lines().take(40) {
                    println!("  {}", l);
                }
                1
            }
        };
        std::process::exit(code);
    }
    runner::run_replay_tier(&ctx, &|sub, case| judge(&ctx, sub, case));
    run(&ctx);
    std::process::exit(ctx.finish(rule, assumptions));
}
