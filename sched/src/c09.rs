//! C09 — concurrent analysis of different files is isolated.
//! Oracle: the quiescent index after a generated interleaving (owned scheduler, DashMap-operation
//! granularity) must equal the result of SOME sequential execution of the same per-file analyses.

use crate::mini::*;
use crate::runner::*;
use proptest::collection::vec;
use proptest::prelude::*;
use pytest_language_server::FixtureDatabase;
use serde::{Deserialize, Serialize};
use serde_json::Value;
use std::collections::BTreeSet;

pub const RULE: &str = "proptest-generated cases: 2-3 DISTINCT files over a pool of 3 shared fixture names (definitions, dependencies, test parameters, undeclared body uses, star imports of each other), each optionally pre-indexed with an earlier version (so that re-analyses remove the last definition of a name while another file adds it), each analysed on its own controlled thread through analyze_file or the scan path; the interleaving is a generated schedule (random bytes, or context-bounded: run A for k1 lock acquisitions, switch, ...) over every DashMap shard-lock acquisition, in 2-shard and all-keys-collide placement. Compared: definitions / file_definitions / usages / usage_by_fixture / imports / file_cache as multisets (presence of empty vectors included) against the results of all sequential orders computed on the real code. Non-trivial = the schedule preempts at least once and two tasks share a fixture name; distinct = distinct (files, schedule) values. thorough additionally enumerates ALL schedules with <= 2 preemptions for generated task pairs.";
pub const ASSUMPTIONS: &[&str] = &[
    "the harness owns the schedule only at DashMap shard-lock granularity and only for the threads it spawned (rayon / tokio scheduling is not modelled); between two lock acquisitions a thread runs atomically",
    "shims/dashmap is dashmap 6.1.0 with additive hooks (reader-preferring lock semantics preserved)",
    "undeclared-fixture findings are compared separately: they are computed against whatever is indexed at that instant (see KF-C09-undeclared-reads-transient-state)",
];

pub const KF_UNDECLARED: &str = "KF-C09-undeclared-reads-transient-state";

#[derive(Clone, Debug, Serialize, Deserialize)]
pub struct Case {
    /// per file: (path index, earlier version already indexed, version analysed concurrently, scan path?)
    pub files: Vec<(u8, Option<MiniFile>, MiniFile, bool)>,
    pub schedule: Vec<u8>,
    pub collide: bool,
    /// after the concurrent phase one of the files (index mod number of files) is re-analysed once
    /// more, alone, with unchanged text (255 = no follow-up): what the interleaving left behind in
    /// the shared vectors must not make a later ordinary re-analysis hurt other files
    #[serde(default = "no_follow_up")]
    pub follow_up: u8,
}

fn no_follow_up() -> u8 {
    255
}

fn follow_up_of(c: &Case) -> Option<Task> {
    if c.follow_up == 255 || c.files.is_empty() {
        return None;
    }
    let (p, _, v2, _) = &c.files[c.follow_up as usize % c.files.len()];
    Some(Task { path: *p, text: v2.clone(), fresh: false })
}

pub fn case() -> impl Strategy<Value = Case> {
    let file = (prop_oneof![1 => Just(None), 3 => mini_file().prop_map(Some)], mini_file(), prop_oneof![2 => Just(false), 1 => Just(true)]);
    let sched = prop_oneof![
        3 => vec(0u8..3, 0..400),
        // context bounded: segments (thread, length)
        3 => vec((0u8..3, 1usize..120), 1..5).prop_map(|segs| segs.into_iter().flat_map(|(t, n)| std::iter::repeat(t).take(n)).collect::<Vec<u8>>()),
    ];
    (vec(file, 2..=3), sched, any::<bool>(), prop_oneof![1 => Just(255u8), 1 => 0u8..3]).prop_map(|(fs, schedule, collide, follow_up)| Case { files: fs.into_iter().enumerate().map(|(i, (a, b, c))| (i as u8, a, b, c)).collect(), schedule, collide, follow_up })
}

fn setup_of(c: &Case) -> Vec<Task> {
    c.files.iter().filter_map(|(p, v1, _, _)| v1.as_ref().map(|m| Task { path: *p, text: m.clone(), fresh: false })).collect()
}

fn tasks_of(c: &Case) -> Vec<Task> {
    c.files.iter().map(|(p, v1, v2, fresh)| Task { path: *p, text: v2.clone(), fresh: *fresh && v1.is_none() }).collect()
}

pub fn sequential_outcomes(c: &Case, with_undeclared: bool) -> BTreeSet<String> {
    let tasks = tasks_of(c);
    let mut out = BTreeSet::new();
    for perm in permutations(tasks.len()) {
        dashmap::verif_hooks::set_shard_amount(2);
        let db = FixtureDatabase::new();
        for t in setup_of(c) {
            run_task(&db, &t);
        }
        for i in perm {
            run_task(&db, &tasks[i]);
        }
        if let Some(t) = follow_up_of(c) {
            run_task(&db, &t);
        }
        out.insert(raw_snapshot(&db, with_undeclared).to_string());
    }
    out
}

pub fn check_case(c: &Case, info: &mut CaseInfo) -> Outcome {
    let tasks = tasks_of(c);
    let boxed: Vec<Box<dyn FnOnce(&FixtureDatabase) + Send>> = tasks.iter().cloned().map(|t| Box::new(move |db: &FixtureDatabase| run_task(db, &t)) as Box<dyn FnOnce(&FixtureDatabase) + Send>).collect();
    let follow = follow_up_of(c);
    if follow.is_some() {
        info.classes.push("follow-up re-analysis after the concurrent phase".into());
    }
    let run = controlled_run(&setup_of(c), boxed, &c.schedule, c.collide, &|db| {
        if let Some(t) = &follow {
            run_task(db, t);
        }
        vec![raw_snapshot(db, false), raw_snapshot(db, true)]
    });
    if run.hung {
        return Outcome::Fail("controlled run did not finish within the watchdog (harness trouble or a real hang)".into());
    }
    if let Some(d) = &run.report.deadlock {
        return Outcome::Fail(format!("deadlock under the generated schedule: {}", d));
    }
    if let Some(p) = run.panics.first() {
        return Outcome::Fail(format!("an analysis panicked under the generated schedule: {}", p));
    }
    info.checks += 1;
    info.classes.push(format!("yield_points~{}", (run.report.yield_points / 50) * 50));
    info.classes.push(format!("preemptions={}", run.report.preemptions.min(6)));
    let shared_names = {
        let mut sets: Vec<BTreeSet<u8>> = vec![];
        for (_, _, v2, _) in &c.files {
            let mut s = BTreeSet::new();
            for (n, deps) in &v2.fixtures {
                s.insert(*n % 3);
                for d in deps {
                    s.insert(*d % 3);
                }
            }
            for t in &v2.tests {
                for p in t {
                    s.insert(*p % 3);
                }
            }
            sets.push(s);
        }
        (0..sets.len()).any(|i| (i + 1..sets.len()).any(|j| !sets[i].is_disjoint(&sets[j])))
    };
    if run.report.preemptions >= 1 && shared_names {
        info.nontrivial = true;
    }
    let got = run.observed[0].to_string();
    let seq = sequential_outcomes(c, false);
    if !seq.contains(&got) {
        let first = seq.iter().next().cloned().unwrap_or_default();
        let d = crate::first_diff_str(&got, &first);
        return Outcome::Fail(format!(
            "the index after this interleaving equals no sequential execution of the {} analyses ({} yield points, {} preemptions, collide={}); vs one sequential outcome: {}",
            tasks.len(),
            run.report.yield_points,
            run.report.preemptions,
            c.collide,
            d
        ));
    }
    // undeclared findings: serialisable too?
    let got_u = run.observed[1].to_string();
    let seq_u = sequential_outcomes(c, true);
    if !seq_u.contains(&got_u) {
        info.known_trigger = true;
        info.fail_detail = Some(format!("undeclared-fixture findings after this interleaving equal no sequential execution ({} preemptions)", run.report.preemptions));
        return Outcome::Known(vec![KF_UNDECLARED.to_string()]);
    }
    Outcome::Ok
}

/// thorough: every schedule with <= 2 preemptions for a pair of tasks
pub fn enumerate_context_bounded(ctx: &Ctx, base: &Case, max_len: usize) -> u64 {
    let mut n = 0u64;
    let nthreads = base.files.len() as u8;
    // 0 preemptions
    for first in 0..nthreads {
        let mut c = base.clone();
        c.schedule = vec![first; max_len];
        judge_enum(ctx, &c);
        n += 1;
    }
    // 1 and 2 preemptions
    for first in 0..nthreads {
        for second in 0..nthreads {
            if second == first {
                continue;
            }
            for k1 in 1..max_len {
                let mut c = base.clone();
                c.schedule = std::iter::repeat(first).take(k1).chain(std::iter::repeat(second).take(max_len)).collect();
                judge_enum(ctx, &c);
                n += 1;
                if ctx.stats.lock().unwrap().failed {
                    return n;
                }
                for k2 in (1..max_len.saturating_sub(k1)).step_by(3) {
                    let mut c = base.clone();
                    c.schedule = std::iter::repeat(first).take(k1).chain(std::iter::repeat(second).take(k2)).chain(std::iter::repeat(first).take(max_len)).collect();
                    judge_enum(ctx, &c);
                    n += 1;
                }
            }
        }
    }
    n
}

fn judge_enum(ctx: &Ctx, c: &Case) {
    let mut info = CaseInfo::default();
    let out = ctx.gate(check_case(c, &mut info));
    ctx.record(c, &info, &out);
    if let Outcome::Fail(m) = out {
        ctx.violation("interleavings", c, &m);
    }
}

pub fn run(ctx: &Ctx) {
    ctx.run_prop_shrink("interleavings", ctx.tier.pick(2500, 60_000), 1, 600, case, |c, info| check_case(c, info));
    if ctx.tier == Tier::Thorough {
        let bases = ctx.sample("enum", 6, &case());
        let mut total = 0;
        for mut b in bases {
            b.files.truncate(2);
            total += enumerate_context_bounded(ctx, &b, 160);
        }
        ctx.set_extra("context_bounded_schedules_enumerated", serde_json::json!(total));
    }
}

pub fn judge(_ctx: &Ctx, sub: &str, case: &Value) -> Option<Outcome> {
    let mut info = CaseInfo::default();
    match sub {
        "interleavings" => {
            let c: Case = from_case(case)?;
            Some(check_case(&c, &mut info))
        }
        _ => None,
    }
}
