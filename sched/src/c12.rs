//! C12 — every operation terminates: no deadlock, no unbounded looping.
//! Oracles: (i) invariant over recorded lock nestings generalised from shards to maps (no conflicting
//! re-entrant acquisition on one map, no cycle of conflicting waits between maps); (ii) no generated
//! schedule of 2-3 controlled threads ends in the controller's deadlock state; (iii) operations on
//! cyclic / very deep inputs stay within a step bound counted in lock acquisitions; (iv) the REAL
//! server built against the instrumented DashMap in all-keys-collide mode never requests a shard
//! lock it already holds in a conflicting mode, and its recorded nestings satisfy (i).

use crate::lsp::*;
use crate::mini::*;
use crate::runner::*;
use dashmap::verif_hooks::{self as hooks, Edge};
use proptest::collection::vec;
use proptest::prelude::*;
use pytest_language_server::FixtureDatabase;
use serde::{Deserialize, Serialize};
use serde_json::{json, Value};
use std::collections::{BTreeMap, BTreeSet, HashSet};
use std::path::{Path, PathBuf};

pub const RULE: &str = "four generated families. workloads: sequences of 4-14 operations (analyse / scan-path analyse / re-analyse, and every public query of the library) over 2-4 files sharing 3 fixture names with star imports of each other (cycles included), run single-threaded with the nesting log on, in 2-shard and all-keys-collide placement. schedules: 2-3 such workloads on controlled threads under random and context-bounded schedules (deadlock = controller finds no runnable thread). cyclic: self / mutual / long import cycles, self- and mutually dependent fixtures, acyclic layered dependency graphs (up to 200 layers of 2-4 fixtures, each requesting the whole next layer), directory chains and import chains up to 200 deep, each operation under a bound of 200,000 lock acquisitions and the cycle search under a bound of 1,000,000 iterations of its own counter (run on a 2 GiB stack so that runaway recursion meets the bound first). server: generated LSP sessions (didOpen / didChange with requests pipelined 1-4 deep, every request kind) against the real server sources compiled with the instrumented DashMap, VERIF_DASHMAP_COLLIDE=1 (aborts on a conflicting re-entrant shard-lock request) and a nesting log. Non-trivial = the run recorded >=1 nested acquisition or the input contains a cycle; distinct = distinct generated values.";
pub const ASSUMPTIONS: &[&str] = &[
    "dashmap's shard lock is reader-preferring: a shared request succeeds while no writer HOLDS the lock, so read-in-read on one map is the only safe re-entrancy; two holds conflict iff one is exclusive",
    "potential deadlocks are inferred only from nestings some generated workload actually executed; entry points with zero executions make the run inconclusive",
    "tokio / rayon scheduling and std Mutexes are not controlled; a wall-clock watchdog only turns a real hang into exit 2",
];

fn map_names(db: &FixtureDatabase) -> BTreeMap<usize, &'static str> {
    let mut m = BTreeMap::new();
    m.insert(db.definitions.verif_map_id(), "definitions");
    m.insert(db.file_definitions.verif_map_id(), "file_definitions");
    m.insert(db.usages.verif_map_id(), "usages");
    m.insert(db.usage_by_fixture.verif_map_id(), "usage_by_fixture");
    m.insert(db.file_cache.verif_map_id(), "file_cache");
    m.insert(db.undeclared_fixtures.verif_map_id(), "undeclared_fixtures");
    m.insert(db.imports.verif_map_id(), "imports");
    m.insert(db.canonical_path_cache.verif_map_id(), "canonical_path_cache");
    m.insert(db.line_index_cache.verif_map_id(), "line_index_cache");
    m.insert(db.ast_cache.verif_map_id(), "ast_cache");
    m.insert(db.cycle_cache.verif_map_id(), "cycle_cache");
    m.insert(db.available_fixtures_cache.verif_map_id(), "available_fixtures_cache");
    m.insert(db.imported_fixtures_cache.verif_map_id(), "imported_fixtures_cache");
    m.insert(db.plugin_fixture_files.verif_map_id(), "plugin_fixture_files");
    m
}

/// name-level edge: (held map name, held exclusive) -> (acquired map name, acquired exclusive)
type NEdge = (String, bool, String, bool);

fn name_edges(edges: &BTreeSet<Edge>, names: &BTreeMap<usize, &'static str>) -> BTreeSet<NEdge> {
    edges
        .iter()
        .map(|e| {
            let n = |id: usize| names.get(&id).map(|s| s.to_string()).unwrap_or_else(|| format!("map#{}", id));
            (n(e.held_map), e.held_excl, n(e.acq_map), e.acq_excl)
        })
        .collect()
}

fn mode(x: bool) -> &'static str {
    if x {
        "exclusive"
    } else {
        "shared"
    }
}

/// invariant over the nesting graph; Err = description of the potential deadlock
pub fn check_nestings(edges: &BTreeSet<NEdge>) -> Result<(), String> {
    // (i) conflicting re-entrancy on one map
    for (hm, he, am, ae) in edges {
        if hm == am && (*he || *ae) {
            return Err(format!(
                "a thread acquires a {} lock on map `{}` while already holding a {} lock on the same map: self-deadlock as soon as both keys share a shard",
                mode(*ae),
                am,
                mode(*he)
            ));
        }
    }
    // (ii) cycles of conflicting waits between different maps (length 2 and 3)
    let es: Vec<&NEdge> = edges.iter().filter(|e| e.0 != e.2).collect();
    for a in &es {
        for b in &es {
            // a: holds A(he_a) wants B(ae_a);  b: holds B(he_b) wants A(ae_b)
            if a.2 == b.0 && b.2 == a.0 && (a.3 || b.1) && (b.3 || a.1) {
                return Err(format!(
                    "lock-order cycle: one path holds `{}` ({}) and requests `{}` ({}), another holds `{}` ({}) and requests `{}` ({})",
                    a.0,
                    mode(a.1),
                    a.2,
                    mode(a.3),
                    b.0,
                    mode(b.1),
                    b.2,
                    mode(b.3)
                ));
            }
            for c in &es {
                if a.2 == b.0 && b.2 == c.0 && c.2 == a.0 && a.0 != b.0 && b.0 != c.0 && a.0 != c.0 && (a.3 || b.1) && (b.3 || c.1) && (c.3 || a.1) {
                    return Err(format!("lock-order cycle over three maps: {} -> {} -> {} -> {}", a.0, b.0, c.0, a.0));
                }
            }
        }
    }
    Ok(())
}

// ---------------------------------------------------------------------------------------------
// workloads
// ---------------------------------------------------------------------------------------------

#[derive(Clone, Debug, Serialize, Deserialize, PartialEq)]
pub enum WOp {
    Analyze(u8, MiniFile, bool),
    Query(u8, u8, u8),
    Close(u8),
    /// 2001 further fixture-free files are analysed: the file cache passes its limit and evicts
    Flood,
}

pub const QUERY_NAMES: [&str; 14] = [
    "find_fixture_definition", "find_references_for_definition", "get_available_fixtures", "detect_fixture_cycles", "detect_scope_mismatches_in_file", "get_completion_context", "get_imported_fixtures",
    "resolve_fixture_for_file", "get_unused_fixtures", "find_containing_function", "find_fixture_or_definition_at_position", "get_undeclared_fixtures", "detect_fixture_cycles_in_file", "find_fixture_at_position",
];

pub fn wop() -> impl Strategy<Value = WOp> {
    prop_oneof![
        4 => (0u8..4, mini_file(), prop_oneof![3 => Just(false), 1 => Just(true)]).prop_map(|(p, m, f)| WOp::Analyze(p, m, f)),
        8 => (0u8..14, 0u8..4, 0u8..12).prop_map(|(k, p, l)| WOp::Query(k, p, l)),
        1 => (0u8..4).prop_map(WOp::Close),
    ]
}

/// workloads of the single-threaded sub-check may also flood the file cache
pub fn wop_with_flood() -> impl Strategy<Value = WOp> {
    prop_oneof![30 => wop(), 1 => Just(WOp::Flood)]
}

pub fn run_op(db: &FixtureDatabase, op: &WOp, executed: &mut BTreeSet<&'static str>) {
    match op {
        WOp::Flood => {
            let root = path_of(0);
            let root = root.trim_end_matches("/conftest.py");
            for i in 0..2001 {
                db.analyze_file(PathBuf::from(format!("{}/zz_flood/test_f{}.py", root, i)), "x = 1\n");
            }
            executed.insert("cache eviction");
        }
        WOp::Analyze(p, m, fresh) => {
            run_task(db, &Task { path: *p, text: m.clone(), fresh: *fresh });
            executed.insert(if *fresh { "analyze_file_fresh" } else { "analyze_file" });
        }
        WOp::Close(p) => {
            db.cleanup_file_cache(Path::new(&path_of(*p)));
            executed.insert("cleanup_file_cache");
        }
        WOp::Query(k, p, l) => {
            let path = PathBuf::from(path_of(*p));
            let k = *k as usize % 14;
            executed.insert(QUERY_NAMES[k]);
            match k {
                0 => {
                    for c in [0u32, 4, 9, 14] {
                        let _ = db.find_fixture_definition(&path, *l as u32, c);
                    }
                }
                1 => {
                    let defs: Vec<_> = db.definitions.iter().flat_map(|e| e.value().clone()).collect();
                    for d in defs.iter().take(4) {
                        let _ = db.find_references_for_definition(d);
                    }
                }
                2 => {
                    let _ = db.get_available_fixtures(&path);
                }
                3 => {
                    let _ = db.detect_fixture_cycles();
                }
                4 => {
                    let _ = db.detect_scope_mismatches_in_file(&path);
                }
                5 => {
                    let _ = db.get_completion_context(&path, *l as u32, 4);
                }
                6 => {
                    let _ = db.get_imported_fixtures(&path, &mut HashSet::new());
                }
                7 => {
                    for n in SHARED {
                        let _ = db.resolve_fixture_for_file(&path, n);
                    }
                }
                8 => {
                    let _ = db.get_unused_fixtures();
                }
                9 => {
                    let _ = db.find_containing_function(&path, *l as usize + 1);
                }
                10 => {
                    let _ = db.find_fixture_or_definition_at_position(&path, *l as u32, 9);
                }
                11 => {
                    let _ = db.get_undeclared_fixtures(&path);
                }
                12 => {
                    let _ = db.detect_fixture_cycles_in_file(&path);
                }
                _ => {
                    let _ = db.find_fixture_at_position(&path, *l as u32, 5);
                }
            }
        }
    }
}

#[derive(Clone, Debug, Serialize, Deserialize)]
pub struct Workload {
    pub ops: Vec<WOp>,
    pub collide: bool,
    /// 0 = in-memory paths, 1 = existing files, 2 = existing files named through a symlinked directory
    #[serde(default)]
    pub disk: u8,
}

static ENTRY_POINTS: std::sync::Mutex<BTreeSet<&'static str>> = std::sync::Mutex::new(BTreeSet::new());
static ALL_EDGES: std::sync::Mutex<BTreeSet<NEdge>> = std::sync::Mutex::new(BTreeSet::new());

/// run on a thread with a very large stack so that runaway recursion hits the step bound (a
/// deterministic verdict) long before it could overflow the stack and take the harness down
fn on_big_stack<T: Send>(f: impl FnOnce() -> T + Send) -> T {
    std::thread::scope(|s| std::thread::Builder::new().stack_size(2 << 30).spawn_scoped(s, f).expect("spawn").join().expect("join"))
}

pub fn check_workload(w: &Workload, info: &mut CaseInfo) -> Outcome {
    on_big_stack(|| check_workload_inner(w, info))
}

fn check_workload_inner(w: &Workload, info: &mut CaseInfo) -> Outcome {
    struct Tree(Option<String>);
    impl Drop for Tree {
        fn drop(&mut self) {
            *ROOT_OVERRIDE.lock().unwrap() = None;
            if let Some(b) = &self.0 {
                let _ = std::fs::remove_dir_all(b);
            }
        }
    }
    let mut tree = Tree(None);
    if w.disk % 3 > 0 {
        let base = format!("/dev/shm/verif-{}-c12w-{}", std::process::id(), SESS_N.fetch_add(1, std::sync::atomic::Ordering::SeqCst));
        let real = format!("{}/s", base);
        let _ = std::fs::create_dir_all(format!("{}/a", real));
        let _ = std::fs::create_dir_all(format!("{}/b", real));
        for p in PATHS {
            let _ = std::fs::write(p.replacen("/vw/s", &real, 1), "");
        }
        let root = if w.disk % 3 == 2 && std::os::unix::fs::symlink(&real, format!("{}/l", base)).is_ok() { format!("{}/l", base) } else { real };
        info.classes.push(if root.ends_with("/l") { "paths via symlink".into() } else { "paths on disk".into() });
        *ROOT_OVERRIDE.lock().unwrap() = Some(root);
        tree.0 = Some(base);
    }
    hooks::set_collide(w.collide);
    hooks::set_shard_amount(2);
    hooks::take_edges();
    hooks::set_logging(true);
    hooks::set_step_limit(200_000);
    let db = FixtureDatabase::new();
    let names = map_names(&db);
    let mut executed = BTreeSet::new();
    let mut fail = None;
    for (i, op) in w.ops.iter().enumerate() {
        hooks::reset_steps();
        hooks::set_step_limit(if matches!(op, WOp::Flood) { 20_000_000 } else { 200_000 });
        if matches!(op, WOp::Flood) {
            info.classes.push("workload floods the file cache".into());
        }
        let r = std::panic::catch_unwind(std::panic::AssertUnwindSafe(|| run_op(&db, op, &mut executed)));
        if let Err(e) = r {
            let m = e.downcast_ref::<String>().cloned().unwrap_or_else(|| e.downcast_ref::<&str>().map(|s| s.to_string()).unwrap_or_default());
            if m.contains("step bound") {
                fail = Some(format!("operation #{} ({:?}) exceeded the step bound: {}", i, op, m));
                break;
            }
            if m.contains("re-entrant conflicting acquisition") {
                fail = Some(format!("operation #{} ({:?}) would block on a lock it already holds: {}", i, op, m));
                break;
            }
        }
    }
    hooks::set_logging(false);
    hooks::set_step_limit(0);
    hooks::set_collide(false);
    let edges = name_edges(&hooks::take_edges(), &names);
    ENTRY_POINTS.lock().unwrap().extend(executed.iter().copied());
    ALL_EDGES.lock().unwrap().extend(edges.iter().cloned());
    info.checks += w.ops.len() as u64;
    if !edges.is_empty() {
        info.nontrivial = true;
    }
    if let Some(f) = fail {
        return Outcome::Fail(f);
    }
    if let Err(e) = check_nestings(&edges) {
        return Outcome::Fail(format!("{} (nestings recorded by this workload: {:?})", e, edges));
    }
    Outcome::Ok
}

// ---------------------------------------------------------------------------------------------
// controlled multi-thread workloads
// ---------------------------------------------------------------------------------------------

#[derive(Clone, Debug, Serialize, Deserialize)]
pub struct Conc {
    pub setup: Vec<(u8, MiniFile)>,
    pub threads: Vec<Vec<WOp>>,
    pub schedule: Vec<u8>,
    pub collide: bool,
}

pub fn conc() -> impl Strategy<Value = Conc> {
    let sched = prop_oneof![
        2 => vec(0u8..3, 0..500),
        3 => vec((0u8..3, 1usize..150), 1..6).prop_map(|segs| segs.into_iter().flat_map(|(t, n)| std::iter::repeat(t).take(n)).collect::<Vec<u8>>()),
    ];
    (vec((0u8..4, mini_file()), 0..=3), vec(vec(wop(), 1..=4), 2..=3), sched, any::<bool>()).prop_map(|(setup, threads, schedule, collide)| Conc { setup, threads, schedule, collide })
}

pub fn check_conc(c: &Conc, info: &mut CaseInfo) -> Outcome {
    let setup: Vec<Task> = c.setup.iter().map(|(p, m)| Task { path: *p, text: m.clone(), fresh: false }).collect();
    let tasks: Vec<Box<dyn FnOnce(&FixtureDatabase) + Send>> = c
        .threads
        .iter()
        .cloned()
        .map(|ops| {
            Box::new(move |db: &FixtureDatabase| {
                let mut ex = BTreeSet::new();
                for op in &ops {
                    run_op(db, op, &mut ex);
                }
            }) as Box<dyn FnOnce(&FixtureDatabase) + Send>
        })
        .collect();
    let run = controlled_run(&setup, tasks, &c.schedule, c.collide, &|_db| vec![]);
    info.checks += 1;
    if run.report.preemptions >= 1 {
        info.nontrivial = true;
    }
    if run.hung {
        return Outcome::Fail("controlled run did not finish within the watchdog (harness trouble or a real hang)".into());
    }
    if let Some(d) = &run.report.deadlock {
        return Outcome::Fail(format!("deadlock under the generated schedule ({} yield points, collide={}): {}", run.report.yield_points, c.collide, d));
    }
    for p in &run.panics {
        if p.contains("step bound") {
            return Outcome::Fail(format!("an operation exceeded the step bound under the generated schedule: {}", p));
        }
        if !p.contains("verif:") {
            return Outcome::Fail(format!("an operation panicked under the generated schedule: {}", p));
        }
    }
    Outcome::Ok
}

// ---------------------------------------------------------------------------------------------
// cyclic / deep inputs
// ---------------------------------------------------------------------------------------------

#[derive(Clone, Debug, Serialize, Deserialize)]
pub struct Cyclic {
    /// 0 self import, 1 import cycle of length n, 2 self-dependent fixture (with/without parent), 3 mutual dependency ring of n,
    /// 4 directory chain of depth n, 5 import chain of length n, 6 pytest_plugins cycle,
    /// 7 acyclic layered dependency graph: n layers of 2-4 fixtures, each requesting every fixture of the next layer
    pub kind: u8,
    pub n: u8,
    pub variant: u8,
}

/// iteration limit of the cycle search per case (see check_cyclic_inner)
pub const DFS_LIMIT: u64 = 1_000_000;

pub fn cyclic() -> impl Strategy<Value = Cyclic> {
    (prop_oneof![7 => 0u8..7, 2 => Just(7u8)], prop_oneof![3 => 1u8..7, 1 => Just(60u8), 1 => Just(200u8)], 0u8..4).prop_map(|(kind, n, variant)| Cyclic { kind, n, variant })
}

pub fn check_cyclic(c: &Cyclic, info: &mut CaseInfo) -> Outcome {
    on_big_stack(|| check_cyclic_inner(c, info))
}

fn check_cyclic_inner(c: &Cyclic, info: &mut CaseInfo) -> Outcome {
    hooks::set_collide(false);
    hooks::set_shard_amount(2);
    hooks::set_step_limit(200_000);
    let db = FixtureDatabase::new();
    let n = (c.n as usize).max(1);
    let mut files: Vec<(String, String)> = vec![];
    let dir = "/vw/cyc";
    match c.kind % 8 {
        0 => files.push((format!("{}/conftest.py", dir), "import pytest\nfrom .conftest import *\nfrom conftest import fx\n\n@pytest.fixture\ndef fx():\n    return 1\n".into())),
        1 | 6 => {
            for i in 0..n {
                let next = (i + 1) % n;
                let imp = if c.kind % 8 == 6 { format!("pytest_plugins = [\"m{}\"]", next) } else if c.variant % 2 == 0 { format!("from .m{} import *", next) } else { format!("from m{} import fx{}", next, next) };
                files.push((format!("{}/m{}.py", dir, i), format!("import pytest\n{}\n\n@pytest.fixture\ndef fx{}():\n    return {}\n", imp, i, i)));
            }
            files.push((format!("{}/conftest.py", dir), if c.kind % 8 == 6 { "pytest_plugins = \"m0\"\n".into() } else { "from .m0 import *\n".into() }));
        }
        2 => {
            if c.variant % 2 == 0 {
                files.push(("/vw/conftest.py".into(), "import pytest\n\n@pytest.fixture\ndef selfy():\n    return 0\n".into()));
            }
            files.push((format!("{}/conftest.py", dir), "import pytest\n\n@pytest.fixture\ndef selfy(selfy):\n    return selfy\n".into()));
        }
        3 => {
            let mut s = String::from("import pytest\n");
            for i in 0..n {
                s.push_str(&format!("\n@pytest.fixture\ndef ring{}(ring{}):\n    return 1\n", i, (i + 1) % n));
            }
            files.push((format!("{}/conftest.py", dir), s));
        }
        7 => {
            let w = 2 + (c.variant % 3) as usize;
            let mut s = String::from("import pytest\n");
            for l in 0..n {
                for k in 0..w {
                    let deps: Vec<String> = if l + 1 < n { (0..w).map(|j| format!("lay{}_{}", l + 1, j)).collect() } else { vec![] };
                    s.push_str(&format!("\n@pytest.fixture\ndef lay{}_{}({}):\n    return 1\n", l, k, deps.join(", ")));
                }
            }
            files.push((format!("{}/conftest.py", dir), s));
        }
        4 => {
            let mut d = String::from(dir);
            files.push((format!("{}/conftest.py", d), "import pytest\n\n@pytest.fixture\ndef top():\n    return 1\n".into()));
            for i in 0..n {
                d.push_str(&format!("/d{}", i % 3));
            }
            files.push((format!("{}/test_deep.py", d), "def test_deep(top, missing):\n    pass\n".into()));
        }
        _ => {
            for i in 0..n {
                let imp = if i + 1 < n { format!("from .m{} import *\n", i + 1) } else { String::new() };
                files.push((format!("{}/m{}.py", dir, i), format!("import pytest\n{}\n@pytest.fixture\ndef link{}():\n    return 1\n", imp, i)));
            }
            files.push((format!("{}/conftest.py", dir), "from .m0 import *\n".into()));
        }
    }
    files.push((format!("{}/test_use.py", dir), "def test_use(fx, fx0, selfy, ring0, top, link0, missing):\n    pass\n".into()));
    info.nontrivial = true;
    // the cycle search takes no lock, so the lock-step bound cannot see it: its own iteration counter (hook in
    // /repo, cfg-guarded) is limited to far more than a linear search needs on the largest generated graph
    // (800 fixtures, 3200 dependency edges), far less than a search that enumerates paths
    FixtureDatabase::verif_cycle_dfs_reset(DFS_LIMIT);
    let r = std::panic::catch_unwind(std::panic::AssertUnwindSafe(|| {
        for (p, t) in &files {
            hooks::reset_steps();
            db.analyze_file(PathBuf::from(p), t);
        }
        let mut total = 0u64;
        for (p, t) in &files {
            let path = PathBuf::from(p);
            let nlines = t.lines().count() as u32;
            for l in 0..nlines.min(12) {
                for col in [4u32, 13, 17, 22] {
                    hooks::reset_steps();
                    let _ = db.find_fixture_definition(&path, l, col);
                    total += 1;
                }
            }
            hooks::reset_steps();
            let _ = db.get_available_fixtures(&path);
            hooks::reset_steps();
            let _ = db.get_imported_fixtures(&path, &mut HashSet::new());
            hooks::reset_steps();
            let _ = db.detect_scope_mismatches_in_file(&path);
            hooks::reset_steps();
            let _ = db.get_completion_context(&path, 2, 3);
            total += 4;
        }
        hooks::reset_steps();
        let cycles = db.detect_fixture_cycles();
        hooks::reset_steps();
        let _ = db.get_unused_fixtures();
        for d in db.definitions.iter().flat_map(|e| e.value().clone()).collect::<Vec<_>>() {
            hooks::reset_steps();
            let _ = db.find_references_for_definition(&d);
            total += 1;
        }
        (total, cycles.len())
    }));
    hooks::set_step_limit(0);
    let dfs_steps = FixtureDatabase::verif_cycle_dfs_reset(0);
    if dfs_steps > 0 {
        info.classes.push(format!("cycle-search-iterations<=10^{}", (dfs_steps as f64).log10().ceil() as u32));
    }
    match r {
        Ok((total, ncycles)) => {
            info.checks += total;
            if c.kind % 8 == 7 && ncycles != 0 {
                return Outcome::Fail(format!("an acyclic layered dependency graph ({} layers) is reported to have {} cycle(s)", n, ncycles));
            }
            // consistency with the structure: a dependency ring must be reported, an import ring must not invent one
            if c.kind % 8 == 3 && ncycles == 0 {
                return Outcome::Fail(format!("a dependency ring of {} fixtures is not reported as a cycle", n));
            }
            Outcome::Ok
        }
        Err(e) => {
            let m = e.downcast_ref::<String>().cloned().unwrap_or_else(|| e.downcast_ref::<&str>().map(|s| s.to_string()).unwrap_or_default());
            Outcome::Fail(format!("cyclic input {:?}: {}", c, m))
        }
    }
}

// ---------------------------------------------------------------------------------------------
// real server, instrumented dashmap
// ---------------------------------------------------------------------------------------------

pub const INSTR_BIN: &str = "/verif/target-sched/release/pls-instr";

#[derive(Clone, Debug, Serialize, Deserialize)]
pub struct Sess {
    /// the client names the workspace and its documents through a symlinked directory
    #[serde(default)]
    pub via_link: bool,
    pub files: Vec<(u8, MiniFile)>,
    /// (file, new version, requests pipelined right after the notification: (kind, line))
    pub steps: Vec<(u8, MiniFile, Vec<(u8, u8)>)>,
}

pub fn sess() -> impl Strategy<Value = Sess> {
    (any::<bool>(), vec((0u8..4, mini_file()), 1..=4), vec((0u8..4, mini_file(), vec((0u8..13, 0u8..10), 1..=4)), 1..=5)).prop_map(|(via_link, files, steps)| Sess { via_link, files, steps })
}

static SESS_N: std::sync::atomic::AtomicUsize = std::sync::atomic::AtomicUsize::new(0);

pub const REQ_KINDS: [&str; 13] = [
    "definition", "hover", "references", "completion", "implementation", "prepareCallHierarchy+calls", "documentSymbol", "codeLens", "inlayHint", "codeAction", "workspace/symbol", "didClose+reopen", "didChange-again",
];

pub fn check_sess(ctx: &Ctx, s: &Sess, info: &mut CaseInfo) -> Outcome {
    let n = SESS_N.fetch_add(1, std::sync::atomic::Ordering::SeqCst);
    let base = format!("/dev/shm/verif-{}-c12-{}", std::process::id(), n);
    struct Rm(String);
    impl Drop for Rm {
        fn drop(&mut self) {
            let _ = std::fs::remove_dir_all(&self.0);
        }
    }
    let _rm = Rm(base.clone());
    let disk_root = format!("{}/s", base);
    let _ = std::fs::create_dir_all(format!("{}/a", disk_root));
    let _ = std::fs::create_dir_all(format!("{}/b", disk_root));
    for (p, m) in &s.files {
        let _ = std::fs::write(PATHS[*p as usize % 4].replacen("/vw/s", &disk_root, 1), render(m));
    }
    // a workspace reached through a symlink: every path the client sends differs from its canonical form
    let root = if s.via_link && std::os::unix::fs::symlink(&disk_root, format!("{}/l", base)).is_ok() {
        info.classes.push("workspace via symlink".into());
        format!("{}/l", base)
    } else {
        disk_root.clone()
    };
    let real = |p: u8| PATHS[p as usize % 4].replacen("/vw/s", &root, 1);
    let log = format!("{}/locklog.txt", base);
    let mut srv = match LspSession::start_bin(INSTR_BIN, Some(&root), &[("VERIF_DASHMAP_COLLIDE", "1"), ("VERIF_LOCKLOG", log.as_str()), ("VERIF_DASHMAP_SHARDS", "2")]) {
        Ok(x) => x,
        Err(e) => {
            ctx.inconclusive.fetch_add(1, std::sync::atomic::Ordering::SeqCst);
            let _ = e;
            return Outcome::Ok;
        }
    };
    let reentrant = |log: &str| -> Option<String> { std::fs::read_to_string(log).ok().and_then(|t| t.lines().find(|l| l.starts_with("REENTRANT")).map(|l| l.to_string())) };
    macro_rules! dead {
        ($what:expr) => {{
            if let Some(r) = reentrant(&log) {
                return Outcome::Fail(format!("{}: the server requested a shard lock it already holds in a conflicting mode ({}; fields: map id = FixtureDatabase field order) and was aborted: {}", $what, r, srv.stderr_tail()));
            }
            if srv.stderr_tail().contains("VERIF-REENTRANT") || srv.panicked() {
                return Outcome::Fail(format!("{}: server died: {}", $what, srv.stderr_tail()));
            }
            ctx.inconclusive.fetch_add(1, std::sync::atomic::Ordering::SeqCst);
            return Outcome::Ok;
        }};
    }
    if srv.wait_scan_complete().is_err() {
        dead!("workspace scan");
    }
    let mut opened: BTreeSet<u8> = BTreeSet::new();
    let mut version = 1i64;
    for (p, m, reqs) in &s.steps {
        let path = real(*p);
        let uri = uri_of(&path);
        let text = render(m);
        let r = if opened.insert(*p % 4) {
            srv.notify("textDocument/didOpen", json!({"textDocument": {"uri": uri, "languageId": "python", "version": 1, "text": text}}))
        } else {
            version += 1;
            srv.notify("textDocument/didChange", json!({"textDocument": {"uri": uri, "version": version}, "contentChanges": [{"text": text}]}))
        };
        if r.is_err() {
            dead!("didOpen/didChange");
        }
        // pipeline the requests without waiting: tower-lsp runs handlers concurrently
        let mut ids = vec![];
        for (k, l) in reqs {
            info.classes.push(format!("req={}", REQ_KINDS[*k as usize % 13]));
            let pp = json!({"textDocument": {"uri": uri}, "position": {"line": l, "character": 9}});
            let sent = match k % 13 {
                0 => srv.request_async("textDocument/definition", pp),
                1 => srv.request_async("textDocument/hover", pp),
                2 => {
                    let mut q = pp.clone();
                    q["context"] = json!({"includeDeclaration": true});
                    srv.request_async("textDocument/references", q)
                }
                3 => srv.request_async("textDocument/completion", pp),
                4 => srv.request_async("textDocument/implementation", pp),
                5 => srv.request_async("textDocument/prepareCallHierarchy", pp),
                6 => srv.request_async("textDocument/documentSymbol", json!({"textDocument": {"uri": uri}})),
                7 => srv.request_async("textDocument/codeLens", json!({"textDocument": {"uri": uri}})),
                8 => srv.request_async("textDocument/inlayHint", json!({"textDocument": {"uri": uri}, "range": {"start": {"line": 0, "character": 0}, "end": {"line": 200, "character": 0}}})),
                9 => srv.request_async(
                    "textDocument/codeAction",
                    json!({"textDocument": {"uri": uri}, "range": {"start": {"line": l, "character": 0}, "end": {"line": l, "character": 0}},
                           "context": {"diagnostics": [{"range": {"start": {"line": l, "character": 8}, "end": {"line": l, "character": 16}}, "code": "undeclared-fixture", "message": "x", "source": "pytest-lsp"}]}}),
                ),
                10 => srv.request_async("workspace/symbol", json!({"query": ""})),
                11 => {
                    let _ = srv.notify("textDocument/didClose", json!({"textDocument": {"uri": uri}}));
                    opened.remove(&(*p % 4));
                    srv.request_async("workspace/symbol", json!({"query": "s"}))
                }
                _ => {
                    version += 1;
                    let _ = srv.notify("textDocument/didChange", json!({"textDocument": {"uri": uri}, "contentChanges": [{"text": text}]}));
                    srv.request_async("textDocument/codeLens", json!({"textDocument": {"uri": uri}}))
                }
            };
            match sent {
                Ok(id) => ids.push((id, *k)),
                Err(_) => dead!("sending a request"),
            }
        }
        for (id, k) in ids {
            info.checks += 1;
            match srv.wait_response(id) {
                Ok(v) => {
                    if k % 13 == 5 {
                        if let Some(item) = v.get(0) {
                            let a = srv.request_async("callHierarchy/incomingCalls", json!({"item": item}));
                            let b = srv.request_async("callHierarchy/outgoingCalls", json!({"item": item}));
                            for x in [a, b].into_iter().flatten() {
                                if let Err(LspErr::Dead(_)) | Err(LspErr::Timeout(_)) = srv.wait_response(x) {
                                    dead!("call hierarchy request");
                                }
                            }
                        }
                    }
                }
                Err(LspErr::Rpc(_)) => {}
                Err(_) => dead!(format!("request {}", REQ_KINDS[k as usize % 13])),
            }
        }
    }
    srv.shutdown();
    if let Some(r) = reentrant(&log) {
        return Outcome::Fail(format!("the server requested a shard lock it already holds in a conflicting mode: {}", r));
    }
    // nestings recorded by the real handlers
    let mut edges: BTreeSet<NEdge> = BTreeSet::new();
    const FIELDS: [&str; 14] = ["definitions", "file_definitions", "usages", "usage_by_fixture", "file_cache", "undeclared_fixtures", "imports", "canonical_path_cache", "line_index_cache", "ast_cache", "cycle_cache", "available_fixtures_cache", "imported_fixtures_cache", "plugin_fixture_files"];
    if let Ok(t) = std::fs::read_to_string(&log) {
        for l in t.lines() {
            let f: Vec<usize> = l.split_whitespace().filter_map(|x| x.parse().ok()).collect();
            if f.len() == 5 {
                let n = |id: usize| if (1..=14).contains(&id) { FIELDS[id - 1].to_string() } else { format!("server-map#{}", id) };
                edges.insert((n(f[0]), f[1] == 1, n(f[2]), f[3] == 1));
            }
        }
    }
    if !edges.is_empty() {
        info.nontrivial = true;
    }
    ALL_EDGES.lock().unwrap().extend(edges.iter().cloned());
    if let Err(e) = check_nestings(&edges) {
        return Outcome::Fail(format!("real server: {} (recorded: {:?})", e, edges));
    }
    Outcome::Ok
}

// ---------------------------------------------------------------------------------------------
// lock-free text scans: completion context on documents in the middle of being typed
// ---------------------------------------------------------------------------------------------

/// A complete `usefixtures(...)` / `parametrize(...)` decorator `gap` lines above a line that is
/// still being typed; the completion context is asked for every line. These scans take no lock, so
/// no step bound sees them: a call that does not come back within 20 s (they take microseconds) is
/// reported as INCONCLUSIVE - a wall-clock expiry is never a violation in this framework.
#[derive(Clone, Debug, Serialize, Deserialize)]
pub struct TextScan {
    pub gap: u8,
    pub head: u8,
    pub tail: u8,
}

pub fn text_scan() -> impl Strategy<Value = TextScan> {
    (0u8..16, 0u8..4, 0u8..4).prop_map(|(gap, head, tail)| TextScan { gap, head, tail })
}

static TEXT_SCAN_EXPIRED: std::sync::atomic::AtomicBool = std::sync::atomic::AtomicBool::new(false);

pub fn check_text_scan(ctx: &Ctx, c: &TextScan, info: &mut CaseInfo) -> Outcome {
    if TEXT_SCAN_EXPIRED.load(std::sync::atomic::Ordering::SeqCst) {
        return Outcome::Ok; // one expiry makes the run inconclusive already; do not pile up spinning threads
    }
    let mut text = String::from("import pytest\n");
    for i in 0..c.head {
        text.push_str(&format!("X{} = {}\n", i, i));
    }
    text.push_str("@pytest.mark.usefixtures(\"shared_a\")\n");
    if c.gap > 0 {
        text.push_str("@pytest.mark.parametrize(\n    \"v\",\n    [\n");
        for i in 0..c.gap.saturating_sub(1) {
            text.push_str(&format!("        {},\n", i));
        }
        text.push_str("    ],\n)\n");
    }
    text.push_str(match c.tail % 4 {
        0 => "def test_typing(a, ",
        1 => "def test_typing(",
        2 => "@pytest.mark.usefixtures(",
        _ => "def test_done(shared_a):\n    shared_",
    });
    let path = PathBuf::from("/vw/s/a/test_typing.py");
    let lines = text.lines().count() as u32;
    let (tx, rx) = std::sync::mpsc::channel();
    let t2 = text.clone();
    std::thread::spawn(move || {
        let db = FixtureDatabase::new();
        db.analyze_file(PathBuf::from("/vw/s/conftest.py"), "import pytest\n\n@pytest.fixture\ndef shared_a():\n    return 1\n");
        db.analyze_file(path.clone(), &t2);
        let mut n = 0u64;
        for l in 0..lines + 1 {
            for col in [0u32, 4, 17, 200] {
                let _ = db.get_completion_context(&path, l, col);
                n += 1;
            }
        }
        let _ = tx.send(n);
    });
    match rx.recv_timeout(std::time::Duration::from_secs(20)) {
        Ok(n) => {
            info.checks += n;
            info.nontrivial = true;
            Outcome::Ok
        }
        Err(_) => {
            if TEXT_SCAN_EXPIRED.swap(true, std::sync::atomic::Ordering::SeqCst) {
                return Outcome::Ok;
            }
            ctx.inconclusive.fetch_add(1, std::sync::atomic::Ordering::SeqCst);
            ctx.note(format!("get_completion_context did not return within 20 s on a {}-line document (decorator {} lines above the line being typed):\n{}", lines, c.gap, text));
            Outcome::Ok
        }
    }
}

pub fn run(ctx: &Ctx) {
    ctx.run_prop_shrink("workloads", ctx.tier.pick(3000, 100_000), 1, 600, || (vec(wop_with_flood(), 4..=14), any::<bool>(), prop_oneof![3 => Just(0u8), 1 => Just(1u8), 2 => Just(2u8)]).prop_map(|(ops, collide, disk)| Workload { ops, collide, disk }), |w, info| check_workload(w, info));
    let failed = |ctx: &Ctx| !ctx.violations.lock().unwrap().is_empty();
    if !failed(ctx) {
        ctx.run_prop_shrink("schedules", ctx.tier.pick(1500, 40_000), 1, 600, conc, |c, info| check_conc(c, info));
    }
    if !failed(ctx) {
        ctx.run_prop_shrink("cyclic", ctx.tier.pick(120, 3000), 1, 100, cyclic, |c, info| check_cyclic(c, info));
    }
    if !failed(ctx) {
        ctx.run_prop_shrink("text-scans", ctx.tier.pick(100, 2000), 4, 50, text_scan, |c, info| check_text_scan(ctx, c, info));
    }
    if failed(ctx) {
        ctx.note("later sub-checks skipped after the first violation");
    } else if Path::new(INSTR_BIN).exists() {
        ctx.run_prop_shrink("server", ctx.tier.pick(150, 4000), 8, 150, sess, |s, info| check_sess(ctx, s, info));
    } else {
        ctx.note("instrumented server binary missing: server sub-check skipped");
        ctx.inconclusive.fetch_add(1, std::sync::atomic::Ordering::SeqCst);
    }
    let eps = ENTRY_POINTS.lock().unwrap().clone();
    let mut expected: BTreeSet<&'static str> = QUERY_NAMES.iter().copied().collect();
    expected.extend(["analyze_file", "analyze_file_fresh", "cleanup_file_cache"]);
    let missing: Vec<&&str> = expected.iter().filter(|e| !eps.contains(**e)).collect();
    ctx.set_extra("entry_points_exercised", json!(eps));
    ctx.set_extra("nesting_edges_observed", json!(ALL_EDGES.lock().unwrap().iter().map(|(a, b, c, d)| format!("{}({}) -> {}({})", a, mode(*b), c, mode(*d))).collect::<Vec<_>>()));
    if !missing.is_empty() {
        ctx.note(format!("entry points never executed: {:?}", missing));
        ctx.inconclusive.fetch_add(1, std::sync::atomic::Ordering::SeqCst);
    }
}

pub fn judge(ctx: &Ctx, sub: &str, case: &Value) -> Option<Outcome> {
    let mut info = CaseInfo::default();
    match sub {
        "workloads" => Some(check_workload(&from_case::<Workload>(case)?, &mut info)),
        "schedules" => Some(check_conc(&from_case::<Conc>(case)?, &mut info)),
        "cyclic" => Some(check_cyclic(&from_case::<Cyclic>(case)?, &mut info)),
        "server" => Some(check_sess(ctx, &from_case::<Sess>(case)?, &mut info)),
        "text-scans" => Some(check_text_scan(ctx, &from_case::<TextScan>(case)?, &mut info)),
        _ => None,
    }
}
