//! C10 — editor buffers win over the background scan.
//! Oracle: every interleaving of {scan worker analysing F from disk (no-cleanup path)} and
//! {didOpen / didChange of F with the buffer text} must end in the state "scan first, then the
//! editor"; one further change must always restore the exact single-analysis state.

use crate::mini::*;
use crate::runner::*;
use proptest::collection::vec;
use proptest::prelude::*;
use pytest_language_server::FixtureDatabase;
use serde::{Deserialize, Serialize};
use serde_json::Value;
use std::path::{Path, PathBuf};

pub const RULE: &str = "proptest-generated cases: a document F (test file or conftest.py) with on-disk text D and editor text B (equal or different), optionally a second edit B' and another file visited by the same scan worker; thread 0 is the scan worker (verif_analyze_file_fresh), thread 1 the editor (analyze_file); schedules are random or context-bounded over every DashMap shard-lock acquisition, in 2-shard and all-keys-collide placement. (1) quiescent state must equal the sequential order scan -> editor; (2) after one further analyze_file(F, X) the index must equal a fresh index that only ever saw the other file and X. Non-trivial = the two analyses of F overlap or the editor's precedes the scan's; distinct = distinct (texts, schedule) values.";
pub const ASSUMPTIONS: &[&str] = &[
    "the scan's visit of one file is one call of the no-cleanup analysis path (scanner.rs:186) reached through the verif hook; the editor's is analyze_file (main.rs did_open / did_change)",
    "the schedule is owned at DashMap shard-lock granularity for the two threads only",
];

pub const KF_SCAN_OVERWRITES: &str = "KF-C10-scan-visit-after-editor-analysis";

#[derive(Clone, Debug, Serialize, Deserialize)]
pub struct Case {
    pub path: u8,
    pub disk: MiniFile,
    /// None = buffer equals disk
    pub buffer: Option<MiniFile>,
    pub second: Option<MiniFile>,
    pub other: Option<(MiniFile, bool)>,
    pub restore: MiniFile,
    pub schedule: Vec<u8>,
    pub collide: bool,
}

pub fn case() -> impl Strategy<Value = Case> {
    let sched = prop_oneof![
        2 => vec(0u8..2, 0..300),
        3 => vec((0u8..2, 1usize..80), 1..5).prop_map(|segs| segs.into_iter().flat_map(|(t, n)| std::iter::repeat(t).take(n)).collect::<Vec<u8>>()),
        1 => Just(vec![0u8; 400]),
        1 => Just(vec![1u8; 400]),
    ];
    (
        prop_oneof![Just(1u8), Just(3u8), Just(0u8)],
        mini_file(),
        prop_oneof![1 => Just(None), 3 => mini_file().prop_map(Some)],
        prop_oneof![2 => Just(None), 1 => mini_file().prop_map(Some)],
        prop_oneof![1 => Just(None), 1 => (mini_file(), any::<bool>()).prop_map(Some)],
        mini_file(),
        sched,
        any::<bool>(),
    )
        .prop_map(|(path, disk, buffer, second, other, restore, schedule, collide)| Case { path, disk, buffer, second, other, restore, schedule, collide })
}

fn other_path(c: &Case) -> u8 {
    if c.path == 2 {
        1
    } else {
        2
    }
}

fn scan_tasks(c: &Case) -> Vec<Task> {
    let f = Task { path: c.path, text: c.disk.clone(), fresh: true };
    match &c.other {
        None => vec![f],
        Some((m, first)) => {
            let o = Task { path: other_path(c), text: m.clone(), fresh: true };
            if *first {
                vec![o, f]
            } else {
                vec![f, o]
            }
        }
    }
}

fn editor_tasks(c: &Case) -> Vec<Task> {
    let mut v = vec![Task { path: c.path, text: c.buffer.clone().unwrap_or_else(|| c.disk.clone()), fresh: false }];
    if let Some(s) = &c.second {
        v.push(Task { path: c.path, text: s.clone(), fresh: false });
    }
    v
}

pub fn check_case(c: &Case, info: &mut CaseInfo) -> Outcome {
    let st = scan_tasks(c);
    let et = editor_tasks(c);
    let st2 = st.clone();
    let et2 = et.clone();
    let restore = Task { path: c.path, text: c.restore.clone(), fresh: false };
    let restore2 = restore.clone();
    let tasks: Vec<Box<dyn FnOnce(&FixtureDatabase) + Send>> = vec![
        Box::new(move |db: &FixtureDatabase| {
            for t in &st2 {
                run_task(db, t);
            }
        }),
        Box::new(move |db: &FixtureDatabase| {
            for t in &et2 {
                run_task(db, t);
            }
        }),
    ];
    let run = controlled_run(&[], tasks, &c.schedule, c.collide, &move |db| {
        let a = raw_snapshot(db, false);
        run_task(db, &restore2);
        let b = raw_snapshot(db, false);
        vec![a, b]
    });
    if run.hung {
        return Outcome::Fail("controlled run did not finish within the watchdog".into());
    }
    if let Some(d) = &run.report.deadlock {
        return Outcome::Fail(format!("deadlock under the generated schedule: {}", d));
    }
    if let Some(p) = run.panics.first() {
        return Outcome::Fail(format!("an analysis panicked under the generated schedule: {}", p));
    }
    // did the scan worker do anything after the editor started?
    let first_editor = run.report.trace.iter().position(|(t, _, _)| *t == 1);
    let last_scan = run.report.trace.iter().rposition(|(t, _, _)| *t == 0);
    let scan_entirely_first = match (first_editor, last_scan) {
        (Some(e), Some(s)) => s < e,
        _ => true,
    };
    if !scan_entirely_first {
        info.nontrivial = true;
    }
    info.classes.push(format!("scan_entirely_first={}", scan_entirely_first));
    info.checks += 2;
    // (1) expected: scan, then editor
    dashmap::verif_hooks::set_shard_amount(2);
    let exp_db = FixtureDatabase::new();
    for t in st.iter().chain(et.iter()) {
        run_task(&exp_db, t);
    }
    let exp = raw_snapshot(&exp_db, false);
    let mut known = false;
    let mut detail = None;
    if run.observed[0] != exp {
        let d = crate::first_diff_str(&run.observed[0].to_string(), &exp.to_string());
        if scan_entirely_first {
            return Outcome::Fail(format!("the scan visited the file entirely before the editor's analysis, yet the index does not describe the editor's content exactly once: {}", d));
        }
        known = true;
        info.known_trigger = true;
        detail = Some(format!("scan worker still active after the editor's analysis began ({} preemptions): index does not describe the editor's content exactly once: {}", run.report.preemptions, d));
    }
    // (2) one further change restores the single-analysis state
    let ref_db = FixtureDatabase::new();
    if let Some((m, _)) = &c.other {
        run_task(&ref_db, &Task { path: other_path(c), text: m.clone(), fresh: true });
    }
    run_task(&ref_db, &restore);
    let reference = raw_snapshot(&ref_db, false);
    if run.observed[1] != reference {
        let d = crate::first_diff_str(&run.observed[1].to_string(), &reference.to_string());
        return Outcome::Fail(format!("after one further change notification the index is not the single-analysis state: {}", d));
    }
    if known {
        info.fail_detail = detail;
        Outcome::Known(vec![KF_SCAN_OVERWRITES.to_string()])
    } else {
        Outcome::Ok
    }
}

// ---------------------------------------------------------------------------------------------
// the scan's import-following phase must not re-read a document the editor already sent
// ---------------------------------------------------------------------------------------------

/// A helper module that the scan reaches only through imports (its name matches no collection
/// pattern) is opened in the editor BEFORE the scan runs, with a buffer that may differ from disk.
#[derive(Clone, Debug, Serialize, Deserialize)]
pub struct ImpCase {
    pub disk: MiniFile,
    pub buffer: MiniFile,
    /// how the importing conftests name the module: 0 `from helper_mod import *`, 1 `from .helper_mod import *`,
    /// 2 `pytest_plugins = ["helper_mod"]`
    pub form: u8,
    /// further importing conftests in sub-directories
    pub importers: u8,
    /// instead of an editor notification, only QUERIES precede the scan (an early completion request
    /// while the background scan has not started): they must not make the scan skip anything
    #[serde(default)]
    pub only_queries_first: bool,
}

pub fn imp_case() -> impl Strategy<Value = ImpCase> {
    (mini_file(), mini_file(), 0u8..3, 0u8..6, prop_oneof![3 => Just(false), 1 => Just(true)]).prop_map(|(mut disk, mut buffer, form, importers, only_queries_first)| {
        disk.import_of = 9;
        buffer.import_of = 9;
        ImpCase { disk, buffer, form, importers, only_queries_first }
    })
}

static IMP_N: std::sync::atomic::AtomicUsize = std::sync::atomic::AtomicUsize::new(0);

fn file_records(db: &FixtureDatabase, p: &Path) -> Value {
    let mut defs: Vec<Value> = db.definitions.iter().flat_map(|e| e.value().clone()).filter(|d| d.file_path == p).map(|d| serde_json::json!([d.name, d.line, d.dependencies])).collect();
    defs.sort_by_key(|v| v.to_string());
    let mut us: Vec<Value> = db.usages.get(p).map(|u| u.iter().map(|u| serde_json::json!([u.name, u.line, u.start_char])).collect()).unwrap_or_default();
    us.sort_by_key(|v| v.to_string());
    let text = db.file_cache.get(p).map(|t| t.to_string());
    serde_json::json!({"definitions": defs, "usages": us, "cached_text": text})
}

pub fn check_imp(c: &ImpCase, info: &mut CaseInfo) -> Outcome {
    let n = IMP_N.fetch_add(1, std::sync::atomic::Ordering::SeqCst);
    let base = format!("/dev/shm/verif-{}-c10i-{}", std::process::id(), n);
    struct Rm(String);
    impl Drop for Rm {
        fn drop(&mut self) {
            let _ = std::fs::remove_dir_all(&self.0);
        }
    }
    let _rm = Rm(base.clone());
    let ws = format!("{}/ws", base);
    let import_line = match c.form % 3 {
        0 => "from helper_mod import *\n",
        1 => "from .helper_mod import *\n",
        _ => "pytest_plugins = [\"helper_mod\"]\n",
    };
    let _ = std::fs::create_dir_all(&ws);
    let _ = std::fs::write(format!("{}/conftest.py", ws), format!("import pytest\n{}", import_line));
    let _ = std::fs::write(format!("{}/test_top.py", ws), "def test_top(shared_a, shared_b):\n    pass\n");
    for i in 0..c.importers {
        let d = format!("{}/pkg{}", ws, i);
        let _ = std::fs::create_dir_all(&d);
        // sub-directories name the module absolutely (resolved by walking up) or through pytest_plugins
        let l = if c.form % 3 == 2 { "pytest_plugins = [\"helper_mod\"]\n" } else { "from helper_mod import *\n" };
        let _ = std::fs::write(format!("{}/conftest.py", d), format!("import pytest\n{}", l));
        let _ = std::fs::write(format!("{}/test_sub.py", d), "def test_sub(shared_a):\n    pass\n");
    }
    let helper = PathBuf::from(format!("{}/helper_mod.py", ws));
    let (disk_text, buffer_text) = (render(&c.disk), render(&c.buffer));
    let _ = std::fs::write(&helper, &disk_text);
    if c.buffer.fixtures.is_empty() {
        info.classes.push("buffer defines no fixture".into());
    }
    if disk_text != buffer_text {
        info.nontrivial = true;
    }
    if c.only_queries_first {
        info.classes.push("queries before the scan".into());
        let db = FixtureDatabase::new();
        let test_top = PathBuf::from(format!("{}/test_top.py", ws));
        let conftest = PathBuf::from(format!("{}/conftest.py", ws));
        let _ = db.get_available_fixtures(&test_top);
        let _ = db.get_imported_fixtures(&conftest, &mut std::collections::HashSet::new());
        let _ = db.find_fixture_definition(&test_top, 0, 14);
        let _ = db.get_completion_context(&test_top, 1, 4);
        db.scan_workspace(Path::new(&ws));
        let cold = FixtureDatabase::new();
        cold.scan_workspace(Path::new(&ws));
        let (got, want) = (file_records(&db, &helper), file_records(&cold, &helper));
        info.checks += 1;
        info.nontrivial = !c.disk.fixtures.is_empty();
        if got != want {
            return Outcome::Fail(format!("queries answered before the scan changed what the scan indexed for a module reached through imports: {} instead of {}\n--- on disk ---\n{}", got, want, disk_text));
        }
        let avail = |d: &FixtureDatabase| {
            let mut v: Vec<String> = d.get_available_fixtures(&test_top).iter().map(|x| x.name.clone()).collect();
            v.sort();
            v
        };
        if avail(&db) != avail(&cold) {
            return Outcome::Fail(format!("queries answered before the scan changed the fixtures available to test_top.py afterwards: {:?} instead of {:?}", avail(&db), avail(&cold)));
        }
        return Outcome::Ok;
    }
    // editor first, then the whole scan
    let db = FixtureDatabase::new();
    db.analyze_file(helper.clone(), &buffer_text);
    db.scan_workspace(Path::new(&ws));
    let solo = FixtureDatabase::new();
    solo.analyze_file(helper.clone(), &buffer_text);
    let (got, want) = (file_records(&db, &helper), file_records(&solo, &helper));
    info.checks += 1;
    if got != want {
        return Outcome::Fail(format!(
            "a module reached only through imports was opened in the editor before the scan; after the scan the index holds for it {} instead of the editor's version {}\n--- on disk ---\n{}\n--- buffer ---\n{}",
            got, want, disk_text, buffer_text
        ));
    }
    Outcome::Ok
}

/// The scan path visits a document the editor already sent, with the SAME text, strictly after the
/// editor's analysis (no concurrency needed). That order is the recorded finding as far as the
/// definitions are concerned (they are registered twice); everything else the index holds for the
/// document - usages, undeclared-fixture findings, cached text - must still be there exactly once.
#[derive(Clone, Debug, Serialize, Deserialize)]
pub struct Revisit {
    pub conftest: MiniFile,
    pub doc: MiniFile,
}

pub fn revisit() -> impl Strategy<Value = Revisit> {
    (mini_file(), mini_file()).prop_map(|(mut conftest, mut doc)| {
        conftest.import_of = 9;
        doc.import_of = 9;
        Revisit { conftest, doc }
    })
}

pub fn check_revisit(c: &Revisit, info: &mut CaseInfo) -> Outcome {
    let (cp, dp) = (PathBuf::from(PATHS[0]), PathBuf::from(PATHS[1]));
    let (ct, dt) = (render(&c.conftest), render(&c.doc));
    let once = |db: &FixtureDatabase| {
        let mut us: Vec<Value> = db.usages.get(&dp).map(|u| u.iter().map(|u| serde_json::json!([u.name, u.line, u.start_char])).collect()).unwrap_or_default();
        us.sort_by_key(|v| v.to_string());
        let mut un: Vec<Value> = db.get_undeclared_fixtures(&dp).iter().map(|u| serde_json::json!([u.name, u.line, u.start_char])).collect();
        un.sort_by_key(|v| v.to_string());
        let mut rev: Vec<Value> = db.usage_by_fixture.iter().flat_map(|e| e.value().iter().filter(|(p, _)| *p == dp).map(|(_, u)| serde_json::json!([u.name, u.line, u.start_char])).collect::<Vec<_>>()).collect();
        rev.sort_by_key(|v| v.to_string());
        serde_json::json!({"usages": us, "undeclared": un, "reverse_index": rev, "cached_text": db.file_cache.get(&dp).map(|t| t.to_string())})
    };
    let db = FixtureDatabase::new();
    db.analyze_file(cp.clone(), &ct);
    db.analyze_file(dp.clone(), &dt);
    db.verif_analyze_file_fresh(dp.clone(), &dt);
    let single = FixtureDatabase::new();
    single.analyze_file(cp, &ct);
    single.analyze_file(dp.clone(), &dt);
    let (got, want) = (once(&db), once(&single));
    info.checks += 1;
    if !c.doc.body_uses.is_empty() || !c.doc.tests.is_empty() {
        info.nontrivial = true;
    }
    if got != want {
        return Outcome::Fail(format!("after the scan revisited an opened document with unchanged text the index holds for it {} instead of {}\n--- document ---\n{}", got, want, dt));
    }
    Outcome::Ok
}

pub fn run(ctx: &Ctx) {
    ctx.run_prop_shrink("revisit", ctx.tier.pick(2_000, 100_000), 8, 300, revisit, |c, info| check_revisit(c, info));
    ctx.run_prop_shrink("scan-imports", ctx.tier.pick(500, 20_000), 8, 300, imp_case, |c, info| check_imp(c, info));
    ctx.run_prop_shrink("interleavings", ctx.tier.pick(2500, 60_000), 1, 600, case, |c, info| check_case(c, info));
}

pub fn judge(_ctx: &Ctx, sub: &str, case: &Value) -> Option<Outcome> {
    let mut info = CaseInfo::default();
    match sub {
        "revisit" => {
            let c: Revisit = from_case(case)?;
            Some(check_revisit(&c, &mut info))
        }
        "scan-imports" => {
            let c: ImpCase = from_case(case)?;
            Some(check_imp(&c, &mut info))
        }
        "interleavings" => {
            let c: Case = from_case(case)?;
            Some(check_case(&c, &mut info))
        }
        _ => None,
    }
}

#[allow(unused)]
fn _p(_: PathBuf) {}
