//! Small file generator and controlled-run driver shared by C09 / C10 / C12.

use proptest::collection::vec;
use proptest::prelude::*;
use pytest_language_server::FixtureDatabase;
use serde::{Deserialize, Serialize};
use serde_json::{json, Map, Value};
use std::path::PathBuf;
use std::sync::Arc;

pub const SHARED: [&str; 3] = ["shared_a", "shared_b", "shared_c"];
pub const PATHS: [&str; 4] = ["/vw/s/conftest.py", "/vw/s/a/test_x.py", "/vw/s/b/test_y.py", "/vw/s/a/conftest.py"];

/// Where the mini workspace lives for the current case: None = the non-existent in-memory root
/// `/vw/s`, Some(dir) = an existing directory (possibly a symlink) that replaces that prefix.
/// Cases of the sub-checks that set it run one at a time.
pub static ROOT_OVERRIDE: std::sync::Mutex<Option<String>> = std::sync::Mutex::new(None);

pub fn path_of(p: u8) -> String {
    let base = PATHS[p as usize % 4];
    match ROOT_OVERRIDE.lock().unwrap().as_ref() {
        Some(r) => base.replacen("/vw/s", r, 1),
        None => base.to_string(),
    }
}

#[derive(Clone, Debug, Serialize, Deserialize, PartialEq)]
pub struct MiniFile {
    /// (name index, dependency name indices)
    pub fixtures: Vec<(u8, Vec<u8>)>,
    /// parameters of each test
    pub tests: Vec<Vec<u8>>,
    /// names used in the body of the first test without being declared
    pub body_uses: Vec<u8>,
    /// `from .other import *` style import of another mini file (index into PATHS) - none if >= 4
    pub import_of: u8,
}

pub fn mini_file() -> impl Strategy<Value = MiniFile> {
    (vec((0u8..3, vec(0u8..3, 0..=2)), 0..=3), vec(vec(0u8..3, 0..=2), 0..=2), vec(0u8..3, 0..=2), prop_oneof![4 => Just(9u8), 1 => 0u8..4]).prop_map(|(fixtures, tests, body_uses, import_of)| MiniFile { fixtures, tests, body_uses, import_of })
}

pub fn render(m: &MiniFile) -> String {
    let mut s = String::from("import pytest\n");
    if (m.import_of as usize) < 4 {
        let stem = match m.import_of {
            0 | 3 => "conftest",
            1 => "test_x",
            _ => "test_y",
        };
        s.push_str(&format!("from .{} import *\n", stem));
    }
    s.push('\n');
    let mut seen = vec![];
    for (n, deps) in &m.fixtures {
        if seen.contains(n) {
            continue;
        }
        seen.push(*n);
        let mut ds: Vec<&str> = vec![];
        for d in deps {
            let dn = SHARED[*d as usize % 3];
            if !ds.contains(&dn) {
                ds.push(dn);
            }
        }
        s.push_str(&format!("@pytest.fixture\ndef {}({}):\n    return 1\n\n", SHARED[*n as usize % 3], ds.join(", ")));
    }
    for (i, t) in m.tests.iter().enumerate() {
        let mut ps: Vec<&str> = vec![];
        for p in t {
            let pn = SHARED[*p as usize % 3];
            if !ps.contains(&pn) {
                ps.push(pn);
            }
        }
        s.push_str(&format!("def test_{}({}):\n", i, ps.join(", ")));
        if i == 0 {
            for u in &m.body_uses {
                s.push_str(&format!("    use({})\n", SHARED[*u as usize % 3]));
            }
        }
        s.push_str("    pass\n\n");
    }
    s
}

/// raw pub maps as canonical JSON (multisets; presence of empty vectors is visible)
pub fn raw_snapshot(db: &FixtureDatabase, with_undeclared: bool) -> Value {
    let mut out = Map::new();
    let mut defs = Map::new();
    let mut names: Vec<String> = db.definitions.iter().map(|e| e.key().clone()).collect();
    names.sort();
    for n in names {
        if let Some(v) = db.definitions.get(&n) {
            let mut items: Vec<String> = v.iter().map(|d| format!("{}:{}:{}:{:?}:{}", d.file_path.display(), d.line, d.name, d.dependencies, d.scope.as_str())).collect();
            items.sort();
            defs.insert(n.clone(), json!(items));
        }
    }
    out.insert("definitions".into(), Value::Object(defs));
    let mut fd = Map::new();
    let mut keys: Vec<PathBuf> = db.file_definitions.iter().map(|e| e.key().clone()).collect();
    keys.sort();
    for k in keys {
        if let Some(s) = db.file_definitions.get(&k) {
            let mut v: Vec<String> = s.iter().cloned().collect();
            v.sort();
            fd.insert(k.to_string_lossy().to_string(), json!(v));
        }
    }
    out.insert("file_definitions".into(), Value::Object(fd));
    let mut us = Map::new();
    let mut keys: Vec<PathBuf> = db.usages.iter().map(|e| e.key().clone()).collect();
    keys.sort();
    for k in keys {
        if let Some(v) = db.usages.get(&k) {
            let mut items: Vec<String> = v.iter().map(|u| format!("{}:{}:{}:{}", u.name, u.line, u.start_char, u.end_char)).collect();
            items.sort();
            us.insert(k.to_string_lossy().to_string(), json!(items));
        }
    }
    out.insert("usages".into(), Value::Object(us));
    let mut ubf = Map::new();
    let mut keys: Vec<String> = db.usage_by_fixture.iter().map(|e| e.key().clone()).collect();
    keys.sort();
    for k in keys {
        if let Some(v) = db.usage_by_fixture.get(&k) {
            let mut items: Vec<String> = v.iter().map(|(p, u)| format!("{}:{}:{}:{}", p.display(), u.name, u.line, u.start_char)).collect();
            items.sort();
            ubf.insert(k, json!(items));
        }
    }
    out.insert("usage_by_fixture".into(), Value::Object(ubf));
    let mut im = Map::new();
    let mut keys: Vec<PathBuf> = db.imports.iter().map(|e| e.key().clone()).collect();
    keys.sort();
    for k in keys {
        if let Some(s) = db.imports.get(&k) {
            let mut v: Vec<String> = s.iter().cloned().collect();
            v.sort();
            im.insert(k.to_string_lossy().to_string(), json!(v));
        }
    }
    out.insert("imports".into(), Value::Object(im));
    let mut fc = Map::new();
    let mut keys: Vec<PathBuf> = db.file_cache.iter().map(|e| e.key().clone()).collect();
    keys.sort();
    for k in keys {
        if let Some(t) = db.file_cache.get(&k) {
            fc.insert(k.to_string_lossy().to_string(), json!(t.as_str()));
        }
    }
    out.insert("file_cache".into(), Value::Object(fc));
    if with_undeclared {
        let mut un = Map::new();
        let mut keys: Vec<PathBuf> = db.undeclared_fixtures.iter().map(|e| e.key().clone()).collect();
        keys.sort();
        for k in keys {
            if let Some(v) = db.undeclared_fixtures.get(&k) {
                let mut items: Vec<String> = v.iter().map(|u| format!("{}:{}:{}", u.name, u.line, u.start_char)).collect();
                items.sort();
                un.insert(k.to_string_lossy().to_string(), json!(items));
            }
        }
        out.insert("undeclared".into(), Value::Object(un));
    }
    Value::Object(out)
}

#[derive(Clone, Debug, Serialize, Deserialize)]
pub struct Task {
    pub path: u8,
    pub text: MiniFile,
    /// scan path (no cleanup) instead of the editor path
    pub fresh: bool,
}

pub fn run_task(db: &FixtureDatabase, t: &Task) {
    let p = PathBuf::from(path_of(t.path));
    let text = render(&t.text);
    if t.fresh {
        db.verif_analyze_file_fresh(p, &text);
    } else {
        db.analyze_file(p, &text);
    }
}

pub struct Controlled {
    /// observations taken while the placement mode of the run was still in force (a map filled in
    /// all-keys-collide mode must also be read in that mode)
    pub observed: Vec<Value>,
    pub report: dashmap::verif_hooks::Report,
    pub panics: Vec<String>,
    pub hung: bool,
}

/// one global lock: the controller in the shim is a process-wide singleton
static RUN_LOCK: std::sync::Mutex<()> = std::sync::Mutex::new(());

/// Run `tasks` on controlled threads under `schedule` on top of `setup` (applied uncontrolled).
pub fn controlled_run(
    setup: &[Task],
    tasks: Vec<Box<dyn FnOnce(&FixtureDatabase) + Send>>,
    schedule: &[u8],
    collide: bool,
    observe: &dyn Fn(&FixtureDatabase) -> Vec<Value>,
) -> Controlled {
    let _g = RUN_LOCK.lock().unwrap_or_else(|e| e.into_inner());
    dashmap::verif_hooks::set_collide(collide);
    dashmap::verif_hooks::set_shard_amount(2);
    let db = Arc::new(FixtureDatabase::new());
    for t in setup {
        run_task(&db, t);
    }
    let n = tasks.len();
    dashmap::verif_hooks::set_step_limit(400_000);
    dashmap::verif_hooks::begin_controlled(n, schedule.to_vec());
    let (tx, rx) = std::sync::mpsc::channel::<(usize, Option<String>)>();
    let mut handles = Vec::new();
    for (i, task) in tasks.into_iter().enumerate() {
        let db = db.clone();
        let tx = tx.clone();
        // very large stack + step bound: runaway recursion ends in a deterministic panic, not in a
        // stack overflow that would take the harness down
        handles.push(std::thread::Builder::new().stack_size(1 << 30).spawn(move || {
            dashmap::verif_hooks::reset_steps();
            let r = std::panic::catch_unwind(std::panic::AssertUnwindSafe(|| {
                dashmap::verif_hooks::enter_controlled(i);
                task(&db);
            }));
            dashmap::verif_hooks::exit_controlled(i);
            let msg = r.err().map(|e| {
                if let Some(s) = e.downcast_ref::<String>() {
                    s.clone()
                } else if let Some(s) = e.downcast_ref::<&str>() {
                    s.to_string()
                } else {
                    "panic".to_string()
                }
            });
            let _ = tx.send((i, msg));
        }).expect("spawn controlled thread"));
    }
    drop(tx);
    let mut panics = Vec::new();
    let mut done = 0;
    let mut hung = false;
    while done < n {
        match rx.recv_timeout(std::time::Duration::from_secs(20)) {
            Ok((_, m)) => {
                done += 1;
                if let Some(m) = m {
                    panics.push(m);
                }
            }
            Err(_) => {
                hung = true;
                break;
            }
        }
    }
    if !hung {
        for h in handles {
            let _ = h.join();
        }
    }
    let report = dashmap::verif_hooks::end_controlled();
    dashmap::verif_hooks::set_step_limit(0);
    let observed = if hung { vec![] } else { observe(&db) };
    dashmap::verif_hooks::set_collide(false);
    Controlled { observed, report, panics, hung }
}

pub fn permutations(n: usize) -> Vec<Vec<usize>> {
    fn go(cur: &mut Vec<usize>, used: &mut Vec<bool>, n: usize, out: &mut Vec<Vec<usize>>) {
        if cur.len() == n {
            out.push(cur.clone());
            return;
        }
        for i in 0..n {
            if !used[i] {
                used[i] = true;
                cur.push(i);
                go(cur, used, n, out);
                cur.pop();
                used[i] = false;
            }
        }
    }
    let mut out = vec![];
    go(&mut vec![], &mut vec![false; n], n, &mut out);
    out
}
