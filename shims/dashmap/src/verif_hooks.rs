//! Verification shim for dashmap 6.1.0 (additive; not part of upstream).
//!
//! * nesting log: every lock acquisition made while the same thread already holds a shard lock
//!   records an edge (held map, held mode) -> (acquired map, acquired mode, same map?, same shard?)
//! * owned scheduler: threads that registered as *controlled* run one at a time; every lock
//!   acquisition is a yield point at which a generated schedule decides who proceeds. A thread whose
//!   pending lock conflicts with a current holder is not runnable; if nobody is runnable the run
//!   ends with a deterministic deadlock report (controlled threads are unwound with a panic).
//! * knobs: forced shard amount, all-keys-collide mode, deterministic hashing.
//!
//! With nothing switched on every hook is a relaxed atomic load.

use core::hash::{BuildHasher, Hash, Hasher};
use std::cell::RefCell;
use std::collections::{BTreeMap, BTreeSet};
use std::sync::atomic::{AtomicBool, AtomicUsize, Ordering};
use std::sync::{Condvar, Mutex};

static ACTIVE: AtomicBool = AtomicBool::new(false); // any feature on (fast path check)
static LOGGING: AtomicBool = AtomicBool::new(false);
static CONTROL: AtomicBool = AtomicBool::new(false);
static ABORT_ON_REENTRANT: AtomicBool = AtomicBool::new(false);
static COLLIDE: AtomicBool = AtomicBool::new(false);
static DETERMINISTIC: AtomicBool = AtomicBool::new(false);
static SHARDS: AtomicUsize = AtomicUsize::new(0);
static NEXT_MAP: AtomicUsize = AtomicUsize::new(1);
static ENV_INIT: std::sync::Once = std::sync::Once::new();
static STEP_LIMIT: AtomicUsize = AtomicUsize::new(0);

thread_local! {
    static STEPS: std::cell::Cell<usize> = const { std::cell::Cell::new(0) };
}

/// Deterministic step bound: a thread that performs more than `n` lock acquisitions after the last
/// `reset_steps()` is unwound with a panic (0 = no bound).
pub fn set_step_limit(n: usize) {
    STEP_LIMIT.store(n, Ordering::SeqCst);
    refresh_active();
}
pub fn reset_steps() {
    STEPS.with(|s| s.set(0));
}
pub fn steps() -> usize {
    STEPS.with(|s| s.get())
}

fn env_init() {
    ENV_INIT.call_once(|| {
        if std::env::var("VERIF_DASHMAP_COLLIDE").map(|v| v == "1").unwrap_or(false) {
            COLLIDE.store(true, Ordering::SeqCst);
            ABORT_ON_REENTRANT.store(true, Ordering::SeqCst);
            ACTIVE.store(true, Ordering::SeqCst);
        }
        if let Ok(p) = std::env::var("VERIF_LOCKLOG") {
            if !p.is_empty() {
                *LOGFILE.lock().unwrap() = Some(p);
                LOGGING.store(true, Ordering::SeqCst);
                ACTIVE.store(true, Ordering::SeqCst);
            }
        }
        if let Ok(n) = std::env::var("VERIF_DASHMAP_SHARDS") {
            if let Ok(n) = n.parse::<usize>() {
                SHARDS.store(n, Ordering::SeqCst);
            }
        }
    });
}

static LOGFILE: Mutex<Option<String>> = Mutex::new(None);

pub fn next_map_id() -> usize {
    env_init();
    NEXT_MAP.fetch_add(1, Ordering::SeqCst)
}
pub fn reset_map_ids() {
    NEXT_MAP.store(1, Ordering::SeqCst);
}
pub fn forced_shard_amount() -> usize {
    env_init();
    SHARDS.load(Ordering::Relaxed)
}
pub fn set_shard_amount(n: usize) {
    SHARDS.store(n, Ordering::SeqCst);
}
#[inline]
pub fn collide() -> bool {
    COLLIDE.load(Ordering::Relaxed)
}
pub fn set_collide(on: bool) {
    COLLIDE.store(on, Ordering::SeqCst);
}
pub fn set_deterministic_hashing(on: bool) {
    DETERMINISTIC.store(on, Ordering::SeqCst);
}
pub fn set_logging(on: bool) {
    LOGGING.store(on, Ordering::SeqCst);
    refresh_active();
}
fn refresh_active() {
    ACTIVE.store(
        LOGGING.load(Ordering::SeqCst) || CONTROL.load(Ordering::SeqCst) || ABORT_ON_REENTRANT.load(Ordering::SeqCst) || STEP_LIMIT.load(Ordering::SeqCst) > 0,
        Ordering::SeqCst,
    );
}

#[inline]
pub fn hash_with<S: BuildHasher, T: Hash + ?Sized>(s: &S, item: &T) -> u64 {
    if DETERMINISTIC.load(Ordering::Relaxed) {
        #[allow(deprecated)]
        let mut h = std::hash::SipHasher::new();
        item.hash(&mut h);
        h.finish()
    } else {
        let mut h = s.build_hasher();
        item.hash(&mut h);
        h.finish()
    }
}

/// (held map, held exclusive) -> (acquired map, acquired exclusive, same map, same shard)
#[derive(Clone, Copy, Debug, PartialEq, Eq, PartialOrd, Ord)]
pub struct Edge {
    pub held_map: usize,
    pub held_excl: bool,
    pub acq_map: usize,
    pub acq_excl: bool,
    pub same_shard: bool,
}

static EDGES: Mutex<BTreeSet<Edge>> = Mutex::new(BTreeSet::new());

pub fn take_edges() -> BTreeSet<Edge> {
    std::mem::take(&mut *EDGES.lock().unwrap())
}

thread_local! {
    static HELD: RefCell<Vec<(usize, usize, bool)>> = const { RefCell::new(Vec::new()) }; // (addr, map, excl)
    static TID: RefCell<Option<usize>> = const { RefCell::new(None) };
}

fn log_edges(addr: usize, map: usize, excl: bool) {
    HELD.with(|h| {
        let h = h.borrow();
        for (a, m, e) in h.iter() {
            let edge = Edge { held_map: *m, held_excl: *e, acq_map: map, acq_excl: excl, same_shard: *a == addr };
            let new = EDGES.lock().unwrap().insert(edge);
            if new {
                if let Some(p) = LOGFILE.lock().unwrap().as_ref() {
                    use std::io::Write;
                    if let Ok(mut f) = std::fs::OpenOptions::new().create(true).append(true).open(p) {
                        let _ = writeln!(f, "{} {} {} {} {}", edge.held_map, edge.held_excl as u8, edge.acq_map, edge.acq_excl as u8, edge.same_shard as u8);
                    }
                }
            }
            if !ABORT_ON_REENTRANT.load(Ordering::Relaxed) && LOGGING.load(Ordering::Relaxed) && !CONTROL.load(Ordering::Relaxed) && *a == addr && (*e || excl) {
                // in-process logging mode: the real lock would now block forever on itself
                panic!("verif: re-entrant conflicting acquisition on map {} ({} while holding {})", map, if excl { "exclusive" } else { "shared" }, if *e { "exclusive" } else { "shared" });
            }
            if ABORT_ON_REENTRANT.load(Ordering::Relaxed) && *a == addr && (*e || excl) {
                eprintln!("VERIF-REENTRANT: thread requests shard lock of map {} ({}) while holding it ({})", map, if excl { "exclusive" } else { "shared" }, if *e { "exclusive" } else { "shared" });
                if let Some(p) = LOGFILE.lock().unwrap().as_ref() {
                    use std::io::Write;
                    if let Ok(mut f) = std::fs::OpenOptions::new().create(true).append(true).open(p) {
                        let _ = writeln!(f, "REENTRANT {} {} {}", map, *e as u8, excl as u8);
                    }
                }
                std::process::abort();
            }
        }
    });
}

#[inline]
pub fn before_acquire(addr: usize, map: usize, excl: bool) {
    if !ACTIVE.load(Ordering::Relaxed) {
        return;
    }
    let limit = STEP_LIMIT.load(Ordering::Relaxed);
    if limit > 0 {
        let n = STEPS.with(|s| {
            s.set(s.get() + 1);
            s.get()
        });
        if n > limit {
            panic!("verif: step bound of {} lock acquisitions exceeded", limit);
        }
    }
    if LOGGING.load(Ordering::Relaxed) || ABORT_ON_REENTRANT.load(Ordering::Relaxed) {
        log_edges(addr, map, excl);
    }
    if CONTROL.load(Ordering::Relaxed) {
        let tid = TID.with(|t| *t.borrow());
        if let Some(tid) = tid {
            yield_point(tid, Some((addr, map, excl)));
        }
    }
}

#[inline]
pub fn before_try(addr: usize, map: usize, excl: bool) {
    if !ACTIVE.load(Ordering::Relaxed) {
        return;
    }
    if LOGGING.load(Ordering::Relaxed) {
        log_edges(addr, map, excl);
    }
}

#[inline]
pub fn acquired(addr: usize, map: usize, excl: bool) {
    if !ACTIVE.load(Ordering::Relaxed) {
        return;
    }
    HELD.with(|h| h.borrow_mut().push((addr, map, excl)));
    if CONTROL.load(Ordering::Relaxed) {
        if let Some(tid) = TID.with(|t| *t.borrow()) {
            let mut c = CTRL.lock().unwrap();
            let e = c.holders.entry(addr).or_insert((0, None));
            if excl {
                e.1 = Some(tid);
            } else {
                e.0 += 1;
            }
        }
    }
}

#[inline]
pub fn released(addr: usize, _map: usize, excl: bool) {
    if !ACTIVE.load(Ordering::Relaxed) {
        return;
    }
    HELD.with(|h| {
        let mut h = h.borrow_mut();
        if let Some(pos) = h.iter().rposition(|(a, _, e)| *a == addr && *e == excl) {
            h.remove(pos);
        }
    });
    if CONTROL.load(Ordering::Relaxed) {
        if TID.with(|t| *t.borrow()).is_some() {
            let mut c = CTRL.lock().unwrap();
            if let Some(e) = c.holders.get_mut(&addr) {
                if excl {
                    e.1 = None;
                } else if e.0 > 0 {
                    e.0 -= 1;
                }
            }
        }
    }
}

#[inline]
pub fn downgraded(addr: usize, _map: usize) {
    if !ACTIVE.load(Ordering::Relaxed) {
        return;
    }
    HELD.with(|h| {
        let mut h = h.borrow_mut();
        if let Some(pos) = h.iter().rposition(|(a, _, e)| *a == addr && *e) {
            h[pos].2 = false;
        }
    });
    if CONTROL.load(Ordering::Relaxed) {
        if TID.with(|t| *t.borrow()).is_some() {
            let mut c = CTRL.lock().unwrap();
            if let Some(e) = c.holders.get_mut(&addr) {
                e.1 = None;
                e.0 += 1;
            }
        }
    }
}

// ---------------------------------------------------------------------------------------------
// owned scheduler
// ---------------------------------------------------------------------------------------------

#[derive(Clone, Copy, Debug, PartialEq, Eq)]
enum St {
    /// registered, waiting to be scheduled for the first time, or parked at a yield point
    Parked,
    Running,
    Done,
}

struct Thr {
    arrived: bool,
    st: St,
    /// lock the thread wants next (addr, map, excl); None = wants to start / no lock
    pending: Option<(usize, usize, bool)>,
}

#[derive(Default)]
pub struct Report {
    /// (thread, map id, exclusive) at every yield point in execution order
    pub trace: Vec<(usize, usize, bool)>,
    pub deadlock: Option<String>,
    pub yield_points: usize,
    pub preemptions: usize,
    pub schedule_exhausted_at: Option<usize>,
}

struct Ctrl {
    threads: Vec<Thr>,
    current: Option<usize>,
    schedule: Vec<u8>,
    pos: usize,
    holders: BTreeMap<usize, (usize, Option<usize>)>,
    report: Report,
    expected: usize,
    aborted: bool,
}

static CTRL: Mutex<Ctrl> = Mutex::new(Ctrl {
    threads: Vec::new(),
    current: None,
    schedule: Vec::new(),
    pos: 0,
    holders: BTreeMap::new(),
    report: Report { trace: Vec::new(), deadlock: None, yield_points: 0, preemptions: 0, schedule_exhausted_at: None },
    expected: 0,
    aborted: false,
});
static CV: Condvar = Condvar::new();

/// Start a controlled run of `n` threads under `schedule` (one byte per decision: the thread that
/// should run next, modulo the thread count; if it is not runnable the next runnable one in cyclic
/// order runs; when the schedule is exhausted the current thread keeps running if it can, else the
/// lowest runnable one).
pub fn begin_controlled(n: usize, schedule: Vec<u8>) {
    let mut c = CTRL.lock().unwrap();
    c.threads = (0..n).map(|_| Thr { arrived: false, st: St::Parked, pending: None }).collect();
    c.current = None;
    c.schedule = schedule;
    c.pos = 0;
    c.holders.clear();
    c.report = Report::default();
    c.expected = n;
    c.aborted = false;
    CONTROL.store(true, Ordering::SeqCst);
    refresh_active();
}

pub fn end_controlled() -> Report {
    CONTROL.store(false, Ordering::SeqCst);
    refresh_active();
    let mut c = CTRL.lock().unwrap();
    c.threads.clear();
    c.holders.clear();
    std::mem::take(&mut c.report)
}

fn conflicts(c: &Ctrl, tid: usize, pending: Option<(usize, usize, bool)>) -> bool {
    let Some((addr, _, excl)) = pending else { return false };
    match c.holders.get(&addr) {
        None => false,
        Some((readers, writer)) => {
            if let Some(w) = writer {
                // held exclusively (possibly by the requester itself: self-deadlock)
                let _ = w;
                return true;
            }
            if excl && *readers > 0 {
                return true;
            }
            let _ = tid;
            false
        }
    }
}

/// pick the next thread to run; returns None on deadlock / completion
fn pick(c: &mut Ctrl) -> Option<usize> {
    let runnable: Vec<usize> = (0..c.threads.len()).filter(|&i| c.threads[i].arrived && c.threads[i].st == St::Parked && !conflicts(c, i, c.threads[i].pending)).collect();
    if runnable.is_empty() {
        return None;
    }
    let choice = if c.pos < c.schedule.len() {
        // the byte names the thread that should run (mod thread count); if it cannot run, the next
        // runnable thread in cyclic order does
        let n = c.threads.len();
        let want = c.schedule[c.pos] as usize % n;
        c.pos += 1;
        (0..n).map(|k| (want + k) % n).find(|t| runnable.contains(t)).unwrap()
    } else {
        if c.report.schedule_exhausted_at.is_none() {
            c.report.schedule_exhausted_at = Some(c.report.yield_points);
        }
        match c.current {
            Some(cur) if runnable.contains(&cur) => cur,
            _ => runnable[0],
        }
    };
    Some(choice)
}

fn yield_point(tid: usize, pending: Option<(usize, usize, bool)>) {
    let mut c = CTRL.lock().unwrap();
    if c.aborted {
        drop(c);
        panic!("verif: controlled run aborted (deadlock)");
    }
    c.threads[tid].arrived = true;
    c.threads[tid].st = St::Parked;
    c.threads[tid].pending = pending;
    if let Some((_, map, excl)) = pending {
        c.report.trace.push((tid, map, excl));
        c.report.yield_points += 1;
    }
    let prev = c.current;
    // all threads must have arrived before the first decision
    let arrived = c.threads.iter().filter(|t| t.arrived).count();
    if c.current.is_none() && arrived < c.expected {
        // wait until everyone is parked at the start line; the last one makes the decision
        loop {
            c = CV.wait(c).unwrap();
            if c.aborted {
                drop(c);
                panic!("verif: controlled run aborted (deadlock)");
            }
            if c.current == Some(tid) && c.threads[tid].st == St::Running {
                return;
            }
        }
    }
    match pick(&mut c) {
        Some(next) => {
            if prev.is_some() && prev != Some(next) {
                c.report.preemptions += 1;
            }
            c.current = Some(next);
            c.threads[next].st = St::Running;
            if next == tid {
                return;
            }
            CV.notify_all();
            loop {
                c = CV.wait(c).unwrap();
                if c.aborted {
                    drop(c);
                    panic!("verif: controlled run aborted (deadlock)");
                }
                if c.current == Some(tid) && c.threads[tid].st == St::Running {
                    return;
                }
            }
        }
        None => {
            let desc: Vec<String> = c
                .threads
                .iter()
                .enumerate()
                .filter(|(_, t)| t.st == St::Parked)
                .map(|(i, t)| format!("thread {} waits for {:?}", i, t.pending.map(|(_, m, e)| (m, if e { "exclusive" } else { "shared" }))))
                .collect();
            c.report.deadlock = Some(format!("no runnable thread: {}", desc.join("; ")));
            c.aborted = true;
            CV.notify_all();
            drop(c);
            panic!("verif: controlled run aborted (deadlock)");
        }
    }
}

/// Called first thing by a controlled thread.
pub fn enter_controlled(tid: usize) {
    TID.with(|t| *t.borrow_mut() = Some(tid));
    HELD.with(|h| h.borrow_mut().clear());
    yield_point(tid, None);
}

/// Called by a controlled thread when its task is finished (also after a panic was caught).
pub fn exit_controlled(tid: usize) {
    TID.with(|t| *t.borrow_mut() = None);
    let mut c = CTRL.lock().unwrap();
    if tid < c.threads.len() {
        c.threads[tid].st = St::Done;
        c.threads[tid].pending = None;
    }
    // release whatever the bookkeeping still thinks this thread holds exclusively
    for (_, h) in c.holders.iter_mut() {
        if h.1 == Some(tid) {
            h.1 = None;
        }
    }
    if c.aborted {
        CV.notify_all();
        return;
    }
    if c.threads.iter().all(|t| t.st == St::Done) {
        c.current = None;
        CV.notify_all();
        return;
    }
    match pick(&mut c) {
        Some(next) => {
            c.current = Some(next);
            c.threads[next].st = St::Running;
            CV.notify_all();
        }
        None => {
            if c.threads.iter().any(|t| t.st == St::Parked) {
                c.report.deadlock = Some("no runnable thread after a thread finished".to_string());
                c.aborted = true;
            }
            CV.notify_all();
        }
    }
}
