use crate::mapref;
use core::hash::Hash;
use core::ops::Deref;

pub struct Ref<'a, K> {
    inner: mapref::one::Ref<'a, K, ()>,
}

impl<'a, K: Eq + Hash> Ref<'a, K> {
    pub(crate) fn new(inner: mapref::one::Ref<'a, K, ()>) -> Self {
        Self { inner }
    }

    pub fn key(&self) -> &K {
        self.inner.key()
    }
}

impl<'a, K: Eq + Hash> Deref for Ref<'a, K> {
    type Target = K;

    fn deref(&self) -> &K {
        self.key()
    }
}
