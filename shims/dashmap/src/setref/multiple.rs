use crate::mapref;
use core::hash::Hash;
use core::ops::Deref;

pub struct RefMulti<'a, K> {
    inner: mapref::multiple::RefMulti<'a, K, ()>,
}

impl<'a, K: Eq + Hash> RefMulti<'a, K> {
    pub(crate) fn new(inner: mapref::multiple::RefMulti<'a, K, ()>) -> Self {
        Self { inner }
    }

    pub fn key(&self) -> &K {
        self.inner.key()
    }
}

impl<'a, K: Eq + Hash> Deref for RefMulti<'a, K> {
    type Target = K;

    fn deref(&self) -> &K {
        self.key()
    }
}
