pub mod multiple;
pub mod one;
