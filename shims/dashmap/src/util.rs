//! This module is full of hackery and dark magic.
//! Either spend a day fixing it and quietly submit a PR or don't mention it to anybody.
use core::cell::UnsafeCell;
use core::{mem, ptr};

pub const fn ptr_size_bits() -> usize {
    mem::size_of::<usize>() * 8
}

pub fn map_in_place_2<T, U, F: FnOnce(U, T) -> T>((k, v): (U, &mut T), f: F) {
    unsafe {
        // # Safety
        //
        // If the closure panics, we must abort otherwise we could double drop `T`
        let promote_panic_to_abort = AbortOnPanic;

        ptr::write(v, f(k, ptr::read(v)));

        // If we made it here, the calling thread could have already have panicked, in which case
        // We know that the closure did not panic, so don't bother checking.
        std::mem::forget(promote_panic_to_abort);
    }
}

/// A simple wrapper around `T`
///
/// This is to prevent UB when using `HashMap::get_key_value`, because
/// `HashMap` doesn't expose an api to get the key and value, where
/// the value is a `&mut T`.
///
/// See [#10](https://github.com/xacrimon/dashmap/issues/10) for details
///
/// This type is meant to be an implementation detail, but must be exposed due to the `Dashmap::shards`
#[repr(transparent)]
pub struct SharedValue<T> {
    value: UnsafeCell<T>,
}

impl<T: Clone> Clone for SharedValue<T> {
    fn clone(&self) -> Self {
        let inner = self.get().clone();

        Self {
            value: UnsafeCell::new(inner),
        }
    }
}

unsafe impl<T: Send> Send for SharedValue<T> {}

unsafe impl<T: Sync> Sync for SharedValue<T> {}

impl<T> SharedValue<T> {
    /// Create a new `SharedValue<T>`
    pub const fn new(value: T) -> Self {
        Self {
            value: UnsafeCell::new(value),
        }
    }

    /// Get a shared reference to `T`
    pub fn get(&self) -> &T {
        unsafe { &*self.value.get() }
    }

    /// Get an unique reference to `T`
    pub fn get_mut(&mut self) -> &mut T {
        unsafe { &mut *self.value.get() }
    }

    /// Unwraps the value
    pub fn into_inner(self) -> T {
        self.value.into_inner()
    }

    /// Get a mutable raw pointer to the underlying value
    pub(crate) fn as_ptr(&self) -> *mut T {
        self.value.get()
    }
}

struct AbortOnPanic;

impl Drop for AbortOnPanic {
    fn drop(&mut self) {
        if std::thread::panicking() {
            std::process::abort()
        }
    }
}
