use crate::setref::multiple::RefMulti;
use crate::t::Map;
use core::hash::{BuildHasher, Hash};

pub struct OwningIter<K, S> {
    inner: crate::iter::OwningIter<K, (), S>,
}

impl<K: Eq + Hash, S: BuildHasher + Clone> OwningIter<K, S> {
    pub(crate) fn new(inner: crate::iter::OwningIter<K, (), S>) -> Self {
        Self { inner }
    }
}

impl<K: Eq + Hash, S: BuildHasher + Clone> Iterator for OwningIter<K, S> {
    type Item = K;

    fn next(&mut self) -> Option<Self::Item> {
        self.inner.next().map(|(k, _)| k)
    }
}

unsafe impl<K, S> Send for OwningIter<K, S>
where
    K: Eq + Hash + Send,
    S: BuildHasher + Clone + Send,
{
}

unsafe impl<K, S> Sync for OwningIter<K, S>
where
    K: Eq + Hash + Sync,
    S: BuildHasher + Clone + Sync,
{
}

pub struct Iter<'a, K, S, M> {
    inner: crate::iter::Iter<'a, K, (), S, M>,
}

unsafe impl<'a, 'i, K, S, M> Send for Iter<'i, K, S, M>
where
    K: 'a + Eq + Hash + Send,
    S: 'a + BuildHasher + Clone,
    M: Map<'a, K, (), S>,
{
}

unsafe impl<'a, 'i, K, S, M> Sync for Iter<'i, K, S, M>
where
    K: 'a + Eq + Hash + Sync,
    S: 'a + BuildHasher + Clone,
    M: Map<'a, K, (), S>,
{
}

impl<'a, K: Eq + Hash, S: 'a + BuildHasher + Clone, M: Map<'a, K, (), S>> Iter<'a, K, S, M> {
    pub(crate) fn new(inner: crate::iter::Iter<'a, K, (), S, M>) -> Self {
        Self { inner }
    }
}

impl<'a, K: Eq + Hash, S: 'a + BuildHasher + Clone, M: Map<'a, K, (), S>> Iterator
    for Iter<'a, K, S, M>
{
    type Item = RefMulti<'a, K>;

    fn next(&mut self) -> Option<Self::Item> {
        self.inner.next().map(RefMulti::new)
    }
}
