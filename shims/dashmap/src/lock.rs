use core::sync::atomic::{AtomicUsize, Ordering};
use parking_lot_core::{ParkToken, SpinWait, UnparkToken};

pub type RwLock<T> = lock_api::RwLock<RawRwLock, T>;
pub type RwLockReadGuard<'a, T> = lock_api::RwLockReadGuard<'a, RawRwLock, T>;
pub type RwLockWriteGuard<'a, T> = lock_api::RwLockWriteGuard<'a, RawRwLock, T>;

const READERS_PARKED: usize = 0b0001;
const WRITERS_PARKED: usize = 0b0010;
const ONE_READER: usize = 0b0100;
const ONE_WRITER: usize = !(READERS_PARKED | WRITERS_PARKED);

pub struct InnerRawRwLock {
    state: AtomicUsize,
}

unsafe impl lock_api::RawRwLock for InnerRawRwLock {
    #[allow(clippy::declare_interior_mutable_const)]
    const INIT: Self = Self {
        state: AtomicUsize::new(0),
    };

    type GuardMarker = lock_api::GuardNoSend;

    #[inline]
    fn try_lock_exclusive(&self) -> bool {
        self.state
            .compare_exchange(0, ONE_WRITER, Ordering::Acquire, Ordering::Relaxed)
            .is_ok()
    }

    #[inline]
    fn lock_exclusive(&self) {
        if self
            .state
            .compare_exchange_weak(0, ONE_WRITER, Ordering::Acquire, Ordering::Relaxed)
            .is_err()
        {
            self.lock_exclusive_slow();
        }
    }

    #[inline]
    unsafe fn unlock_exclusive(&self) {
        if self
            .state
            .compare_exchange(ONE_WRITER, 0, Ordering::Release, Ordering::Relaxed)
            .is_err()
        {
            self.unlock_exclusive_slow();
        }
    }

    #[inline]
    fn try_lock_shared(&self) -> bool {
        self.try_lock_shared_fast() || self.try_lock_shared_slow()
    }

    #[inline]
    fn lock_shared(&self) {
        if !self.try_lock_shared_fast() {
            self.lock_shared_slow();
        }
    }

    #[inline]
    unsafe fn unlock_shared(&self) {
        let state = self.state.fetch_sub(ONE_READER, Ordering::Release);

        if state == (ONE_READER | WRITERS_PARKED) {
            self.unlock_shared_slow();
        }
    }
}

unsafe impl lock_api::RawRwLockDowngrade for InnerRawRwLock {
    #[inline]
    unsafe fn downgrade(&self) {
        let state = self
            .state
            .fetch_and(ONE_READER | WRITERS_PARKED, Ordering::Release);
        if state & READERS_PARKED != 0 {
            parking_lot_core::unpark_all((self as *const _ as usize) + 1, UnparkToken(0));
        }
    }
}

impl InnerRawRwLock {
    #[cold]
    fn lock_exclusive_slow(&self) {
        let mut acquire_with = 0;
        loop {
            let mut spin = SpinWait::new();
            let mut state = self.state.load(Ordering::Relaxed);

            loop {
                while state & ONE_WRITER == 0 {
                    match self.state.compare_exchange_weak(
                        state,
                        state | ONE_WRITER | acquire_with,
                        Ordering::Acquire,
                        Ordering::Relaxed,
                    ) {
                        Ok(_) => return,
                        Err(e) => state = e,
                    }
                }

                if state & WRITERS_PARKED == 0 {
                    if spin.spin() {
                        state = self.state.load(Ordering::Relaxed);
                        continue;
                    }

                    if let Err(e) = self.state.compare_exchange_weak(
                        state,
                        state | WRITERS_PARKED,
                        Ordering::Relaxed,
                        Ordering::Relaxed,
                    ) {
                        state = e;
                        continue;
                    }
                }

                let _ = unsafe {
                    parking_lot_core::park(
                        self as *const _ as usize,
                        || {
                            let state = self.state.load(Ordering::Relaxed);
                            (state & ONE_WRITER != 0) && (state & WRITERS_PARKED != 0)
                        },
                        || {},
                        |_, _| {},
                        ParkToken(0),
                        None,
                    )
                };

                acquire_with = WRITERS_PARKED;
                break;
            }
        }
    }

    #[cold]
    fn unlock_exclusive_slow(&self) {
        let state = self.state.load(Ordering::Relaxed);
        assert_eq!(state & ONE_WRITER, ONE_WRITER);

        let mut parked = state & (READERS_PARKED | WRITERS_PARKED);
        assert_ne!(parked, 0);

        if parked != (READERS_PARKED | WRITERS_PARKED) {
            if let Err(new_state) =
                self.state
                    .compare_exchange(state, 0, Ordering::Release, Ordering::Relaxed)
            {
                assert_eq!(new_state, ONE_WRITER | READERS_PARKED | WRITERS_PARKED);
                parked = READERS_PARKED | WRITERS_PARKED;
            }
        }

        if parked == (READERS_PARKED | WRITERS_PARKED) {
            self.state.store(WRITERS_PARKED, Ordering::Release);
            parked = READERS_PARKED;
        }

        if parked == READERS_PARKED {
            return unsafe {
                parking_lot_core::unpark_all((self as *const _ as usize) + 1, UnparkToken(0));
            };
        }

        assert_eq!(parked, WRITERS_PARKED);
        unsafe {
            parking_lot_core::unpark_one(self as *const _ as usize, |_| UnparkToken(0));
        }
    }

    #[inline(always)]
    fn try_lock_shared_fast(&self) -> bool {
        let state = self.state.load(Ordering::Relaxed);

        if let Some(new_state) = state.checked_add(ONE_READER) {
            if new_state & ONE_WRITER != ONE_WRITER {
                return self
                    .state
                    .compare_exchange_weak(state, new_state, Ordering::Acquire, Ordering::Relaxed)
                    .is_ok();
            }
        }

        false
    }

    #[cold]
    fn try_lock_shared_slow(&self) -> bool {
        let mut state = self.state.load(Ordering::Relaxed);

        while let Some(new_state) = state.checked_add(ONE_READER) {
            if new_state & ONE_WRITER == ONE_WRITER {
                break;
            }

            match self.state.compare_exchange_weak(
                state,
                new_state,
                Ordering::Acquire,
                Ordering::Relaxed,
            ) {
                Ok(_) => return true,
                Err(e) => state = e,
            }
        }

        false
    }

    #[cold]
    fn lock_shared_slow(&self) {
        loop {
            let mut spin = SpinWait::new();
            let mut state = self.state.load(Ordering::Relaxed);

            loop {
                let mut backoff = SpinWait::new();
                while let Some(new_state) = state.checked_add(ONE_READER) {
                    assert_ne!(
                        new_state & ONE_WRITER,
                        ONE_WRITER,
                        "reader count overflowed",
                    );

                    if self
                        .state
                        .compare_exchange_weak(
                            state,
                            new_state,
                            Ordering::Acquire,
                            Ordering::Relaxed,
                        )
                        .is_ok()
                    {
                        return;
                    }

                    backoff.spin_no_yield();
                    state = self.state.load(Ordering::Relaxed);
                }

                if state & READERS_PARKED == 0 {
                    if spin.spin() {
                        state = self.state.load(Ordering::Relaxed);
                        continue;
                    }

                    if let Err(e) = self.state.compare_exchange_weak(
                        state,
                        state | READERS_PARKED,
                        Ordering::Relaxed,
                        Ordering::Relaxed,
                    ) {
                        state = e;
                        continue;
                    }
                }

                let _ = unsafe {
                    parking_lot_core::park(
                        (self as *const _ as usize) + 1,
                        || {
                            let state = self.state.load(Ordering::Relaxed);
                            (state & ONE_WRITER == ONE_WRITER) && (state & READERS_PARKED != 0)
                        },
                        || {},
                        |_, _| {},
                        ParkToken(0),
                        None,
                    )
                };

                break;
            }
        }
    }

    #[cold]
    fn unlock_shared_slow(&self) {
        if self
            .state
            .compare_exchange(WRITERS_PARKED, 0, Ordering::Relaxed, Ordering::Relaxed)
            .is_ok()
        {
            unsafe {
                parking_lot_core::unpark_one(self as *const _ as usize, |_| UnparkToken(0));
            }
        }
    }
}


// ---------------------------------------------------------------------------------------------
// Verification shim (additive): the lock type DashMap uses is a thin wrapper around the original
// implementation above that reports every acquisition / release to `crate::verif_hooks`.
// With no controller / log installed each hook is one relaxed atomic load.
// ---------------------------------------------------------------------------------------------

pub struct RawRwLock {
    inner: InnerRawRwLock,
    /// id of the DashMap this shard lock belongs to (0 = unknown)
    map_id: AtomicUsize,
}

impl RawRwLock {
    #[inline]
    fn addr(&self) -> usize {
        self as *const _ as usize
    }
    pub fn verif_set_map_id(&self, id: usize) {
        self.map_id.store(id, Ordering::Relaxed);
    }
    pub fn verif_map_id(&self) -> usize {
        self.map_id.load(Ordering::Relaxed)
    }
    #[inline]
    fn mid(&self) -> usize {
        self.map_id.load(Ordering::Relaxed)
    }
}

unsafe impl lock_api::RawRwLock for RawRwLock {
    #[allow(clippy::declare_interior_mutable_const)]
    const INIT: Self = Self {
        inner: <InnerRawRwLock as lock_api::RawRwLock>::INIT,
        map_id: AtomicUsize::new(0),
    };

    type GuardMarker = lock_api::GuardNoSend;

    #[inline]
    fn try_lock_exclusive(&self) -> bool {
        crate::verif_hooks::before_try(self.addr(), self.mid(), true);
        let ok = lock_api::RawRwLock::try_lock_exclusive(&self.inner);
        if ok {
            crate::verif_hooks::acquired(self.addr(), self.mid(), true);
        }
        ok
    }

    #[inline]
    fn lock_exclusive(&self) {
        crate::verif_hooks::before_acquire(self.addr(), self.mid(), true);
        lock_api::RawRwLock::lock_exclusive(&self.inner);
        crate::verif_hooks::acquired(self.addr(), self.mid(), true);
    }

    #[inline]
    unsafe fn unlock_exclusive(&self) {
        lock_api::RawRwLock::unlock_exclusive(&self.inner);
        crate::verif_hooks::released(self.addr(), self.mid(), true);
    }

    #[inline]
    fn try_lock_shared(&self) -> bool {
        crate::verif_hooks::before_try(self.addr(), self.mid(), false);
        let ok = lock_api::RawRwLock::try_lock_shared(&self.inner);
        if ok {
            crate::verif_hooks::acquired(self.addr(), self.mid(), false);
        }
        ok
    }

    #[inline]
    fn lock_shared(&self) {
        crate::verif_hooks::before_acquire(self.addr(), self.mid(), false);
        lock_api::RawRwLock::lock_shared(&self.inner);
        crate::verif_hooks::acquired(self.addr(), self.mid(), false);
    }

    #[inline]
    unsafe fn unlock_shared(&self) {
        lock_api::RawRwLock::unlock_shared(&self.inner);
        crate::verif_hooks::released(self.addr(), self.mid(), false);
    }
}

unsafe impl lock_api::RawRwLockDowngrade for RawRwLock {
    #[inline]
    unsafe fn downgrade(&self) {
        lock_api::RawRwLockDowngrade::downgrade(&self.inner);
        crate::verif_hooks::downgraded(self.addr(), self.mid());
    }
}
