use crate::iter_set::{Iter, OwningIter};
#[cfg(feature = "raw-api")]
use crate::lock::RwLock;
use crate::setref::one::Ref;
use crate::DashMap;
#[cfg(feature = "raw-api")]
use crate::HashMap;
use cfg_if::cfg_if;
use core::borrow::Borrow;
use core::fmt;
use core::hash::{BuildHasher, Hash};
use core::iter::FromIterator;
#[cfg(feature = "raw-api")]
use crossbeam_utils::CachePadded;
use std::collections::hash_map::RandomState;

/// DashSet is a thin wrapper around [`DashMap`] using `()` as the value type. It uses
/// methods and types which are more convenient to work with on a set.
///
/// [`DashMap`]: struct.DashMap.html
pub struct DashSet<K, S = RandomState> {
    pub(crate) inner: DashMap<K, (), S>,
}

impl<K: Eq + Hash + fmt::Debug, S: BuildHasher + Clone> fmt::Debug for DashSet<K, S> {
    fn fmt(&self, f: &mut fmt::Formatter<'_>) -> fmt::Result {
        fmt::Debug::fmt(&self.inner, f)
    }
}

impl<K: Eq + Hash + Clone, S: Clone> Clone for DashSet<K, S> {
    fn clone(&self) -> Self {
        Self {
            inner: self.inner.clone(),
        }
    }

    fn clone_from(&mut self, source: &Self) {
        self.inner.clone_from(&source.inner)
    }
}

impl<K, S> Default for DashSet<K, S>
where
    K: Eq + Hash,
    S: Default + BuildHasher + Clone,
{
    fn default() -> Self {
        Self::with_hasher(Default::default())
    }
}

impl<'a, K: 'a + Eq + Hash> DashSet<K, RandomState> {
    /// Creates a new DashSet with a capacity of 0.
    ///
    /// # Examples
    ///
    /// ```
    /// use dashmap::DashSet;
    ///
    /// let games = DashSet::new();
    /// games.insert("Veloren");
    /// ```
    pub fn new() -> Self {
        Self::with_hasher(RandomState::default())
    }

    /// Creates a new DashMap with a specified starting capacity.
    ///
    /// # Examples
    ///
    /// ```
    /// use dashmap::DashSet;
    ///
    /// let numbers = DashSet::with_capacity(2);
    /// numbers.insert(2);
    /// numbers.insert(8);
    /// ```
    pub fn with_capacity(capacity: usize) -> Self {
        Self::with_capacity_and_hasher(capacity, RandomState::default())
    }
}

impl<'a, K: 'a + Eq + Hash, S: BuildHasher + Clone> DashSet<K, S> {
    /// Creates a new DashMap with a capacity of 0 and the provided hasher.
    ///
    /// # Examples
    ///
    /// ```
    /// use dashmap::DashSet;
    /// use std::collections::hash_map::RandomState;
    ///
    /// let s = RandomState::new();
    /// let games = DashSet::with_hasher(s);
    /// games.insert("Veloren");
    /// ```
    pub fn with_hasher(hasher: S) -> Self {
        Self::with_capacity_and_hasher(0, hasher)
    }

    /// Creates a new DashMap with a specified starting capacity and hasher.
    ///
    /// # Examples
    ///
    /// ```
    /// use dashmap::DashSet;
    /// use std::collections::hash_map::RandomState;
    ///
    /// let s = RandomState::new();
    /// let numbers = DashSet::with_capacity_and_hasher(2, s);
    /// numbers.insert(2);
    /// numbers.insert(8);
    /// ```
    pub fn with_capacity_and_hasher(capacity: usize, hasher: S) -> Self {
        Self {
            inner: DashMap::with_capacity_and_hasher(capacity, hasher),
        }
    }

    /// Hash a given item to produce a usize.
    /// Uses the provided or default HashBuilder.
    pub fn hash_usize<T: Hash>(&self, item: &T) -> usize {
        self.inner.hash_usize(item)
    }

    cfg_if! {
        if #[cfg(feature = "raw-api")] {
            /// Allows you to peek at the inner shards that store your data.
            /// You should probably not use this unless you know what you are doing.
            ///
            /// Requires the `raw-api` feature to be enabled.
            ///
            /// # Examples
            ///
            /// ```
            /// use dashmap::DashSet;
            ///
            /// let set = DashSet::<()>::new();
            /// println!("Amount of shards: {}", set.shards().len());
            /// ```
            pub fn shards(&self) -> &[CachePadded<RwLock<HashMap<K, ()>>>] {
                self.inner.shards()
            }
        }
    }

    cfg_if! {
        if #[cfg(feature = "raw-api")] {
            /// Finds which shard a certain key is stored in.
            /// You should probably not use this unless you know what you are doing.
            /// Note that shard selection is dependent on the default or provided HashBuilder.
            ///
            /// Requires the `raw-api` feature to be enabled.
            ///
            /// # Examples
            ///
            /// ```
            /// use dashmap::DashSet;
            ///
            /// let set = DashSet::new();
            /// set.insert("coca-cola");
            /// println!("coca-cola is stored in shard: {}", set.determine_map("coca-cola"));
            /// ```
            pub fn determine_map<Q>(&self, key: &Q) -> usize
            where
                K: Borrow<Q>,
                Q: Hash + Eq + ?Sized,
            {
                self.inner.determine_map(key)
            }
        }
    }

    cfg_if! {
        if #[cfg(feature = "raw-api")] {
            /// Finds which shard a certain hash is stored in.
            ///
            /// Requires the `raw-api` feature to be enabled.
            ///
            /// # Examples
            ///
            /// ```
            /// use dashmap::DashSet;
            ///
            /// let set: DashSet<i32> = DashSet::new();
            /// let key = "key";
            /// let hash = set.hash_usize(&key);
            /// println!("hash is stored in shard: {}", set.determine_shard(hash));
            /// ```
            pub fn determine_shard(&self, hash: usize) -> usize {
                self.inner.determine_shard(hash)
            }
        }
    }

    /// Inserts a key into the set. Returns true if the key was not already in the set.
    ///
    /// # Examples
    ///
    /// ```
    /// use dashmap::DashSet;
    ///
    /// let set = DashSet::new();
    /// set.insert("I am the key!");
    /// ```
    pub fn insert(&self, key: K) -> bool {
        self.inner.insert(key, ()).is_none()
    }

    /// Removes an entry from the map, returning the key if it existed in the map.
    ///
    /// # Examples
    ///
    /// ```
    /// use dashmap::DashSet;
    ///
    /// let soccer_team = DashSet::new();
    /// soccer_team.insert("Jack");
    /// assert_eq!(soccer_team.remove("Jack").unwrap(), "Jack");
    /// ```
    pub fn remove<Q>(&self, key: &Q) -> Option<K>
    where
        K: Borrow<Q>,
        Q: Hash + Eq + ?Sized,
    {
        self.inner.remove(key).map(|(k, _)| k)
    }

    /// Removes an entry from the set, returning the key
    /// if the entry existed and the provided conditional function returned true.
    ///
    /// ```
    /// use dashmap::DashSet;
    ///
    /// let soccer_team = DashSet::new();
    /// soccer_team.insert("Sam");
    /// soccer_team.remove_if("Sam", |player| player.starts_with("Ja"));
    /// assert!(soccer_team.contains("Sam"));
    /// ```
    /// ```
    /// use dashmap::DashSet;
    ///
    /// let soccer_team = DashSet::new();
    /// soccer_team.insert("Sam");
    /// soccer_team.remove_if("Jacob", |player| player.starts_with("Ja"));
    /// assert!(!soccer_team.contains("Jacob"));
    /// ```
    pub fn remove_if<Q>(&self, key: &Q, f: impl FnOnce(&K) -> bool) -> Option<K>
    where
        K: Borrow<Q>,
        Q: Hash + Eq + ?Sized,
    {
        // TODO: Don't create another closure around f
        self.inner.remove_if(key, |k, _| f(k)).map(|(k, _)| k)
    }

    /// Creates an iterator over a DashMap yielding immutable references.
    ///
    /// # Examples
    ///
    /// ```
    /// use dashmap::DashSet;
    ///
    /// let words = DashSet::new();
    /// words.insert("hello");
    /// assert_eq!(words.iter().count(), 1);
    /// ```
    pub fn iter(&'a self) -> Iter<'a, K, S, DashMap<K, (), S>> {
        let iter = self.inner.iter();

        Iter::new(iter)
    }

    /// Get a reference to an entry in the set
    ///
    /// # Examples
    ///
    /// ```
    /// use dashmap::DashSet;
    ///
    /// let youtubers = DashSet::new();
    /// youtubers.insert("Bosnian Bill");
    /// assert_eq!(*youtubers.get("Bosnian Bill").unwrap(), "Bosnian Bill");
    /// ```
    pub fn get<Q>(&'a self, key: &Q) -> Option<Ref<'a, K>>
    where
        K: Borrow<Q>,
        Q: Hash + Eq + ?Sized,
    {
        self.inner.get(key).map(Ref::new)
    }

    /// Remove excess capacity to reduce memory usage.
    pub fn shrink_to_fit(&self) {
        self.inner.shrink_to_fit()
    }

    /// Retain elements that whose predicates return true
    /// and discard elements whose predicates return false.
    ///
    /// # Examples
    ///
    /// ```
    /// use dashmap::DashSet;
    ///
    /// let people = DashSet::new();
    /// people.insert("Albin");
    /// people.insert("Jones");
    /// people.insert("Charlie");
    /// people.retain(|name| name.contains('i'));
    /// assert_eq!(people.len(), 2);
    /// ```
    pub fn retain(&self, mut f: impl FnMut(&K) -> bool) {
        self.inner.retain(|k, _| f(k))
    }

    /// Fetches the total number of keys stored in the set.
    ///
    /// # Examples
    ///
    /// ```
    /// use dashmap::DashSet;
    ///
    /// let people = DashSet::new();
    /// people.insert("Albin");
    /// people.insert("Jones");
    /// people.insert("Charlie");
    /// assert_eq!(people.len(), 3);
    /// ```
    pub fn len(&self) -> usize {
        self.inner.len()
    }

    /// Checks if the set is empty or not.
    ///
    /// # Examples
    ///
    /// ```
    /// use dashmap::DashSet;
    ///
    /// let map = DashSet::<()>::new();
    /// assert!(map.is_empty());
    /// ```
    pub fn is_empty(&self) -> bool {
        self.inner.is_empty()
    }

    /// Removes all keys in the set.
    ///
    /// # Examples
    ///
    /// ```
    /// use dashmap::DashSet;
    ///
    /// let people = DashSet::new();
    /// people.insert("Albin");
    /// assert!(!people.is_empty());
    /// people.clear();
    /// assert!(people.is_empty());
    /// ```
    pub fn clear(&self) {
        self.inner.clear()
    }

    /// Returns how many keys the set can store without reallocating.
    pub fn capacity(&self) -> usize {
        self.inner.capacity()
    }

    /// Checks if the set contains a specific key.
    ///
    /// # Examples
    ///
    /// ```
    /// use dashmap::DashSet;
    ///
    /// let people = DashSet::new();
    /// people.insert("Dakota Cherries");
    /// assert!(people.contains("Dakota Cherries"));
    /// ```
    pub fn contains<Q>(&self, key: &Q) -> bool
    where
        K: Borrow<Q>,
        Q: Hash + Eq + ?Sized,
    {
        self.inner.contains_key(key)
    }
}

impl<K: Eq + Hash, S: BuildHasher + Clone> IntoIterator for DashSet<K, S> {
    type Item = K;

    type IntoIter = OwningIter<K, S>;

    fn into_iter(self) -> Self::IntoIter {
        OwningIter::new(self.inner.into_iter())
    }
}

impl<K: Eq + Hash, S: BuildHasher + Clone> Extend<K> for DashSet<K, S> {
    fn extend<T: IntoIterator<Item = K>>(&mut self, iter: T) {
        let iter = iter.into_iter().map(|k| (k, ()));

        self.inner.extend(iter)
    }
}

impl<K: Eq + Hash, S: BuildHasher + Clone + Default> FromIterator<K> for DashSet<K, S> {
    fn from_iter<I: IntoIterator<Item = K>>(iter: I) -> Self {
        let mut set = DashSet::default();

        set.extend(iter);

        set
    }
}

#[cfg(feature = "typesize")]
impl<K, S> typesize::TypeSize for DashSet<K, S>
where
    K: typesize::TypeSize + Eq + Hash,
    S: typesize::TypeSize + Clone + BuildHasher,
{
    fn extra_size(&self) -> usize {
        self.inner.extra_size()
    }

    typesize::if_typesize_details! {
        fn get_collection_item_count(&self) -> Option<usize> {
            Some(self.len())
        }
    }
}

#[cfg(test)]
mod tests {
    use crate::DashSet;

    #[test]
    fn test_basic() {
        let set = DashSet::new();

        set.insert(0);

        assert_eq!(set.get(&0).as_deref(), Some(&0));
    }

    #[test]
    fn test_default() {
        let set: DashSet<u32> = DashSet::default();

        set.insert(0);

        assert_eq!(set.get(&0).as_deref(), Some(&0));
    }

    #[test]
    fn test_multiple_hashes() {
        let set = DashSet::<u32>::default();

        for i in 0..100 {
            assert!(set.insert(i));
        }

        for i in 0..100 {
            assert!(!set.insert(i));
        }

        for i in 0..100 {
            assert_eq!(Some(i), set.remove(&i));
        }

        for i in 0..100 {
            assert_eq!(None, set.remove(&i));
        }
    }
}
