use crate::lock::{RwLockReadGuard, RwLockWriteGuard};
use crate::HashMap;
use core::hash::Hash;
use core::ops::{Deref, DerefMut};
use std::fmt::{Debug, Formatter};

pub struct Ref<'a, K, V> {
    _guard: RwLockReadGuard<'a, HashMap<K, V>>,
    k: *const K,
    v: *const V,
}

unsafe impl<'a, K: Eq + Hash + Sync, V: Sync> Send for Ref<'a, K, V> {}
unsafe impl<'a, K: Eq + Hash + Sync, V: Sync> Sync for Ref<'a, K, V> {}

impl<'a, K: Eq + Hash, V> Ref<'a, K, V> {
    pub(crate) unsafe fn new(
        guard: RwLockReadGuard<'a, HashMap<K, V>>,
        k: *const K,
        v: *const V,
    ) -> Self {
        Self {
            _guard: guard,
            k,
            v,
        }
    }

    pub fn key(&self) -> &K {
        self.pair().0
    }

    pub fn value(&self) -> &V {
        self.pair().1
    }

    pub fn pair(&self) -> (&K, &V) {
        unsafe { (&*self.k, &*self.v) }
    }

    pub fn map<F, T>(self, f: F) -> MappedRef<'a, K, V, T>
    where
        F: FnOnce(&V) -> &T,
    {
        MappedRef {
            _guard: self._guard,
            k: self.k,
            v: f(unsafe { &*self.v }),
        }
    }

    pub fn try_map<F, T>(self, f: F) -> Result<MappedRef<'a, K, V, T>, Self>
    where
        F: FnOnce(&V) -> Option<&T>,
    {
        if let Some(v) = f(unsafe { &*self.v }) {
            Ok(MappedRef {
                _guard: self._guard,
                k: self.k,
                v,
            })
        } else {
            Err(self)
        }
    }
}

impl<'a, K: Eq + Hash + Debug, V: Debug> Debug for Ref<'a, K, V> {
    fn fmt(&self, f: &mut Formatter<'_>) -> std::fmt::Result {
        f.debug_struct("Ref")
            .field("k", &self.k)
            .field("v", &self.v)
            .finish()
    }
}

impl<'a, K: Eq + Hash, V> Deref for Ref<'a, K, V> {
    type Target = V;

    fn deref(&self) -> &V {
        self.value()
    }
}

pub struct RefMut<'a, K, V> {
    guard: RwLockWriteGuard<'a, HashMap<K, V>>,
    k: *const K,
    v: *mut V,
}

unsafe impl<'a, K: Eq + Hash + Sync, V: Sync> Send for RefMut<'a, K, V> {}
unsafe impl<'a, K: Eq + Hash + Sync, V: Sync> Sync for RefMut<'a, K, V> {}

impl<'a, K: Eq + Hash, V> RefMut<'a, K, V> {
    pub(crate) unsafe fn new(
        guard: RwLockWriteGuard<'a, HashMap<K, V>>,
        k: *const K,
        v: *mut V,
    ) -> Self {
        Self { guard, k, v }
    }

    pub fn key(&self) -> &K {
        self.pair().0
    }

    pub fn value(&self) -> &V {
        self.pair().1
    }

    pub fn value_mut(&mut self) -> &mut V {
        self.pair_mut().1
    }

    pub fn pair(&self) -> (&K, &V) {
        unsafe { (&*self.k, &*self.v) }
    }

    pub fn pair_mut(&mut self) -> (&K, &mut V) {
        unsafe { (&*self.k, &mut *self.v) }
    }

    pub fn downgrade(self) -> Ref<'a, K, V> {
        unsafe { Ref::new(RwLockWriteGuard::downgrade(self.guard), self.k, self.v) }
    }

    pub fn map<F, T>(self, f: F) -> MappedRefMut<'a, K, V, T>
    where
        F: FnOnce(&mut V) -> &mut T,
    {
        MappedRefMut {
            _guard: self.guard,
            k: self.k,
            v: f(unsafe { &mut *self.v }),
        }
    }

    pub fn try_map<F, T>(self, f: F) -> Result<MappedRefMut<'a, K, V, T>, Self>
    where
        F: FnOnce(&mut V) -> Option<&mut T>,
    {
        let v = match f(unsafe { &mut *(self.v as *mut _) }) {
            Some(v) => v,
            None => return Err(self),
        };
        let guard = self.guard;
        let k = self.k;
        Ok(MappedRefMut {
            _guard: guard,
            k,
            v,
        })
    }
}

impl<'a, K: Eq + Hash + Debug, V: Debug> Debug for RefMut<'a, K, V> {
    fn fmt(&self, f: &mut Formatter<'_>) -> std::fmt::Result {
        f.debug_struct("RefMut")
            .field("k", &self.k)
            .field("v", &self.v)
            .finish()
    }
}

impl<'a, K: Eq + Hash, V> Deref for RefMut<'a, K, V> {
    type Target = V;

    fn deref(&self) -> &V {
        self.value()
    }
}

impl<'a, K: Eq + Hash, V> DerefMut for RefMut<'a, K, V> {
    fn deref_mut(&mut self) -> &mut V {
        self.value_mut()
    }
}

pub struct MappedRef<'a, K, V, T> {
    _guard: RwLockReadGuard<'a, HashMap<K, V>>,
    k: *const K,
    v: *const T,
}

impl<'a, K: Eq + Hash, V, T> MappedRef<'a, K, V, T> {
    pub fn key(&self) -> &K {
        self.pair().0
    }

    pub fn value(&self) -> &T {
        self.pair().1
    }

    pub fn pair(&self) -> (&K, &T) {
        unsafe { (&*self.k, &*self.v) }
    }

    pub fn map<F, T2>(self, f: F) -> MappedRef<'a, K, V, T2>
    where
        F: FnOnce(&T) -> &T2,
    {
        MappedRef {
            _guard: self._guard,
            k: self.k,
            v: f(unsafe { &*self.v }),
        }
    }

    pub fn try_map<F, T2>(self, f: F) -> Result<MappedRef<'a, K, V, T2>, Self>
    where
        F: FnOnce(&T) -> Option<&T2>,
    {
        let v = match f(unsafe { &*self.v }) {
            Some(v) => v,
            None => return Err(self),
        };
        let guard = self._guard;
        Ok(MappedRef {
            _guard: guard,
            k: self.k,
            v,
        })
    }
}

impl<'a, K: Eq + Hash + Debug, V, T: Debug> Debug for MappedRef<'a, K, V, T> {
    fn fmt(&self, f: &mut Formatter<'_>) -> std::fmt::Result {
        f.debug_struct("MappedRef")
            .field("k", &self.k)
            .field("v", &self.v)
            .finish()
    }
}

impl<'a, K: Eq + Hash, V, T> Deref for MappedRef<'a, K, V, T> {
    type Target = T;

    fn deref(&self) -> &T {
        self.value()
    }
}

impl<'a, K: Eq + Hash, V, T: std::fmt::Display> std::fmt::Display for MappedRef<'a, K, V, T> {
    fn fmt(&self, f: &mut std::fmt::Formatter<'_>) -> std::fmt::Result {
        std::fmt::Display::fmt(self.value(), f)
    }
}

impl<'a, K: Eq + Hash, V, T: AsRef<TDeref>, TDeref: ?Sized> AsRef<TDeref>
    for MappedRef<'a, K, V, T>
{
    fn as_ref(&self) -> &TDeref {
        self.value().as_ref()
    }
}

pub struct MappedRefMut<'a, K, V, T> {
    _guard: RwLockWriteGuard<'a, HashMap<K, V>>,
    k: *const K,
    v: *mut T,
}

impl<'a, K: Eq + Hash, V, T> MappedRefMut<'a, K, V, T> {
    pub fn key(&self) -> &K {
        self.pair().0
    }

    pub fn value(&self) -> &T {
        self.pair().1
    }

    pub fn value_mut(&mut self) -> &mut T {
        self.pair_mut().1
    }

    pub fn pair(&self) -> (&K, &T) {
        unsafe { (&*self.k, &*self.v) }
    }

    pub fn pair_mut(&mut self) -> (&K, &mut T) {
        unsafe { (&*self.k, &mut *self.v) }
    }

    pub fn map<F, T2>(self, f: F) -> MappedRefMut<'a, K, V, T2>
    where
        F: FnOnce(&mut T) -> &mut T2,
    {
        MappedRefMut {
            _guard: self._guard,
            k: self.k,
            v: f(unsafe { &mut *self.v }),
        }
    }

    pub fn try_map<F, T2>(self, f: F) -> Result<MappedRefMut<'a, K, V, T2>, Self>
    where
        F: FnOnce(&mut T) -> Option<&mut T2>,
    {
        let v = match f(unsafe { &mut *(self.v as *mut _) }) {
            Some(v) => v,
            None => return Err(self),
        };
        let guard = self._guard;
        let k = self.k;
        Ok(MappedRefMut {
            _guard: guard,
            k,
            v,
        })
    }
}

impl<'a, K: Eq + Hash + Debug, V, T: Debug> Debug for MappedRefMut<'a, K, V, T> {
    fn fmt(&self, f: &mut Formatter<'_>) -> std::fmt::Result {
        f.debug_struct("MappedRefMut")
            .field("k", &self.k)
            .field("v", &self.v)
            .finish()
    }
}

impl<'a, K: Eq + Hash, V, T> Deref for MappedRefMut<'a, K, V, T> {
    type Target = T;

    fn deref(&self) -> &T {
        self.value()
    }
}

impl<'a, K: Eq + Hash, V, T> DerefMut for MappedRefMut<'a, K, V, T> {
    fn deref_mut(&mut self) -> &mut T {
        self.value_mut()
    }
}
