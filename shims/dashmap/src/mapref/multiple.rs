use crate::lock::{RwLockReadGuard, RwLockWriteGuard};
use crate::HashMap;
use core::hash::Hash;
use core::ops::{Deref, DerefMut};
use std::sync::Arc;

pub struct RefMulti<'a, K, V> {
    _guard: Arc<RwLockReadGuard<'a, HashMap<K, V>>>,
    k: *const K,
    v: *const V,
}

unsafe impl<'a, K: Eq + Hash + Sync, V: Sync> Send for RefMulti<'a, K, V> {}
unsafe impl<'a, K: Eq + Hash + Sync, V: Sync> Sync for RefMulti<'a, K, V> {}

impl<'a, K: Eq + Hash, V> RefMulti<'a, K, V> {
    pub(crate) unsafe fn new(
        guard: Arc<RwLockReadGuard<'a, HashMap<K, V>>>,
        k: *const K,
        v: *const V,
    ) -> Self {
        Self {
            _guard: guard,
            k,
            v,
        }
    }

    pub fn key(&self) -> &K {
        self.pair().0
    }

    pub fn value(&self) -> &V {
        self.pair().1
    }

    pub fn pair(&self) -> (&K, &V) {
        unsafe { (&*self.k, &*self.v) }
    }
}

impl<'a, K: Eq + Hash, V> Deref for RefMulti<'a, K, V> {
    type Target = V;

    fn deref(&self) -> &V {
        self.value()
    }
}

pub struct RefMutMulti<'a, K, V> {
    _guard: Arc<RwLockWriteGuard<'a, HashMap<K, V>>>,
    k: *const K,
    v: *mut V,
}

unsafe impl<'a, K: Eq + Hash + Sync, V: Sync> Send for RefMutMulti<'a, K, V> {}
unsafe impl<'a, K: Eq + Hash + Sync, V: Sync> Sync for RefMutMulti<'a, K, V> {}

impl<'a, K: Eq + Hash, V> RefMutMulti<'a, K, V> {
    pub(crate) unsafe fn new(
        guard: Arc<RwLockWriteGuard<'a, HashMap<K, V>>>,
        k: *const K,
        v: *mut V,
    ) -> Self {
        Self {
            _guard: guard,
            k,
            v,
        }
    }

    pub fn key(&self) -> &K {
        self.pair().0
    }

    pub fn value(&self) -> &V {
        self.pair().1
    }

    pub fn value_mut(&mut self) -> &mut V {
        self.pair_mut().1
    }

    pub fn pair(&self) -> (&K, &V) {
        unsafe { (&*self.k, &*self.v) }
    }

    pub fn pair_mut(&mut self) -> (&K, &mut V) {
        unsafe { (&*self.k, &mut *self.v) }
    }
}

impl<'a, K: Eq + Hash, V> Deref for RefMutMulti<'a, K, V> {
    type Target = V;

    fn deref(&self) -> &V {
        self.value()
    }
}

impl<'a, K: Eq + Hash, V> DerefMut for RefMutMulti<'a, K, V> {
    fn deref_mut(&mut self) -> &mut V {
        self.value_mut()
    }
}
