pub mod entry;
pub mod multiple;
pub mod one;
