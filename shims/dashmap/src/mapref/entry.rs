use super::one::RefMut;
use crate::lock::RwLockWriteGuard;
use crate::util::SharedValue;
use crate::HashMap;
use core::hash::Hash;
use core::mem;

pub enum Entry<'a, K, V> {
    Occupied(OccupiedEntry<'a, K, V>),
    Vacant(VacantEntry<'a, K, V>),
}

impl<'a, K: Eq + Hash, V> Entry<'a, K, V> {
    /// Apply a function to the stored value if it exists.
    pub fn and_modify(self, f: impl FnOnce(&mut V)) -> Self {
        match self {
            Entry::Occupied(mut entry) => {
                f(entry.get_mut());

                Entry::Occupied(entry)
            }

            Entry::Vacant(entry) => Entry::Vacant(entry),
        }
    }

    /// Get the key of the entry.
    pub fn key(&self) -> &K {
        match *self {
            Entry::Occupied(ref entry) => entry.key(),
            Entry::Vacant(ref entry) => entry.key(),
        }
    }

    /// Into the key of the entry.
    pub fn into_key(self) -> K {
        match self {
            Entry::Occupied(entry) => entry.into_key(),
            Entry::Vacant(entry) => entry.into_key(),
        }
    }

    /// Return a mutable reference to the element if it exists,
    /// otherwise insert the default and return a mutable reference to that.
    pub fn or_default(self) -> RefMut<'a, K, V>
    where
        V: Default,
    {
        match self {
            Entry::Occupied(entry) => entry.into_ref(),
            Entry::Vacant(entry) => entry.insert(V::default()),
        }
    }

    /// Return a mutable reference to the element if it exists,
    /// otherwise a provided value and return a mutable reference to that.
    pub fn or_insert(self, value: V) -> RefMut<'a, K, V> {
        match self {
            Entry::Occupied(entry) => entry.into_ref(),
            Entry::Vacant(entry) => entry.insert(value),
        }
    }

    /// Return a mutable reference to the element if it exists,
    /// otherwise insert the result of a provided function and return a mutable reference to that.
    pub fn or_insert_with(self, value: impl FnOnce() -> V) -> RefMut<'a, K, V> {
        match self {
            Entry::Occupied(entry) => entry.into_ref(),
            Entry::Vacant(entry) => entry.insert(value()),
        }
    }

    pub fn or_try_insert_with<E>(
        self,
        value: impl FnOnce() -> Result<V, E>,
    ) -> Result<RefMut<'a, K, V>, E> {
        match self {
            Entry::Occupied(entry) => Ok(entry.into_ref()),
            Entry::Vacant(entry) => Ok(entry.insert(value()?)),
        }
    }

    /// Sets the value of the entry, and returns a reference to the inserted value.
    pub fn insert(self, value: V) -> RefMut<'a, K, V> {
        match self {
            Entry::Occupied(mut entry) => {
                entry.insert(value);
                entry.into_ref()
            }
            Entry::Vacant(entry) => entry.insert(value),
        }
    }

    /// Sets the value of the entry, and returns an OccupiedEntry.
    ///
    /// If you are not interested in the occupied entry,
    /// consider [`insert`] as it doesn't need to clone the key.
    ///
    /// [`insert`]: Entry::insert
    pub fn insert_entry(self, value: V) -> OccupiedEntry<'a, K, V>
    where
        K: Clone,
    {
        match self {
            Entry::Occupied(mut entry) => {
                entry.insert(value);
                entry
            }
            Entry::Vacant(entry) => entry.insert_entry(value),
        }
    }
}

pub struct VacantEntry<'a, K, V> {
    shard: RwLockWriteGuard<'a, HashMap<K, V>>,
    key: K,
    hash: u64,
    slot: hashbrown::raw::InsertSlot,
}

unsafe impl<'a, K: Eq + Hash + Sync, V: Sync> Send for VacantEntry<'a, K, V> {}
unsafe impl<'a, K: Eq + Hash + Sync, V: Sync> Sync for VacantEntry<'a, K, V> {}

impl<'a, K: Eq + Hash, V> VacantEntry<'a, K, V> {
    pub(crate) unsafe fn new(
        shard: RwLockWriteGuard<'a, HashMap<K, V>>,
        key: K,
        hash: u64,
        slot: hashbrown::raw::InsertSlot,
    ) -> Self {
        Self {
            shard,
            key,
            hash,
            slot,
        }
    }

    pub fn insert(mut self, value: V) -> RefMut<'a, K, V> {
        unsafe {
            let occupied = self.shard.insert_in_slot(
                self.hash,
                self.slot,
                (self.key, SharedValue::new(value)),
            );

            let (k, v) = occupied.as_ref();

            RefMut::new(self.shard, k, v.as_ptr())
        }
    }

    /// Sets the value of the entry with the VacantEntry’s key, and returns an OccupiedEntry.
    pub fn insert_entry(mut self, value: V) -> OccupiedEntry<'a, K, V>
    where
        K: Clone,
    {
        unsafe {
            let bucket = self.shard.insert_in_slot(
                self.hash,
                self.slot,
                (self.key.clone(), SharedValue::new(value)),
            );

            OccupiedEntry::new(self.shard, self.key, bucket)
        }
    }

    pub fn into_key(self) -> K {
        self.key
    }

    pub fn key(&self) -> &K {
        &self.key
    }
}

pub struct OccupiedEntry<'a, K, V> {
    shard: RwLockWriteGuard<'a, HashMap<K, V>>,
    bucket: hashbrown::raw::Bucket<(K, SharedValue<V>)>,
    key: K,
}

unsafe impl<'a, K: Eq + Hash + Sync, V: Sync> Send for OccupiedEntry<'a, K, V> {}
unsafe impl<'a, K: Eq + Hash + Sync, V: Sync> Sync for OccupiedEntry<'a, K, V> {}

impl<'a, K: Eq + Hash, V> OccupiedEntry<'a, K, V> {
    pub(crate) unsafe fn new(
        shard: RwLockWriteGuard<'a, HashMap<K, V>>,
        key: K,
        bucket: hashbrown::raw::Bucket<(K, SharedValue<V>)>,
    ) -> Self {
        Self { shard, bucket, key }
    }

    pub fn get(&self) -> &V {
        unsafe { self.bucket.as_ref().1.get() }
    }

    pub fn get_mut(&mut self) -> &mut V {
        unsafe { self.bucket.as_mut().1.get_mut() }
    }

    pub fn insert(&mut self, value: V) -> V {
        mem::replace(self.get_mut(), value)
    }

    pub fn into_ref(self) -> RefMut<'a, K, V> {
        unsafe {
            let (k, v) = self.bucket.as_ref();
            RefMut::new(self.shard, k, v.as_ptr())
        }
    }

    pub fn into_key(self) -> K {
        self.key
    }

    pub fn key(&self) -> &K {
        unsafe { &self.bucket.as_ref().0 }
    }

    pub fn remove(mut self) -> V {
        let ((_k, v), _) = unsafe { self.shard.remove(self.bucket) };
        v.into_inner()
    }

    pub fn remove_entry(mut self) -> (K, V) {
        let ((k, v), _) = unsafe { self.shard.remove(self.bucket) };
        (k, v.into_inner())
    }

    pub fn replace_entry(self, value: V) -> (K, V) {
        let (k, v) = mem::replace(
            unsafe { self.bucket.as_mut() },
            (self.key, SharedValue::new(value)),
        );
        (k, v.into_inner())
    }
}

#[cfg(test)]
mod tests {
    use crate::DashMap;

    use super::*;

    #[test]
    fn test_insert_entry_into_vacant() {
        let map: DashMap<u32, u32> = DashMap::new();

        let entry = map.entry(1);

        assert!(matches!(entry, Entry::Vacant(_)));

        let entry = entry.insert_entry(2);

        assert_eq!(*entry.get(), 2);

        drop(entry);

        assert_eq!(*map.get(&1).unwrap(), 2);
    }

    #[test]
    fn test_insert_entry_into_occupied() {
        let map: DashMap<u32, u32> = DashMap::new();

        map.insert(1, 1000);

        let entry = map.entry(1);

        assert!(matches!(&entry, Entry::Occupied(entry) if *entry.get() == 1000));

        let entry = entry.insert_entry(2);

        assert_eq!(*entry.get(), 2);

        drop(entry);

        assert_eq!(*map.get(&1).unwrap(), 2);
    }
}
