use super::mapref::multiple::{RefMulti, RefMutMulti};
use crate::lock::{RwLockReadGuard, RwLockWriteGuard};
use crate::t::Map;
use crate::util::SharedValue;
use crate::{DashMap, HashMap};
use core::hash::{BuildHasher, Hash};
use core::mem;
use std::collections::hash_map::RandomState;
use std::marker::PhantomData;
use std::sync::Arc;

/// Iterator over a DashMap yielding key value pairs.
///
/// # Examples
///
/// ```
/// use dashmap::DashMap;
///
/// let map = DashMap::new();
/// map.insert("hello", "world");
/// map.insert("alex", "steve");
/// let pairs: Vec<(&'static str, &'static str)> = map.into_iter().collect();
/// assert_eq!(pairs.len(), 2);
/// ```
pub struct OwningIter<K, V, S = RandomState> {
    map: DashMap<K, V, S>,
    shard_i: usize,
    current: Option<GuardOwningIter<K, V>>,
}

impl<K: Eq + Hash, V, S: BuildHasher + Clone> OwningIter<K, V, S> {
    pub(crate) fn new(map: DashMap<K, V, S>) -> Self {
        Self {
            map,
            shard_i: 0,
            current: None,
        }
    }
}

type GuardOwningIter<K, V> = hashbrown::raw::RawIntoIter<(K, SharedValue<V>)>;

impl<K: Eq + Hash, V, S: BuildHasher + Clone> Iterator for OwningIter<K, V, S> {
    type Item = (K, V);

    fn next(&mut self) -> Option<Self::Item> {
        loop {
            if let Some(current) = self.current.as_mut() {
                if let Some((k, v)) = current.next() {
                    return Some((k, v.into_inner()));
                }
            }

            if self.shard_i == self.map._shard_count() {
                return None;
            }

            //let guard = unsafe { self.map._yield_read_shard(self.shard_i) };
            let mut shard_wl = unsafe { self.map._yield_write_shard(self.shard_i) };

            let map = mem::take(&mut *shard_wl);

            drop(shard_wl);

            let iter = map.into_iter();

            //unsafe { ptr::write(&mut self.current, Some((arcee, iter))); }
            self.current = Some(iter);

            self.shard_i += 1;
        }
    }
}

unsafe impl<K, V, S> Send for OwningIter<K, V, S>
where
    K: Eq + Hash + Send,
    V: Send,
    S: BuildHasher + Clone + Send,
{
}

unsafe impl<K, V, S> Sync for OwningIter<K, V, S>
where
    K: Eq + Hash + Sync,
    V: Sync,
    S: BuildHasher + Clone + Sync,
{
}

type GuardIter<'a, K, V> = (
    Arc<RwLockReadGuard<'a, HashMap<K, V>>>,
    hashbrown::raw::RawIter<(K, SharedValue<V>)>,
);

type GuardIterMut<'a, K, V> = (
    Arc<RwLockWriteGuard<'a, HashMap<K, V>>>,
    hashbrown::raw::RawIter<(K, SharedValue<V>)>,
);

/// Iterator over a DashMap yielding immutable references.
///
/// # Examples
///
/// ```
/// use dashmap::DashMap;
///
/// let map = DashMap::new();
/// map.insert("hello", "world");
/// assert_eq!(map.iter().count(), 1);
/// ```
pub struct Iter<'a, K, V, S = RandomState, M = DashMap<K, V, S>> {
    map: &'a M,
    shard_i: usize,
    current: Option<GuardIter<'a, K, V>>,
    marker: PhantomData<S>,
}

impl<'i, K: Clone + Hash + Eq, V: Clone, S: Clone + BuildHasher> Clone for Iter<'i, K, V, S> {
    fn clone(&self) -> Self {
        Iter::new(self.map)
    }
}

unsafe impl<'a, 'i, K, V, S, M> Send for Iter<'i, K, V, S, M>
where
    K: 'a + Eq + Hash + Send,
    V: 'a + Send,
    S: 'a + BuildHasher + Clone,
    M: Map<'a, K, V, S>,
{
}

unsafe impl<'a, 'i, K, V, S, M> Sync for Iter<'i, K, V, S, M>
where
    K: 'a + Eq + Hash + Sync,
    V: 'a + Sync,
    S: 'a + BuildHasher + Clone,
    M: Map<'a, K, V, S>,
{
}

impl<'a, K: Eq + Hash, V, S: 'a + BuildHasher + Clone, M: Map<'a, K, V, S>> Iter<'a, K, V, S, M> {
    pub(crate) fn new(map: &'a M) -> Self {
        Self {
            map,
            shard_i: 0,
            current: None,
            marker: PhantomData,
        }
    }
}

impl<'a, K: Eq + Hash, V, S: 'a + BuildHasher + Clone, M: Map<'a, K, V, S>> Iterator
    for Iter<'a, K, V, S, M>
{
    type Item = RefMulti<'a, K, V>;

    fn next(&mut self) -> Option<Self::Item> {
        loop {
            if let Some(current) = self.current.as_mut() {
                if let Some(b) = current.1.next() {
                    return unsafe {
                        let (k, v) = b.as_ref();
                        let guard = current.0.clone();
                        Some(RefMulti::new(guard, k, v.get()))
                    };
                }
            }

            if self.shard_i == self.map._shard_count() {
                return None;
            }

            let guard = unsafe { self.map._yield_read_shard(self.shard_i) };

            let iter = unsafe { guard.iter() };

            self.current = Some((Arc::new(guard), iter));

            self.shard_i += 1;
        }
    }
}

/// Iterator over a DashMap yielding mutable references.
///
/// # Examples
///
/// ```
/// use dashmap::DashMap;
///
/// let map = DashMap::new();
/// map.insert("Johnny", 21);
/// map.iter_mut().for_each(|mut r| *r += 1);
/// assert_eq!(*map.get("Johnny").unwrap(), 22);
/// ```
pub struct IterMut<'a, K, V, S = RandomState, M = DashMap<K, V, S>> {
    map: &'a M,
    shard_i: usize,
    current: Option<GuardIterMut<'a, K, V>>,
    marker: PhantomData<S>,
}

unsafe impl<'a, 'i, K, V, S, M> Send for IterMut<'i, K, V, S, M>
where
    K: 'a + Eq + Hash + Send,
    V: 'a + Send,
    S: 'a + BuildHasher + Clone,
    M: Map<'a, K, V, S>,
{
}

unsafe impl<'a, 'i, K, V, S, M> Sync for IterMut<'i, K, V, S, M>
where
    K: 'a + Eq + Hash + Sync,
    V: 'a + Sync,
    S: 'a + BuildHasher + Clone,
    M: Map<'a, K, V, S>,
{
}

impl<'a, K: Eq + Hash, V, S: 'a + BuildHasher + Clone, M: Map<'a, K, V, S>>
    IterMut<'a, K, V, S, M>
{
    pub(crate) fn new(map: &'a M) -> Self {
        Self {
            map,
            shard_i: 0,
            current: None,
            marker: PhantomData,
        }
    }
}

impl<'a, K: Eq + Hash, V, S: 'a + BuildHasher + Clone, M: Map<'a, K, V, S>> Iterator
    for IterMut<'a, K, V, S, M>
{
    type Item = RefMutMulti<'a, K, V>;

    fn next(&mut self) -> Option<Self::Item> {
        loop {
            if let Some(current) = self.current.as_mut() {
                if let Some(b) = current.1.next() {
                    return unsafe {
                        let (k, v) = b.as_mut();
                        let guard = current.0.clone();
                        Some(RefMutMulti::new(guard, k, v.get_mut()))
                    };
                }
            }

            if self.shard_i == self.map._shard_count() {
                return None;
            }

            let guard = unsafe { self.map._yield_write_shard(self.shard_i) };

            let iter = unsafe { guard.iter() };

            self.current = Some((Arc::new(guard), iter));

            self.shard_i += 1;
        }
    }
}

#[cfg(test)]
mod tests {
    use crate::DashMap;

    #[test]
    fn iter_mut_manual_count() {
        let map = DashMap::new();

        map.insert("Johnny", 21);

        assert_eq!(map.len(), 1);

        let mut c = 0;

        for shard in map.shards() {
            c += unsafe { shard.write().iter().count() };
        }

        assert_eq!(c, 1);
    }

    #[test]
    fn iter_mut_count() {
        let map = DashMap::new();

        map.insert("Johnny", 21);

        assert_eq!(map.len(), 1);

        assert_eq!(map.iter_mut().count(), 1);
    }

    #[test]
    fn iter_count() {
        let map = DashMap::new();

        map.insert("Johnny", 21);

        assert_eq!(map.len(), 1);

        assert_eq!(map.iter().count(), 1);
    }
}
