use arbitrary::{Arbitrary, Unstructured};
use core::hash::BuildHasher;

impl<'a, K, V, S> Arbitrary<'a> for crate::DashMap<K, V, S>
where
    K: Eq + std::hash::Hash + Arbitrary<'a>,
    V: Arbitrary<'a>,
    S: Default + BuildHasher + Clone,
{
    fn arbitrary(u: &mut Unstructured<'a>) -> arbitrary::Result<Self> {
        u.arbitrary_iter()?.collect()
    }
}
