//! Central map trait to ease modifications and extensions down the road.

use crate::iter::{Iter, IterMut};
use crate::lock::{RwLockReadGuard, RwLockWriteGuard};
use crate::mapref::entry::Entry;
use crate::mapref::one::{Ref, RefMut};
use crate::try_result::TryResult;
use crate::HashMap;
use core::borrow::Borrow;
use core::hash::{BuildHasher, Hash};

/// Implementation detail that is exposed due to generic constraints in public types.
pub trait Map<'a, K: 'a + Eq + Hash, V: 'a, S: 'a + Clone + BuildHasher> {
    fn _shard_count(&self) -> usize;

    /// # Safety
    ///
    /// The index must not be out of bounds.
    unsafe fn _get_read_shard(&'a self, i: usize) -> &'a HashMap<K, V>;

    /// # Safety
    ///
    /// The index must not be out of bounds.
    unsafe fn _yield_read_shard(&'a self, i: usize) -> RwLockReadGuard<'a, HashMap<K, V>>;

    /// # Safety
    ///
    /// The index must not be out of bounds.
    unsafe fn _yield_write_shard(&'a self, i: usize) -> RwLockWriteGuard<'a, HashMap<K, V>>;

    /// # Safety
    ///
    /// The index must not be out of bounds.
    unsafe fn _try_yield_read_shard(
        &'a self,
        i: usize,
    ) -> Option<RwLockReadGuard<'a, HashMap<K, V>>>;

    /// # Safety
    ///
    /// The index must not be out of bounds.
    unsafe fn _try_yield_write_shard(
        &'a self,
        i: usize,
    ) -> Option<RwLockWriteGuard<'a, HashMap<K, V>>>;

    fn _insert(&self, key: K, value: V) -> Option<V>;

    fn _remove<Q>(&self, key: &Q) -> Option<(K, V)>
    where
        K: Borrow<Q>,
        Q: Hash + Eq + ?Sized;

    fn _remove_if<Q>(&self, key: &Q, f: impl FnOnce(&K, &V) -> bool) -> Option<(K, V)>
    where
        K: Borrow<Q>,
        Q: Hash + Eq + ?Sized;

    fn _remove_if_mut<Q>(&self, key: &Q, f: impl FnOnce(&K, &mut V) -> bool) -> Option<(K, V)>
    where
        K: Borrow<Q>,
        Q: Hash + Eq + ?Sized;

    fn _iter(&'a self) -> Iter<'a, K, V, S, Self>
    where
        Self: Sized;

    fn _iter_mut(&'a self) -> IterMut<'a, K, V, S, Self>
    where
        Self: Sized;

    fn _get<Q>(&'a self, key: &Q) -> Option<Ref<'a, K, V>>
    where
        K: Borrow<Q>,
        Q: Hash + Eq + ?Sized;

    fn _get_mut<Q>(&'a self, key: &Q) -> Option<RefMut<'a, K, V>>
    where
        K: Borrow<Q>,
        Q: Hash + Eq + ?Sized;

    fn _try_get<Q>(&'a self, key: &Q) -> TryResult<Ref<'a, K, V>>
    where
        K: Borrow<Q>,
        Q: Hash + Eq + ?Sized;

    fn _try_get_mut<Q>(&'a self, key: &Q) -> TryResult<RefMut<'a, K, V>>
    where
        K: Borrow<Q>,
        Q: Hash + Eq + ?Sized;

    fn _shrink_to_fit(&self);

    fn _retain(&self, f: impl FnMut(&K, &mut V) -> bool);

    fn _len(&self) -> usize;

    fn _capacity(&self) -> usize;

    fn _alter<Q>(&self, key: &Q, f: impl FnOnce(&K, V) -> V)
    where
        K: Borrow<Q>,
        Q: Hash + Eq + ?Sized;

    fn _alter_all(&self, f: impl FnMut(&K, V) -> V);

    fn _view<Q, R>(&self, key: &Q, f: impl FnOnce(&K, &V) -> R) -> Option<R>
    where
        K: Borrow<Q>,
        Q: Hash + Eq + ?Sized;

    fn _entry(&'a self, key: K) -> Entry<'a, K, V>;

    fn _try_entry(&'a self, key: K) -> Option<Entry<'a, K, V>>;

    fn _hasher(&self) -> S;

    // provided
    fn _clear(&self) {
        self._retain(|_, _| false)
    }

    fn _contains_key<Q>(&'a self, key: &Q) -> bool
    where
        K: Borrow<Q>,
        Q: Hash + Eq + ?Sized,
    {
        self._get(key).is_some()
    }

    fn _is_empty(&self) -> bool {
        self._len() == 0
    }
}
