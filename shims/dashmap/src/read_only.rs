use crate::lock::RwLock;
use crate::t::Map;
use crate::{DashMap, HashMap};
use cfg_if::cfg_if;
use core::borrow::Borrow;
use core::fmt;
use core::hash::{BuildHasher, Hash};
use crossbeam_utils::CachePadded;
use std::collections::hash_map::RandomState;

/// A read-only view into a `DashMap`. Allows to obtain raw references to the stored values.
pub struct ReadOnlyView<K, V, S = RandomState> {
    pub(crate) map: DashMap<K, V, S>,
}

impl<K: Eq + Hash + Clone, V: Clone, S: Clone> Clone for ReadOnlyView<K, V, S> {
    fn clone(&self) -> Self {
        Self {
            map: self.map.clone(),
        }
    }
}

impl<K: Eq + Hash + fmt::Debug, V: fmt::Debug, S: BuildHasher + Clone> fmt::Debug
    for ReadOnlyView<K, V, S>
{
    fn fmt(&self, f: &mut fmt::Formatter<'_>) -> fmt::Result {
        self.map.fmt(f)
    }
}

impl<K, V, S> ReadOnlyView<K, V, S> {
    pub(crate) fn new(map: DashMap<K, V, S>) -> Self {
        Self { map }
    }

    /// Consumes this `ReadOnlyView`, returning the underlying `DashMap`.
    pub fn into_inner(self) -> DashMap<K, V, S> {
        self.map
    }
}

impl<'a, K: 'a + Eq + Hash, V: 'a, S: BuildHasher + Clone> ReadOnlyView<K, V, S> {
    /// Returns the number of elements in the map.
    pub fn len(&self) -> usize {
        self.map.len()
    }

    /// Returns `true` if the map contains no elements.
    pub fn is_empty(&self) -> bool {
        self.map.is_empty()
    }

    /// Returns the number of elements the map can hold without reallocating.
    pub fn capacity(&self) -> usize {
        self.map.capacity()
    }

    /// Returns `true` if the map contains a value for the specified key.
    pub fn contains_key<Q>(&'a self, key: &Q) -> bool
    where
        K: Borrow<Q>,
        Q: Hash + Eq + ?Sized,
    {
        self.get(key).is_some()
    }

    /// Returns a reference to the value corresponding to the key.
    pub fn get<Q>(&'a self, key: &Q) -> Option<&'a V>
    where
        K: Borrow<Q>,
        Q: Hash + Eq + ?Sized,
    {
        self.get_key_value(key).map(|(_k, v)| v)
    }

    /// Returns the key-value pair corresponding to the supplied key.
    pub fn get_key_value<Q>(&'a self, key: &Q) -> Option<(&'a K, &'a V)>
    where
        K: Borrow<Q>,
        Q: Hash + Eq + ?Sized,
    {
        let hash = self.map.hash_u64(&key);

        let idx = self.map.determine_shard(hash as usize);

        let shard = unsafe { self.map._get_read_shard(idx) };

        shard.find(hash, |(k, _v)| key == k.borrow()).map(|b| {
            let (k, v) = unsafe { b.as_ref() };
            (k, v.get())
        })
    }

    /// An iterator visiting all key-value pairs in arbitrary order. The iterator element type is `(&'a K, &'a V)`.
    pub fn iter(&'a self) -> impl Iterator<Item = (&'a K, &'a V)> + 'a {
        unsafe {
            (0..self.map._shard_count())
                .map(move |shard_i| self.map._get_read_shard(shard_i))
                .flat_map(|shard| shard.iter())
                .map(|b| {
                    let (k, v) = b.as_ref();
                    (k, v.get())
                })
        }
    }

    /// An iterator visiting all keys in arbitrary order. The iterator element type is `&'a K`.
    pub fn keys(&'a self) -> impl Iterator<Item = &'a K> + 'a {
        self.iter().map(|(k, _v)| k)
    }

    /// An iterator visiting all values in arbitrary order. The iterator element type is `&'a V`.
    pub fn values(&'a self) -> impl Iterator<Item = &'a V> + 'a {
        self.iter().map(|(_k, v)| v)
    }

    cfg_if! {
        if #[cfg(feature = "raw-api")] {
            /// Allows you to peek at the inner shards that store your data.
            /// You should probably not use this unless you know what you are doing.
            ///
            /// Requires the `raw-api` feature to be enabled.
            ///
            /// # Examples
            ///
            /// ```
            /// use dashmap::DashMap;
            ///
            /// let map = DashMap::<(), ()>::new().into_read_only();
            /// println!("Amount of shards: {}", map.shards().len());
            /// ```
            pub fn shards(&self) -> &[CachePadded<RwLock<HashMap<K, V>>>] {
                &self.map.shards
            }
        } else {
            #[allow(dead_code)]
            pub(crate) fn shards(&self) -> &[CachePadded<RwLock<HashMap<K, V>>>] {
                &self.map.shards
            }
        }
    }
}

#[cfg(test)]

mod tests {

    use crate::DashMap;

    fn construct_sample_map() -> DashMap<i32, String> {
        let map = DashMap::new();

        map.insert(1, "one".to_string());

        map.insert(10, "ten".to_string());

        map.insert(27, "twenty seven".to_string());

        map.insert(45, "forty five".to_string());

        map
    }

    #[test]

    fn test_properties() {
        let map = construct_sample_map();

        let view = map.clone().into_read_only();

        assert_eq!(view.is_empty(), map.is_empty());

        assert_eq!(view.len(), map.len());

        assert_eq!(view.capacity(), map.capacity());

        let new_map = view.into_inner();

        assert_eq!(new_map.is_empty(), map.is_empty());

        assert_eq!(new_map.len(), map.len());

        assert_eq!(new_map.capacity(), map.capacity());
    }

    #[test]

    fn test_get() {
        let map = construct_sample_map();

        let view = map.clone().into_read_only();

        for key in map.iter().map(|entry| *entry.key()) {
            assert!(view.contains_key(&key));

            let map_entry = map.get(&key).unwrap();

            assert_eq!(view.get(&key).unwrap(), map_entry.value());

            let key_value: (&i32, &String) = view.get_key_value(&key).unwrap();

            assert_eq!(key_value.0, map_entry.key());

            assert_eq!(key_value.1, map_entry.value());
        }
    }

    #[test]

    fn test_iters() {
        let map = construct_sample_map();

        let view = map.clone().into_read_only();

        let mut visited_items = Vec::new();

        for (key, value) in view.iter() {
            map.contains_key(key);

            let map_entry = map.get(key).unwrap();

            assert_eq!(key, map_entry.key());

            assert_eq!(value, map_entry.value());

            visited_items.push((key, value));
        }

        let mut visited_keys = Vec::new();

        for key in view.keys() {
            map.contains_key(key);

            let map_entry = map.get(key).unwrap();

            assert_eq!(key, map_entry.key());

            assert_eq!(view.get(key).unwrap(), map_entry.value());

            visited_keys.push(key);
        }

        let mut visited_values = Vec::new();

        for value in view.values() {
            visited_values.push(value);
        }

        for entry in map.iter() {
            let key = entry.key();

            let value = entry.value();

            assert!(visited_keys.contains(&key));

            assert!(visited_values.contains(&value));

            assert!(visited_items.contains(&(key, value)));
        }
    }
}
