use crate::setref::multiple::RefMulti;
use crate::DashSet;
use core::hash::{BuildHasher, Hash};
use rayon::iter::plumbing::UnindexedConsumer;
use rayon::iter::{FromParallelIterator, IntoParallelIterator, ParallelExtend, ParallelIterator};

impl<K, S> ParallelExtend<K> for DashSet<K, S>
where
    K: Send + Sync + Eq + Hash,
    S: Send + Sync + Clone + BuildHasher,
{
    fn par_extend<I>(&mut self, par_iter: I)
    where
        I: IntoParallelIterator<Item = K>,
    {
        (&*self).par_extend(par_iter);
    }
}

// Since we don't actually need mutability, we can implement this on a
// reference, similar to `io::Write for &File`.
impl<K, S> ParallelExtend<K> for &'_ DashSet<K, S>
where
    K: Send + Sync + Eq + Hash,
    S: Send + Sync + Clone + BuildHasher,
{
    fn par_extend<I>(&mut self, par_iter: I)
    where
        I: IntoParallelIterator<Item = K>,
    {
        let &mut set = self;
        par_iter.into_par_iter().for_each(move |key| {
            set.insert(key);
        });
    }
}

impl<K, S> FromParallelIterator<K> for DashSet<K, S>
where
    K: Send + Sync + Eq + Hash,
    S: Send + Sync + Clone + Default + BuildHasher,
{
    fn from_par_iter<I>(par_iter: I) -> Self
    where
        I: IntoParallelIterator<Item = K>,
    {
        let set = Self::default();
        (&set).par_extend(par_iter);
        set
    }
}

impl<K, S> IntoParallelIterator for DashSet<K, S>
where
    K: Send + Eq + Hash,
    S: Send + Clone + BuildHasher,
{
    type Iter = OwningIter<K>;
    type Item = K;

    fn into_par_iter(self) -> Self::Iter {
        OwningIter {
            inner: self.inner.into_par_iter(),
        }
    }
}

pub struct OwningIter<K> {
    inner: super::map::OwningIter<K, ()>,
}

impl<K> ParallelIterator for OwningIter<K>
where
    K: Send + Eq + Hash,
{
    type Item = K;

    fn drive_unindexed<C>(self, consumer: C) -> C::Result
    where
        C: UnindexedConsumer<Self::Item>,
    {
        self.inner.map(|(k, _)| k).drive_unindexed(consumer)
    }
}

// This impl also enables `IntoParallelRefIterator::par_iter`
impl<'a, K, S> IntoParallelIterator for &'a DashSet<K, S>
where
    K: Send + Sync + Eq + Hash,
    S: Send + Sync + Clone + BuildHasher,
{
    type Iter = Iter<'a, K>;
    type Item = RefMulti<'a, K>;

    fn into_par_iter(self) -> Self::Iter {
        Iter {
            inner: (&self.inner).into_par_iter(),
        }
    }
}

pub struct Iter<'a, K> {
    inner: super::map::Iter<'a, K, ()>,
}

impl<'a, K> ParallelIterator for Iter<'a, K>
where
    K: Send + Sync + Eq + Hash,
{
    type Item = RefMulti<'a, K>;

    fn drive_unindexed<C>(self, consumer: C) -> C::Result
    where
        C: UnindexedConsumer<Self::Item>,
    {
        self.inner.map(RefMulti::new).drive_unindexed(consumer)
    }
}
