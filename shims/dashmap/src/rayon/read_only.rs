use crate::mapref::multiple::RefMulti;
use crate::rayon::map::Iter;
use crate::ReadOnlyView;
use core::hash::{BuildHasher, Hash};
use rayon::iter::IntoParallelIterator;

impl<K, V, S> IntoParallelIterator for ReadOnlyView<K, V, S>
where
    K: Send + Eq + Hash,
    V: Send,
    S: Send + Clone + BuildHasher,
{
    type Iter = super::map::OwningIter<K, V>;
    type Item = (K, V);

    fn into_par_iter(self) -> Self::Iter {
        super::map::OwningIter {
            shards: self.map.shards,
        }
    }
}

// This impl also enables `IntoParallelRefIterator::par_iter`
impl<'a, K, V, S> IntoParallelIterator for &'a ReadOnlyView<K, V, S>
where
    K: Send + Sync + Eq + Hash,
    V: Send + Sync,
    S: Send + Sync + Clone + BuildHasher,
{
    type Iter = Iter<'a, K, V>;
    type Item = RefMulti<'a, K, V>;

    fn into_par_iter(self) -> Self::Iter {
        Iter {
            shards: &self.map.shards,
        }
    }
}

#[cfg(test)]
mod tests {
    use crate::DashMap;
    use rayon::iter::{IntoParallelIterator, IntoParallelRefIterator, ParallelIterator};

    fn construct_sample_map() -> DashMap<i32, String> {
        let map = DashMap::new();

        map.insert(1, "one".to_string());

        map.insert(10, "ten".to_string());

        map.insert(27, "twenty seven".to_string());

        map.insert(45, "forty five".to_string());

        map
    }

    #[test]
    fn test_par_iter() {
        let map = construct_sample_map();

        let view = map.clone().into_read_only();

        view.par_iter().for_each(|entry| {
            let key = *entry.key();

            assert!(view.contains_key(&key));

            let map_entry = map.get(&key).unwrap();

            assert_eq!(view.get(&key).unwrap(), map_entry.value());

            let key_value: (&i32, &String) = view.get_key_value(&key).unwrap();

            assert_eq!(key_value.0, map_entry.key());

            assert_eq!(key_value.1, map_entry.value());
        });
    }

    #[test]
    fn test_into_par_iter() {
        let map = construct_sample_map();

        let view = map.clone().into_read_only();

        view.into_par_iter().for_each(|(key, value)| {
            let map_entry = map.get(&key).unwrap();

            assert_eq!(&key, map_entry.key());

            assert_eq!(&value, map_entry.value());
        });
    }
}
