use crate::lock::RwLock;
use crate::mapref::multiple::{RefMulti, RefMutMulti};
use crate::{DashMap, HashMap};
use core::hash::{BuildHasher, Hash};
use crossbeam_utils::CachePadded;
use rayon::iter::plumbing::UnindexedConsumer;
use rayon::iter::{FromParallelIterator, IntoParallelIterator, ParallelExtend, ParallelIterator};
use std::sync::Arc;

impl<K, V, S> ParallelExtend<(K, V)> for DashMap<K, V, S>
where
    K: Send + Sync + Eq + Hash,
    V: Send + Sync,
    S: Send + Sync + Clone + BuildHasher,
{
    fn par_extend<I>(&mut self, par_iter: I)
    where
        I: IntoParallelIterator<Item = (K, V)>,
    {
        (&*self).par_extend(par_iter);
    }
}

// Since we don't actually need mutability, we can implement this on a
// reference, similar to `io::Write for &File`.
impl<K, V, S> ParallelExtend<(K, V)> for &'_ DashMap<K, V, S>
where
    K: Send + Sync + Eq + Hash,
    V: Send + Sync,
    S: Send + Sync + Clone + BuildHasher,
{
    fn par_extend<I>(&mut self, par_iter: I)
    where
        I: IntoParallelIterator<Item = (K, V)>,
    {
        let &mut map = self;
        par_iter.into_par_iter().for_each(move |(key, value)| {
            map.insert(key, value);
        });
    }
}

impl<K, V, S> FromParallelIterator<(K, V)> for DashMap<K, V, S>
where
    K: Send + Sync + Eq + Hash,
    V: Send + Sync,
    S: Send + Sync + Clone + Default + BuildHasher,
{
    fn from_par_iter<I>(par_iter: I) -> Self
    where
        I: IntoParallelIterator<Item = (K, V)>,
    {
        let map = Self::default();
        (&map).par_extend(par_iter);
        map
    }
}

// Implementation note: while the shards will iterate in parallel, we flatten
// sequentially within each shard (`flat_map_iter`), because the standard
// `HashMap` only implements `ParallelIterator` by collecting to a `Vec` first.
// There is real parallel support in the `hashbrown/rayon` feature, but we don't
// always use that map.

impl<K, V, S> IntoParallelIterator for DashMap<K, V, S>
where
    K: Send + Eq + Hash,
    V: Send,
    S: Send + Clone + BuildHasher,
{
    type Iter = OwningIter<K, V>;
    type Item = (K, V);

    fn into_par_iter(self) -> Self::Iter {
        OwningIter {
            shards: self.shards,
        }
    }
}

pub struct OwningIter<K, V> {
    pub(super) shards: Box<[CachePadded<RwLock<HashMap<K, V>>>]>,
}

impl<K, V> ParallelIterator for OwningIter<K, V>
where
    K: Send + Eq + Hash,
    V: Send,
{
    type Item = (K, V);

    fn drive_unindexed<C>(self, consumer: C) -> C::Result
    where
        C: UnindexedConsumer<Self::Item>,
    {
        Vec::from(self.shards)
            .into_par_iter()
            .flat_map_iter(|shard| {
                shard
                    .into_inner()
                    .into_inner()
                    .into_iter()
                    .map(|(k, v)| (k, v.into_inner()))
            })
            .drive_unindexed(consumer)
    }
}

// This impl also enables `IntoParallelRefIterator::par_iter`
impl<'a, K, V, S> IntoParallelIterator for &'a DashMap<K, V, S>
where
    K: Send + Sync + Eq + Hash,
    V: Send + Sync,
    S: Send + Sync + Clone + BuildHasher,
{
    type Iter = Iter<'a, K, V>;
    type Item = RefMulti<'a, K, V>;

    fn into_par_iter(self) -> Self::Iter {
        Iter {
            shards: &self.shards,
        }
    }
}

pub struct Iter<'a, K, V> {
    pub(super) shards: &'a [CachePadded<RwLock<HashMap<K, V>>>],
}

impl<'a, K, V> ParallelIterator for Iter<'a, K, V>
where
    K: Send + Sync + Eq + Hash,
    V: Send + Sync,
{
    type Item = RefMulti<'a, K, V>;

    fn drive_unindexed<C>(self, consumer: C) -> C::Result
    where
        C: UnindexedConsumer<Self::Item>,
    {
        self.shards
            .into_par_iter()
            .flat_map_iter(|shard| unsafe {
                let guard = Arc::new(shard.read());
                guard.iter().map(move |b| {
                    let guard = Arc::clone(&guard);
                    let (k, v) = b.as_ref();
                    RefMulti::new(guard, k, v.get())
                })
            })
            .drive_unindexed(consumer)
    }
}

// This impl also enables `IntoParallelRefMutIterator::par_iter_mut`
impl<'a, K, V> IntoParallelIterator for &'a mut DashMap<K, V>
where
    K: Send + Sync + Eq + Hash,
    V: Send + Sync,
{
    type Iter = IterMut<'a, K, V>;
    type Item = RefMutMulti<'a, K, V>;

    fn into_par_iter(self) -> Self::Iter {
        IterMut {
            shards: &self.shards,
        }
    }
}

impl<K, V, S> DashMap<K, V, S>
where
    K: Send + Sync + Eq + Hash,
    V: Send + Sync,
{
    // Unlike `IntoParallelRefMutIterator::par_iter_mut`, we only _need_ `&self`.
    pub fn par_iter_mut(&self) -> IterMut<'_, K, V> {
        IterMut {
            shards: &self.shards,
        }
    }
}

pub struct IterMut<'a, K, V> {
    shards: &'a [CachePadded<RwLock<HashMap<K, V>>>],
}

impl<'a, K, V> ParallelIterator for IterMut<'a, K, V>
where
    K: Send + Sync + Eq + Hash,
    V: Send + Sync,
{
    type Item = RefMutMulti<'a, K, V>;

    fn drive_unindexed<C>(self, consumer: C) -> C::Result
    where
        C: UnindexedConsumer<Self::Item>,
    {
        self.shards
            .into_par_iter()
            .flat_map_iter(|shard| unsafe {
                let guard = Arc::new(shard.write());
                guard.iter().map(move |b| {
                    let guard = Arc::clone(&guard);
                    let (k, v) = b.as_mut();
                    RefMutMulti::new(guard, k, v.get_mut())
                })
            })
            .drive_unindexed(consumer)
    }
}
