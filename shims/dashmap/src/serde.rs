use crate::{mapref, setref, DashMap, DashSet};
use core::fmt;
use core::hash::{BuildHasher, Hash};
use core::marker::PhantomData;
use serde::de::{Deserialize, MapAccess, SeqAccess, Visitor};
use serde::ser::{Serialize, SerializeMap, SerializeSeq, Serializer};
use serde::Deserializer;

pub struct DashMapVisitor<K, V, S> {
    marker: PhantomData<fn() -> DashMap<K, V, S>>,
}

impl<K, V, S> DashMapVisitor<K, V, S>
where
    K: Eq + Hash,
    S: BuildHasher + Clone,
{
    fn new() -> Self {
        DashMapVisitor {
            marker: PhantomData,
        }
    }
}

impl<'de, K, V, S> Visitor<'de> for DashMapVisitor<K, V, S>
where
    K: Deserialize<'de> + Eq + Hash,
    V: Deserialize<'de>,
    S: BuildHasher + Clone + Default,
{
    type Value = DashMap<K, V, S>;

    fn expecting(&self, formatter: &mut fmt::Formatter) -> fmt::Result {
        formatter.write_str("a DashMap")
    }

    fn visit_map<M>(self, mut access: M) -> Result<Self::Value, M::Error>
    where
        M: MapAccess<'de>,
    {
        let map =
            DashMap::with_capacity_and_hasher(access.size_hint().unwrap_or(0), Default::default());

        while let Some((key, value)) = access.next_entry()? {
            map.insert(key, value);
        }

        Ok(map)
    }
}

impl<'de, K, V, S> Deserialize<'de> for DashMap<K, V, S>
where
    K: Deserialize<'de> + Eq + Hash,
    V: Deserialize<'de>,
    S: BuildHasher + Clone + Default,
{
    fn deserialize<D>(deserializer: D) -> Result<Self, D::Error>
    where
        D: Deserializer<'de>,
    {
        deserializer.deserialize_map(DashMapVisitor::<K, V, S>::new())
    }
}

impl<K, V, H> Serialize for DashMap<K, V, H>
where
    K: Serialize + Eq + Hash,
    V: Serialize,
    H: BuildHasher + Clone,
{
    fn serialize<S>(&self, serializer: S) -> Result<S::Ok, S::Error>
    where
        S: Serializer,
    {
        let mut map = serializer.serialize_map(Some(self.len()))?;

        for ref_multi in self.iter() {
            map.serialize_entry(ref_multi.key(), ref_multi.value())?;
        }

        map.end()
    }
}

pub struct DashSetVisitor<K, S> {
    marker: PhantomData<fn() -> DashSet<K, S>>,
}

impl<K, S> DashSetVisitor<K, S>
where
    K: Eq + Hash,
    S: BuildHasher + Clone,
{
    fn new() -> Self {
        DashSetVisitor {
            marker: PhantomData,
        }
    }
}

impl<'de, K, S> Visitor<'de> for DashSetVisitor<K, S>
where
    K: Deserialize<'de> + Eq + Hash,
    S: BuildHasher + Clone + Default,
{
    type Value = DashSet<K, S>;

    fn expecting(&self, formatter: &mut fmt::Formatter) -> fmt::Result {
        formatter.write_str("a DashSet")
    }

    fn visit_seq<M>(self, mut access: M) -> Result<Self::Value, M::Error>
    where
        M: SeqAccess<'de>,
    {
        let map =
            DashSet::with_capacity_and_hasher(access.size_hint().unwrap_or(0), Default::default());

        while let Some(key) = access.next_element()? {
            map.insert(key);
        }

        Ok(map)
    }
}

impl<'de, K, S> Deserialize<'de> for DashSet<K, S>
where
    K: Deserialize<'de> + Eq + Hash,
    S: BuildHasher + Clone + Default,
{
    fn deserialize<D>(deserializer: D) -> Result<Self, D::Error>
    where
        D: Deserializer<'de>,
    {
        deserializer.deserialize_seq(DashSetVisitor::<K, S>::new())
    }
}

impl<K, H> Serialize for DashSet<K, H>
where
    K: Serialize + Eq + Hash,
    H: BuildHasher + Clone,
{
    fn serialize<S>(&self, serializer: S) -> Result<S::Ok, S::Error>
    where
        S: Serializer,
    {
        let mut seq = serializer.serialize_seq(Some(self.len()))?;

        for ref_multi in self.iter() {
            seq.serialize_element(ref_multi.key())?;
        }

        seq.end()
    }
}

macro_rules! serialize_impl {
    () => {
        fn serialize<Ser>(&self, serializer: Ser) -> Result<Ser::Ok, Ser::Error>
        where
            Ser: serde::Serializer,
        {
            std::ops::Deref::deref(self).serialize(serializer)
        }
    };
}

// Map
impl<'a, K: Eq + Hash, V: Serialize> Serialize for mapref::multiple::RefMulti<'a, K, V> {
    serialize_impl! {}
}

impl<'a, K: Eq + Hash, V: Serialize> Serialize for mapref::multiple::RefMutMulti<'a, K, V> {
    serialize_impl! {}
}

impl<'a, K: Eq + Hash, V: Serialize> Serialize for mapref::one::Ref<'a, K, V> {
    serialize_impl! {}
}

impl<'a, K: Eq + Hash, V: Serialize> Serialize for mapref::one::RefMut<'a, K, V> {
    serialize_impl! {}
}

impl<'a, K: Eq + Hash, V, T: Serialize> Serialize for mapref::one::MappedRef<'a, K, V, T> {
    serialize_impl! {}
}

impl<'a, K: Eq + Hash, V, T: Serialize> Serialize for mapref::one::MappedRefMut<'a, K, V, T> {
    serialize_impl! {}
}

// Set
impl<'a, V: Hash + Eq + Serialize> Serialize for setref::multiple::RefMulti<'a, V> {
    serialize_impl! {}
}

impl<'a, V: Hash + Eq + Serialize> Serialize for setref::one::Ref<'a, V> {
    serialize_impl! {}
}
