#![allow(clippy::type_complexity)]

#[cfg(feature = "arbitrary")]
mod arbitrary;
pub mod iter;
pub mod iter_set;
mod lock;
pub mod verif_hooks;
pub mod mapref;
mod read_only;
#[cfg(feature = "serde")]
mod serde;
mod set;
pub mod setref;
mod t;
pub mod try_result;
mod util;

#[cfg(feature = "rayon")]
pub mod rayon {
    pub mod map;
    pub mod read_only;
    pub mod set;
}

#[cfg(not(feature = "raw-api"))]
use crate::lock::{RwLock, RwLockReadGuard, RwLockWriteGuard};

#[cfg(feature = "raw-api")]
pub use crate::lock::{RawRwLock, RwLock, RwLockReadGuard, RwLockWriteGuard};

use cfg_if::cfg_if;
use core::borrow::Borrow;
use core::fmt;
use core::hash::{BuildHasher, Hash};
use core::iter::FromIterator;
use core::ops::{BitAnd, BitOr, Shl, Shr, Sub};
use crossbeam_utils::CachePadded;
use iter::{Iter, IterMut, OwningIter};
pub use mapref::entry::{Entry, OccupiedEntry, VacantEntry};
use mapref::multiple::RefMulti;
use mapref::one::{Ref, RefMut};
use once_cell::sync::OnceCell;
pub use read_only::ReadOnlyView;
pub use set::DashSet;
use std::collections::hash_map::RandomState;
pub use t::Map;
use try_result::TryResult;

cfg_if! {
    if #[cfg(feature = "raw-api")] {
        pub use util::SharedValue;
    } else {
        use util::SharedValue;
    }
}

pub(crate) type HashMap<K, V> = hashbrown::raw::RawTable<(K, SharedValue<V>)>;

// Temporary reimplementation of [`std::collections::TryReserveError`]
// util [`std::collections::TryReserveError`] stabilises.
// We cannot easily create `std::collections` error type from `hashbrown` error type
// without access to `TryReserveError::kind` method.
#[non_exhaustive]
#[derive(Clone, PartialEq, Eq, Debug)]
pub struct TryReserveError {}

fn default_shard_amount() -> usize {
    let forced = verif_hooks::forced_shard_amount();
    if forced != 0 {
        return forced;
    }
    static DEFAULT_SHARD_AMOUNT: OnceCell<usize> = OnceCell::new();
    *DEFAULT_SHARD_AMOUNT.get_or_init(|| {
        (std::thread::available_parallelism().map_or(1, usize::from) * 4).next_power_of_two()
    })
}

fn ncb(shard_amount: usize) -> usize {
    shard_amount.trailing_zeros() as usize
}

/// DashMap is an implementation of a concurrent associative array/hashmap in Rust.
///
/// DashMap tries to implement an easy to use API similar to `std::collections::HashMap`
/// with some slight changes to handle concurrency.
///
/// DashMap tries to be very simple to use and to be a direct replacement for `RwLock<HashMap<K, V>>`.
/// To accomplish this, all methods take `&self` instead of modifying methods taking `&mut self`.
/// This allows you to put a DashMap in an `Arc<T>` and share it between threads while being able to modify it.
///
/// Documentation mentioning locking behaviour acts in the reference frame of the calling thread.
/// This means that it is safe to ignore it across multiple threads.
pub struct DashMap<K, V, S = RandomState> {
    shift: usize,
    shards: Box<[CachePadded<RwLock<HashMap<K, V>>>]>,
    hasher: S,
}

impl<K: Eq + Hash + Clone, V: Clone, S: Clone> Clone for DashMap<K, V, S> {
    fn clone(&self) -> Self {
        let mut inner_shards = Vec::new();

        for shard in self.shards.iter() {
            let shard = shard.read();

            inner_shards.push(CachePadded::new(RwLock::new((*shard).clone())));
        }

        Self {
            shift: self.shift,
            shards: inner_shards.into_boxed_slice(),
            hasher: self.hasher.clone(),
        }
    }
}

impl<K, V, S> Default for DashMap<K, V, S>
where
    K: Eq + Hash,
    S: Default + BuildHasher + Clone,
{
    fn default() -> Self {
        Self::with_hasher(Default::default())
    }
}

impl<'a, K: 'a + Eq + Hash, V: 'a> DashMap<K, V, RandomState> {
    /// Creates a new DashMap with a capacity of 0.
    ///
    /// # Examples
    ///
    /// ```
    /// use dashmap::DashMap;
    ///
    /// let reviews = DashMap::new();
    /// reviews.insert("Veloren", "What a fantastic game!");
    /// ```
    pub fn new() -> Self {
        DashMap::with_hasher(RandomState::default())
    }

    /// Creates a new DashMap with a specified starting capacity.
    ///
    /// # Examples
    ///
    /// ```
    /// use dashmap::DashMap;
    ///
    /// let mappings = DashMap::with_capacity(2);
    /// mappings.insert(2, 4);
    /// mappings.insert(8, 16);
    /// ```
    pub fn with_capacity(capacity: usize) -> Self {
        DashMap::with_capacity_and_hasher(capacity, RandomState::default())
    }

    /// Creates a new DashMap with a specified shard amount
    ///
    /// shard_amount should greater than 0 and be a power of two.
    /// If a shard_amount which is not a power of two is provided, the function will panic.
    ///
    /// # Examples
    ///
    /// ```
    /// use dashmap::DashMap;
    ///
    /// let mappings = DashMap::with_shard_amount(32);
    /// mappings.insert(2, 4);
    /// mappings.insert(8, 16);
    /// ```
    pub fn with_shard_amount(shard_amount: usize) -> Self {
        Self::with_capacity_and_hasher_and_shard_amount(0, RandomState::default(), shard_amount)
    }

    /// Creates a new DashMap with a specified capacity and shard amount.
    ///
    /// shard_amount should greater than 0 and be a power of two.
    /// If a shard_amount which is not a power of two is provided, the function will panic.
    ///
    /// # Examples
    ///
    /// ```
    /// use dashmap::DashMap;
    ///
    /// let mappings = DashMap::with_capacity_and_shard_amount(32, 32);
    /// mappings.insert(2, 4);
    /// mappings.insert(8, 16);
    /// ```
    pub fn with_capacity_and_shard_amount(capacity: usize, shard_amount: usize) -> Self {
        Self::with_capacity_and_hasher_and_shard_amount(
            capacity,
            RandomState::default(),
            shard_amount,
        )
    }
}

impl<'a, K: 'a + Eq + Hash, V: 'a, S: BuildHasher + Clone> DashMap<K, V, S> {
    /// Wraps this `DashMap` into a read-only view. This view allows to obtain raw references to the stored values.
    pub fn into_read_only(self) -> ReadOnlyView<K, V, S> {
        ReadOnlyView::new(self)
    }

    /// Creates a new DashMap with a capacity of 0 and the provided hasher.
    ///
    /// # Examples
    ///
    /// ```
    /// use dashmap::DashMap;
    /// use std::collections::hash_map::RandomState;
    ///
    /// let s = RandomState::new();
    /// let reviews = DashMap::with_hasher(s);
    /// reviews.insert("Veloren", "What a fantastic game!");
    /// ```
    pub fn with_hasher(hasher: S) -> Self {
        Self::with_capacity_and_hasher(0, hasher)
    }

    /// Creates a new DashMap with a specified starting capacity and hasher.
    ///
    /// # Examples
    ///
    /// ```
    /// use dashmap::DashMap;
    /// use std::collections::hash_map::RandomState;
    ///
    /// let s = RandomState::new();
    /// let mappings = DashMap::with_capacity_and_hasher(2, s);
    /// mappings.insert(2, 4);
    /// mappings.insert(8, 16);
    /// ```
    pub fn with_capacity_and_hasher(capacity: usize, hasher: S) -> Self {
        Self::with_capacity_and_hasher_and_shard_amount(capacity, hasher, default_shard_amount())
    }

    /// Creates a new DashMap with a specified hasher and shard amount
    ///
    /// shard_amount should be greater than 0 and a power of two.
    /// If a shard_amount which is not a power of two is provided, the function will panic.
    ///
    /// # Examples
    ///
    /// ```
    /// use dashmap::DashMap;
    /// use std::collections::hash_map::RandomState;
    ///
    /// let s = RandomState::new();
    /// let mappings = DashMap::with_hasher_and_shard_amount(s, 32);
    /// mappings.insert(2, 4);
    /// mappings.insert(8, 16);
    /// ```
    pub fn with_hasher_and_shard_amount(hasher: S, shard_amount: usize) -> Self {
        Self::with_capacity_and_hasher_and_shard_amount(0, hasher, shard_amount)
    }

    /// Creates a new DashMap with a specified starting capacity, hasher and shard_amount.
    ///
    /// shard_amount should greater than 0 and be a power of two.
    /// If a shard_amount which is not a power of two is provided, the function will panic.
    ///
    /// # Examples
    ///
    /// ```
    /// use dashmap::DashMap;
    /// use std::collections::hash_map::RandomState;
    ///
    /// let s = RandomState::new();
    /// let mappings = DashMap::with_capacity_and_hasher_and_shard_amount(2, s, 32);
    /// mappings.insert(2, 4);
    /// mappings.insert(8, 16);
    /// ```
    pub fn with_capacity_and_hasher_and_shard_amount(
        mut capacity: usize,
        hasher: S,
        shard_amount: usize,
    ) -> Self {
        assert!(shard_amount > 1);
        assert!(shard_amount.is_power_of_two());

        let shift = util::ptr_size_bits() - ncb(shard_amount);

        if capacity != 0 {
            capacity = (capacity + (shard_amount - 1)) & !(shard_amount - 1);
        }

        let cps = capacity / shard_amount;

        let shards: Box<[CachePadded<RwLock<HashMap<K, V>>>]> = (0..shard_amount)
            .map(|_| CachePadded::new(RwLock::new(HashMap::with_capacity(cps))))
            .collect();
        let map_id = verif_hooks::next_map_id();
        for s in shards.iter() {
            unsafe { s.raw() }.verif_set_map_id(map_id);
        }

        Self {
            shift,
            shards,
            hasher,
        }
    }

    /// Verification shim: id of this map as seen by `verif_hooks` (0 if it has no shards).
    pub fn verif_map_id(&self) -> usize {
        self.shards.first().map(|s| unsafe { s.raw() }.verif_map_id()).unwrap_or(0)
    }

    /// Hash a given item to produce a usize.
    /// Uses the provided or default HashBuilder.
    pub fn hash_usize<T: Hash>(&self, item: &T) -> usize {
        self.hash_u64(item) as usize
    }

    fn hash_u64<T: Hash>(&self, item: &T) -> u64 {
        verif_hooks::hash_with(&self.hasher, item)
    }

    cfg_if! {
        if #[cfg(feature = "raw-api")] {
            /// Allows you to peek at the inner shards that store your data.
            /// You should probably not use this unless you know what you are doing.
            ///
            /// Requires the `raw-api` feature to be enabled.
            ///
            /// # Examples
            ///
            /// ```
            /// use dashmap::DashMap;
            ///
            /// let map = DashMap::<(), ()>::new();
            /// println!("Amount of shards: {}", map.shards().len());
            /// ```
            pub fn shards(&self) -> &[CachePadded<RwLock<HashMap<K, V>>>] {
                &self.shards
            }

            /// Provides mutable access to the inner shards that store your data.
            /// You should probably not use this unless you know what you are doing.
            ///
            /// Requires the `raw-api` feature to be enabled.
            ///
            /// # Examples
            ///
            /// ```
            /// use dashmap::DashMap;
            /// use dashmap::SharedValue;
            /// use std::hash::{Hash, Hasher, BuildHasher};
            ///
            /// let mut map = DashMap::<i32, &'static str>::new();
            /// let shard_ind = map.determine_map(&42);
            /// let mut factory = map.hasher().clone();
            /// let hasher = |tuple: &(i32, SharedValue<&'static str>)| {
            ///     let mut hasher = factory.build_hasher();
            ///     tuple.0.hash(&mut hasher);
            ///     hasher.finish()
            /// };
            /// let data = (42, SharedValue::new("forty two"));
            /// let hash = hasher(&data);
            /// map.shards_mut()[shard_ind].get_mut().insert(hash, data, hasher);
            /// assert_eq!(*map.get(&42).unwrap(), "forty two");
            /// ```
            pub fn shards_mut(&mut self) -> &mut [CachePadded<RwLock<HashMap<K, V>>>] {
                &mut self.shards
            }

            /// Consumes this `DashMap` and returns the inner shards.
            /// You should probably not use this unless you know what you are doing.
            ///
            /// Requires the `raw-api` feature to be enabled.
            ///
            /// See [`DashMap::shards()`] and [`DashMap::shards_mut()`] for more information.
            pub fn into_shards(self) -> Box<[CachePadded<RwLock<HashMap<K, V>>>]> {
                self.shards
            }
        } else {
            #[allow(dead_code)]
            pub(crate) fn shards(&self) -> &[CachePadded<RwLock<HashMap<K, V>>>] {
                &self.shards
            }

            #[allow(dead_code)]
            pub(crate) fn shards_mut(&mut self) -> &mut [CachePadded<RwLock<HashMap<K, V>>>] {
                &mut self.shards
            }

            #[allow(dead_code)]
            pub(crate) fn into_shards(self) -> Box<[CachePadded<RwLock<HashMap<K, V>>>]> {
                self.shards
            }
        }
    }

    cfg_if! {
        if #[cfg(feature = "raw-api")] {
            /// Finds which shard a certain key is stored in.
            /// You should probably not use this unless you know what you are doing.
            /// Note that shard selection is dependent on the default or provided HashBuilder.
            ///
            /// Requires the `raw-api` feature to be enabled.
            ///
            /// # Examples
            ///
            /// ```
            /// use dashmap::DashMap;
            ///
            /// let map = DashMap::new();
            /// map.insert("coca-cola", 1.4);
            /// println!("coca-cola is stored in shard: {}", map.determine_map("coca-cola"));
            /// ```
            pub fn determine_map<Q>(&self, key: &Q) -> usize
            where
                K: Borrow<Q>,
                Q: Hash + Eq + ?Sized,
            {
                let hash = self.hash_usize(&key);
                self.determine_shard(hash)
            }
        }
    }

    cfg_if! {
        if #[cfg(feature = "raw-api")] {
            /// Finds which shard a certain hash is stored in.
            ///
            /// Requires the `raw-api` feature to be enabled.
            ///
            /// # Examples
            ///
            /// ```
            /// use dashmap::DashMap;
            ///
            /// let map: DashMap<i32, i32> = DashMap::new();
            /// let key = "key";
            /// let hash = map.hash_usize(&key);
            /// println!("hash is stored in shard: {}", map.determine_shard(hash));
            /// ```
            pub fn determine_shard(&self, hash: usize) -> usize {
                if verif_hooks::collide() {
                    return 0;
                }
                // Leave the high 7 bits for the HashBrown SIMD tag.
                (hash << 7) >> self.shift
            }
        } else {

            pub(crate) fn determine_shard(&self, hash: usize) -> usize {
                if verif_hooks::collide() {
                    return 0;
                }
                // Leave the high 7 bits for the HashBrown SIMD tag.
                (hash << 7) >> self.shift
            }
        }
    }

    /// Returns a reference to the map's [`BuildHasher`].
    ///
    /// # Examples
    ///
    /// ```rust
    /// use dashmap::DashMap;
    /// use std::collections::hash_map::RandomState;
    ///
    /// let hasher = RandomState::new();
    /// let map: DashMap<i32, i32> = DashMap::new();
    /// let hasher: &RandomState = map.hasher();
    /// ```
    ///
    /// [`BuildHasher`]: https://doc.rust-lang.org/std/hash/trait.BuildHasher.html
    pub fn hasher(&self) -> &S {
        &self.hasher
    }

    /// Inserts a key and a value into the map. Returns the old value associated with the key if there was one.
    ///
    /// **Locking behaviour:** May deadlock if called when holding any sort of reference into the map.
    ///
    /// # Examples
    ///
    /// ```
    /// use dashmap::DashMap;
    ///
    /// let map = DashMap::new();
    /// map.insert("I am the key!", "And I am the value!");
    /// ```
    pub fn insert(&self, key: K, value: V) -> Option<V> {
        self._insert(key, value)
    }

    /// Removes an entry from the map, returning the key and value if they existed in the map.
    ///
    /// **Locking behaviour:** May deadlock if called when holding any sort of reference into the map.
    ///
    /// # Examples
    ///
    /// ```
    /// use dashmap::DashMap;
    ///
    /// let soccer_team = DashMap::new();
    /// soccer_team.insert("Jack", "Goalie");
    /// assert_eq!(soccer_team.remove("Jack").unwrap().1, "Goalie");
    /// ```
    pub fn remove<Q>(&self, key: &Q) -> Option<(K, V)>
    where
        K: Borrow<Q>,
        Q: Hash + Eq + ?Sized,
    {
        self._remove(key)
    }

    /// Removes an entry from the map, returning the key and value
    /// if the entry existed and the provided conditional function returned true.
    ///
    /// **Locking behaviour:** May deadlock if called when holding any sort of reference into the map.
    ///
    /// ```
    /// use dashmap::DashMap;
    ///
    /// let soccer_team = DashMap::new();
    /// soccer_team.insert("Sam", "Forward");
    /// soccer_team.remove_if("Sam", |_, position| position == &"Goalie");
    /// assert!(soccer_team.contains_key("Sam"));
    /// ```
    /// ```
    /// use dashmap::DashMap;
    ///
    /// let soccer_team = DashMap::new();
    /// soccer_team.insert("Sam", "Forward");
    /// soccer_team.remove_if("Sam", |_, position| position == &"Forward");
    /// assert!(!soccer_team.contains_key("Sam"));
    /// ```
    pub fn remove_if<Q>(&self, key: &Q, f: impl FnOnce(&K, &V) -> bool) -> Option<(K, V)>
    where
        K: Borrow<Q>,
        Q: Hash + Eq + ?Sized,
    {
        self._remove_if(key, f)
    }

    pub fn remove_if_mut<Q>(&self, key: &Q, f: impl FnOnce(&K, &mut V) -> bool) -> Option<(K, V)>
    where
        K: Borrow<Q>,
        Q: Hash + Eq + ?Sized,
    {
        self._remove_if_mut(key, f)
    }

    /// Creates an iterator over a DashMap yielding immutable references.
    ///
    /// **Locking behaviour:** May deadlock if called when holding a mutable reference into the map.
    ///
    /// # Examples
    ///
    /// ```
    /// use dashmap::DashMap;
    ///
    /// let words = DashMap::new();
    /// words.insert("hello", "world");
    /// assert_eq!(words.iter().count(), 1);
    /// ```
    pub fn iter(&'a self) -> Iter<'a, K, V, S, DashMap<K, V, S>> {
        self._iter()
    }

    /// Iterator over a DashMap yielding mutable references.
    ///
    /// **Locking behaviour:** May deadlock if called when holding any sort of reference into the map.
    ///
    /// # Examples
    ///
    /// ```
    /// use dashmap::DashMap;
    ///
    /// let map = DashMap::new();
    /// map.insert("Johnny", 21);
    /// map.iter_mut().for_each(|mut r| *r += 1);
    /// assert_eq!(*map.get("Johnny").unwrap(), 22);
    /// ```
    pub fn iter_mut(&'a self) -> IterMut<'a, K, V, S, DashMap<K, V, S>> {
        self._iter_mut()
    }

    /// Get an immutable reference to an entry in the map
    ///
    /// **Locking behaviour:** May deadlock if called when holding a mutable reference into the map.
    ///
    /// # Examples
    ///
    /// ```
    /// use dashmap::DashMap;
    ///
    /// let youtubers = DashMap::new();
    /// youtubers.insert("Bosnian Bill", 457000);
    /// assert_eq!(*youtubers.get("Bosnian Bill").unwrap(), 457000);
    /// ```
    pub fn get<Q>(&'a self, key: &Q) -> Option<Ref<'a, K, V>>
    where
        K: Borrow<Q>,
        Q: Hash + Eq + ?Sized,
    {
        self._get(key)
    }

    /// Get a mutable reference to an entry in the map
    ///
    /// **Locking behaviour:** May deadlock if called when holding any sort of reference into the map.
    ///
    /// # Examples
    ///
    /// ```
    /// use dashmap::DashMap;
    ///
    /// let class = DashMap::new();
    /// class.insert("Albin", 15);
    /// *class.get_mut("Albin").unwrap() -= 1;
    /// assert_eq!(*class.get("Albin").unwrap(), 14);
    /// ```
    pub fn get_mut<Q>(&'a self, key: &Q) -> Option<RefMut<'a, K, V>>
    where
        K: Borrow<Q>,
        Q: Hash + Eq + ?Sized,
    {
        self._get_mut(key)
    }

    /// Get an immutable reference to an entry in the map, if the shard is not locked.
    /// If the shard is locked, the function will return [TryResult::Locked].
    ///
    /// # Examples
    ///
    /// ```
    /// use dashmap::DashMap;
    /// use dashmap::try_result::TryResult;
    ///
    /// let map = DashMap::new();
    /// map.insert("Johnny", 21);
    ///
    /// assert_eq!(*map.try_get("Johnny").unwrap(), 21);
    ///
    /// let _result1_locking = map.get_mut("Johnny");
    ///
    /// let result2 = map.try_get("Johnny");
    /// assert!(result2.is_locked());
    /// ```
    pub fn try_get<Q>(&'a self, key: &Q) -> TryResult<Ref<'a, K, V>>
    where
        K: Borrow<Q>,
        Q: Hash + Eq + ?Sized,
    {
        self._try_get(key)
    }

    /// Get a mutable reference to an entry in the map, if the shard is not locked.
    /// If the shard is locked, the function will return [TryResult::Locked].
    ///
    /// # Examples
    ///
    /// ```
    /// use dashmap::DashMap;
    /// use dashmap::try_result::TryResult;
    ///
    /// let map = DashMap::new();
    /// map.insert("Johnny", 21);
    ///
    /// *map.try_get_mut("Johnny").unwrap() += 1;
    /// assert_eq!(*map.get("Johnny").unwrap(), 22);
    ///
    /// let _result1_locking = map.get("Johnny");
    ///
    /// let result2 = map.try_get_mut("Johnny");
    /// assert!(result2.is_locked());
    /// ```
    pub fn try_get_mut<Q>(&'a self, key: &Q) -> TryResult<RefMut<'a, K, V>>
    where
        K: Borrow<Q>,
        Q: Hash + Eq + ?Sized,
    {
        self._try_get_mut(key)
    }

    /// Remove excess capacity to reduce memory usage.
    ///
    /// **Locking behaviour:** May deadlock if called when holding any sort of reference into the map.
    /// # Examples
    ///
    /// ```
    /// use dashmap::DashMap;
    /// use dashmap::try_result::TryResult;
    ///
    /// let map = DashMap::new();
    /// map.insert("Johnny", 21);
    /// assert!(map.capacity() > 0);
    /// map.remove("Johnny");
    /// map.shrink_to_fit();
    /// assert_eq!(map.capacity(), 0);
    /// ```
    pub fn shrink_to_fit(&self) {
        self._shrink_to_fit();
    }

    /// Retain elements that whose predicates return true
    /// and discard elements whose predicates return false.
    ///
    /// **Locking behaviour:** May deadlock if called when holding any sort of reference into the map.
    ///
    /// # Examples
    ///
    /// ```
    /// use dashmap::DashMap;
    ///
    /// let people = DashMap::new();
    /// people.insert("Albin", 15);
    /// people.insert("Jones", 22);
    /// people.insert("Charlie", 27);
    /// people.retain(|_, v| *v > 20);
    /// assert_eq!(people.len(), 2);
    /// ```
    pub fn retain(&self, f: impl FnMut(&K, &mut V) -> bool) {
        self._retain(f);
    }

    /// Fetches the total number of key-value pairs stored in the map.
    ///
    /// **Locking behaviour:** May deadlock if called when holding a mutable reference into the map.
    ///
    /// # Examples
    ///
    /// ```
    /// use dashmap::DashMap;
    ///
    /// let people = DashMap::new();
    /// people.insert("Albin", 15);
    /// people.insert("Jones", 22);
    /// people.insert("Charlie", 27);
    /// assert_eq!(people.len(), 3);
    /// ```
    pub fn len(&self) -> usize {
        self._len()
    }

    /// Checks if the map is empty or not.
    ///
    /// **Locking behaviour:** May deadlock if called when holding a mutable reference into the map.
    ///
    /// # Examples
    ///
    /// ```
    /// use dashmap::DashMap;
    ///
    /// let map = DashMap::<(), ()>::new();
    /// assert!(map.is_empty());
    /// ```
    pub fn is_empty(&self) -> bool {
        self._is_empty()
    }

    /// Removes all key-value pairs in the map.
    ///
    /// **Locking behaviour:** May deadlock if called when holding any sort of reference into the map.
    ///
    /// # Examples
    ///
    /// ```
    /// use dashmap::DashMap;
    ///
    /// let stats = DashMap::new();
    /// stats.insert("Goals", 4);
    /// assert!(!stats.is_empty());
    /// stats.clear();
    /// assert!(stats.is_empty());
    /// ```
    pub fn clear(&self) {
        self._clear();
    }

    /// Returns how many key-value pairs the map can store without reallocating.
    ///
    /// **Locking behaviour:** May deadlock if called when holding a mutable reference into the map.
    pub fn capacity(&self) -> usize {
        self._capacity()
    }

    /// Modify a specific value according to a function.
    ///
    /// **Locking behaviour:** May deadlock if called when holding any sort of reference into the map.
    ///
    /// # Examples
    ///
    /// ```
    /// use dashmap::DashMap;
    ///
    /// let stats = DashMap::new();
    /// stats.insert("Goals", 4);
    /// stats.alter("Goals", |_, v| v * 2);
    /// assert_eq!(*stats.get("Goals").unwrap(), 8);
    /// ```
    ///
    /// # Panics
    ///
    /// If the given closure panics, then `alter` will abort the process
    pub fn alter<Q>(&self, key: &Q, f: impl FnOnce(&K, V) -> V)
    where
        K: Borrow<Q>,
        Q: Hash + Eq + ?Sized,
    {
        self._alter(key, f);
    }

    /// Modify every value in the map according to a function.
    ///
    /// **Locking behaviour:** May deadlock if called when holding any sort of reference into the map.
    ///
    /// # Examples
    ///
    /// ```
    /// use dashmap::DashMap;
    ///
    /// let stats = DashMap::new();
    /// stats.insert("Wins", 4);
    /// stats.insert("Losses", 2);
    /// stats.alter_all(|_, v| v + 1);
    /// assert_eq!(*stats.get("Wins").unwrap(), 5);
    /// assert_eq!(*stats.get("Losses").unwrap(), 3);
    /// ```
    ///
    /// # Panics
    ///
    /// If the given closure panics, then `alter_all` will abort the process
    pub fn alter_all(&self, f: impl FnMut(&K, V) -> V) {
        self._alter_all(f);
    }

    /// Scoped access into an item of the map according to a function.
    ///
    /// **Locking behaviour:** May deadlock if called when holding any sort of reference into the map.
    ///
    /// # Examples
    ///
    /// ```
    /// use dashmap::DashMap;
    ///
    /// let warehouse = DashMap::new();
    /// warehouse.insert(4267, ("Banana", 100));
    /// warehouse.insert(2359, ("Pear", 120));
    /// let fruit = warehouse.view(&4267, |_k, v| *v);
    /// assert_eq!(fruit, Some(("Banana", 100)));
    /// ```
    ///
    /// # Panics
    ///
    /// If the given closure panics, then `view` will abort the process
    pub fn view<Q, R>(&self, key: &Q, f: impl FnOnce(&K, &V) -> R) -> Option<R>
    where
        K: Borrow<Q>,
        Q: Hash + Eq + ?Sized,
    {
        self._view(key, f)
    }

    /// Checks if the map contains a specific key.
    ///
    /// **Locking behaviour:** May deadlock if called when holding a mutable reference into the map.
    ///
    /// # Examples
    ///
    /// ```
    /// use dashmap::DashMap;
    ///
    /// let team_sizes = DashMap::new();
    /// team_sizes.insert("Dakota Cherries", 23);
    /// assert!(team_sizes.contains_key("Dakota Cherries"));
    /// ```
    pub fn contains_key<Q>(&self, key: &Q) -> bool
    where
        K: Borrow<Q>,
        Q: Hash + Eq + ?Sized,
    {
        self._contains_key(key)
    }

    /// Advanced entry API that tries to mimic `std::collections::HashMap`.
    /// See the documentation on `dashmap::mapref::entry` for more details.
    ///
    /// **Locking behaviour:** May deadlock if called when holding any sort of reference into the map.
    pub fn entry(&'a self, key: K) -> Entry<'a, K, V> {
        self._entry(key)
    }

    /// Advanced entry API that tries to mimic `std::collections::HashMap`.
    /// See the documentation on `dashmap::mapref::entry` for more details.
    ///
    /// Returns None if the shard is currently locked.
    pub fn try_entry(&'a self, key: K) -> Option<Entry<'a, K, V>> {
        self._try_entry(key)
    }

    /// Advanced entry API that tries to mimic `std::collections::HashMap::try_reserve`.
    /// Tries to reserve capacity for at least `shard * additional`
    /// and may reserve more space to avoid frequent reallocations.
    ///
    /// # Errors
    ///
    /// If the capacity overflows, or the allocator reports a failure, then an error is returned.
    // TODO: return std::collections::TryReserveError once std::collections::TryReserveErrorKind stabilises.
    pub fn try_reserve(&mut self, additional: usize) -> Result<(), TryReserveError> {
        for shard in self.shards.iter() {
            shard
                .write()
                .try_reserve(additional, |(k, _v)| { verif_hooks::hash_with(&self.hasher, k) })
                .map_err(|_| TryReserveError {})?;
        }
        Ok(())
    }
}

impl<'a, K: 'a + Eq + Hash, V: 'a, S: 'a + BuildHasher + Clone> Map<'a, K, V, S>
    for DashMap<K, V, S>
{
    fn _shard_count(&self) -> usize {
        self.shards.len()
    }

    unsafe fn _get_read_shard(&'a self, i: usize) -> &'a HashMap<K, V> {
        debug_assert!(i < self.shards.len());

        &*self.shards.get_unchecked(i).data_ptr()
    }

    unsafe fn _yield_read_shard(&'a self, i: usize) -> RwLockReadGuard<'a, HashMap<K, V>> {
        debug_assert!(i < self.shards.len());

        self.shards.get_unchecked(i).read()
    }

    unsafe fn _yield_write_shard(&'a self, i: usize) -> RwLockWriteGuard<'a, HashMap<K, V>> {
        debug_assert!(i < self.shards.len());

        self.shards.get_unchecked(i).write()
    }

    unsafe fn _try_yield_read_shard(
        &'a self,
        i: usize,
    ) -> Option<RwLockReadGuard<'a, HashMap<K, V>>> {
        debug_assert!(i < self.shards.len());

        self.shards.get_unchecked(i).try_read()
    }

    unsafe fn _try_yield_write_shard(
        &'a self,
        i: usize,
    ) -> Option<RwLockWriteGuard<'a, HashMap<K, V>>> {
        debug_assert!(i < self.shards.len());

        self.shards.get_unchecked(i).try_write()
    }

    fn _insert(&self, key: K, value: V) -> Option<V> {
        match self.entry(key) {
            Entry::Occupied(mut o) => Some(o.insert(value)),
            Entry::Vacant(v) => {
                v.insert(value);
                None
            }
        }
    }

    fn _remove<Q>(&self, key: &Q) -> Option<(K, V)>
    where
        K: Borrow<Q>,
        Q: Hash + Eq + ?Sized,
    {
        let hash = self.hash_u64(&key);

        let idx = self.determine_shard(hash as usize);

        let mut shard = unsafe { self._yield_write_shard(idx) };

        if let Some(bucket) = shard.find(hash, |(k, _v)| key == k.borrow()) {
            let ((k, v), _) = unsafe { shard.remove(bucket) };
            Some((k, v.into_inner()))
        } else {
            None
        }
    }

    fn _remove_if<Q>(&self, key: &Q, f: impl FnOnce(&K, &V) -> bool) -> Option<(K, V)>
    where
        K: Borrow<Q>,
        Q: Hash + Eq + ?Sized,
    {
        let hash = self.hash_u64(&key);

        let idx = self.determine_shard(hash as usize);

        let mut shard = unsafe { self._yield_write_shard(idx) };

        if let Some(bucket) = shard.find(hash, |(k, _v)| key == k.borrow()) {
            let (k, v) = unsafe { bucket.as_ref() };
            if f(k, v.get()) {
                let ((k, v), _) = unsafe { shard.remove(bucket) };
                Some((k, v.into_inner()))
            } else {
                None
            }
        } else {
            None
        }
    }

    fn _remove_if_mut<Q>(&self, key: &Q, f: impl FnOnce(&K, &mut V) -> bool) -> Option<(K, V)>
    where
        K: Borrow<Q>,
        Q: Hash + Eq + ?Sized,
    {
        let hash = self.hash_u64(&key);

        let idx = self.determine_shard(hash as usize);

        let mut shard = unsafe { self._yield_write_shard(idx) };

        if let Some(bucket) = shard.find(hash, |(k, _v)| key == k.borrow()) {
            let (k, v) = unsafe { bucket.as_mut() };
            if f(k, v.get_mut()) {
                let ((k, v), _) = unsafe { shard.remove(bucket) };
                Some((k, v.into_inner()))
            } else {
                None
            }
        } else {
            None
        }
    }

    fn _iter(&'a self) -> Iter<'a, K, V, S, DashMap<K, V, S>> {
        Iter::new(self)
    }

    fn _iter_mut(&'a self) -> IterMut<'a, K, V, S, DashMap<K, V, S>> {
        IterMut::new(self)
    }

    fn _get<Q>(&'a self, key: &Q) -> Option<Ref<'a, K, V>>
    where
        K: Borrow<Q>,
        Q: Hash + Eq + ?Sized,
    {
        let hash = self.hash_u64(&key);

        let idx = self.determine_shard(hash as usize);

        let shard = unsafe { self._yield_read_shard(idx) };

        if let Some(bucket) = shard.find(hash, |(k, _v)| key == k.borrow()) {
            unsafe {
                let (k, v) = bucket.as_ref();
                Some(Ref::new(shard, k, v.as_ptr()))
            }
        } else {
            None
        }
    }

    fn _get_mut<Q>(&'a self, key: &Q) -> Option<RefMut<'a, K, V>>
    where
        K: Borrow<Q>,
        Q: Hash + Eq + ?Sized,
    {
        let hash = self.hash_u64(&key);

        let idx = self.determine_shard(hash as usize);

        let shard = unsafe { self._yield_write_shard(idx) };

        if let Some(bucket) = shard.find(hash, |(k, _v)| key == k.borrow()) {
            unsafe {
                let (k, v) = bucket.as_ref();
                Some(RefMut::new(shard, k, v.as_ptr()))
            }
        } else {
            None
        }
    }

    fn _try_get<Q>(&'a self, key: &Q) -> TryResult<Ref<'a, K, V>>
    where
        K: Borrow<Q>,
        Q: Hash + Eq + ?Sized,
    {
        let hash = self.hash_u64(&key);

        let idx = self.determine_shard(hash as usize);

        let shard = match unsafe { self._try_yield_read_shard(idx) } {
            Some(shard) => shard,
            None => return TryResult::Locked,
        };

        if let Some(bucket) = shard.find(hash, |(k, _v)| key == k.borrow()) {
            unsafe {
                let (k, v) = bucket.as_ref();
                TryResult::Present(Ref::new(shard, k, v.as_ptr()))
            }
        } else {
            TryResult::Absent
        }
    }

    fn _try_get_mut<Q>(&'a self, key: &Q) -> TryResult<RefMut<'a, K, V>>
    where
        K: Borrow<Q>,
        Q: Hash + Eq + ?Sized,
    {
        let hash = self.hash_u64(&key);

        let idx = self.determine_shard(hash as usize);

        let shard = match unsafe { self._try_yield_write_shard(idx) } {
            Some(shard) => shard,
            None => return TryResult::Locked,
        };

        if let Some(bucket) = shard.find(hash, |(k, _v)| key == k.borrow()) {
            unsafe {
                let (k, v) = bucket.as_ref();
                TryResult::Present(RefMut::new(shard, k, v.as_ptr()))
            }
        } else {
            TryResult::Absent
        }
    }

    fn _shrink_to_fit(&self) {
        self.shards.iter().for_each(|s| {
            let mut shard = s.write();
            let size = shard.len();
            shard.shrink_to(size, |(k, _v)| { verif_hooks::hash_with(&self.hasher, k) })
        });
    }

    fn _retain(&self, mut f: impl FnMut(&K, &mut V) -> bool) {
        self.shards.iter().for_each(|s| {
            unsafe {
                let mut shard = s.write();
                // Here we only use `iter` as a temporary, preventing use-after-free
                for bucket in shard.iter() {
                    let (k, v) = bucket.as_mut();
                    if !f(&*k, v.get_mut()) {
                        shard.erase(bucket);
                    }
                }
            }
        });
    }

    fn _len(&self) -> usize {
        self.shards.iter().map(|s| s.read().len()).sum()
    }

    fn _capacity(&self) -> usize {
        self.shards.iter().map(|s| s.read().capacity()).sum()
    }

    fn _alter<Q>(&self, key: &Q, f: impl FnOnce(&K, V) -> V)
    where
        K: Borrow<Q>,
        Q: Hash + Eq + ?Sized,
    {
        if let Some(mut r) = self.get_mut(key) {
            util::map_in_place_2(r.pair_mut(), f);
        }
    }

    fn _alter_all(&self, mut f: impl FnMut(&K, V) -> V) {
        self.iter_mut()
            .for_each(|mut m| util::map_in_place_2(m.pair_mut(), &mut f));
    }

    fn _view<Q, R>(&self, key: &Q, f: impl FnOnce(&K, &V) -> R) -> Option<R>
    where
        K: Borrow<Q>,
        Q: Hash + Eq + ?Sized,
    {
        self.get(key).map(|r| {
            let (k, v) = r.pair();
            f(k, v)
        })
    }

    fn _entry(&'a self, key: K) -> Entry<'a, K, V> {
        let hash = self.hash_u64(&key);

        let idx = self.determine_shard(hash as usize);

        let mut shard = unsafe { self._yield_write_shard(idx) };

        match shard.find_or_find_insert_slot(
            hash,
            |(k, _v)| k == &key,
            |(k, _v)| { verif_hooks::hash_with(&self.hasher, k) },
        ) {
            Ok(elem) => Entry::Occupied(unsafe { OccupiedEntry::new(shard, key, elem) }),
            Err(slot) => Entry::Vacant(unsafe { VacantEntry::new(shard, key, hash, slot) }),
        }
    }

    fn _try_entry(&'a self, key: K) -> Option<Entry<'a, K, V>> {
        let hash = self.hash_u64(&key);

        let idx = self.determine_shard(hash as usize);

        let mut shard = match unsafe { self._try_yield_write_shard(idx) } {
            Some(shard) => shard,
            None => return None,
        };

        match shard.find_or_find_insert_slot(
            hash,
            |(k, _v)| k == &key,
            |(k, _v)| { verif_hooks::hash_with(&self.hasher, k) },
        ) {
            Ok(elem) => Some(Entry::Occupied(unsafe {
                OccupiedEntry::new(shard, key, elem)
            })),
            Err(slot) => Some(Entry::Vacant(unsafe {
                VacantEntry::new(shard, key, hash, slot)
            })),
        }
    }

    fn _hasher(&self) -> S {
        self.hasher.clone()
    }
}

impl<K: Eq + Hash + fmt::Debug, V: fmt::Debug, S: BuildHasher + Clone> fmt::Debug
    for DashMap<K, V, S>
{
    fn fmt(&self, f: &mut fmt::Formatter<'_>) -> fmt::Result {
        let mut pmap = f.debug_map();

        for r in self {
            let (k, v) = r.pair();

            pmap.entry(k, v);
        }

        pmap.finish()
    }
}

impl<'a, K: 'a + Eq + Hash, V: 'a, S: BuildHasher + Clone> Shl<(K, V)> for &'a DashMap<K, V, S> {
    type Output = Option<V>;

    fn shl(self, pair: (K, V)) -> Self::Output {
        self.insert(pair.0, pair.1)
    }
}

impl<'a, K: 'a + Eq + Hash, V: 'a, S: BuildHasher + Clone, Q> Shr<&Q> for &'a DashMap<K, V, S>
where
    K: Borrow<Q>,
    Q: Hash + Eq + ?Sized,
{
    type Output = Ref<'a, K, V>;

    fn shr(self, key: &Q) -> Self::Output {
        self.get(key).unwrap()
    }
}

impl<'a, K: 'a + Eq + Hash, V: 'a, S: BuildHasher + Clone, Q> BitOr<&Q> for &'a DashMap<K, V, S>
where
    K: Borrow<Q>,
    Q: Hash + Eq + ?Sized,
{
    type Output = RefMut<'a, K, V>;

    fn bitor(self, key: &Q) -> Self::Output {
        self.get_mut(key).unwrap()
    }
}

impl<'a, K: 'a + Eq + Hash, V: 'a, S: BuildHasher + Clone, Q> Sub<&Q> for &'a DashMap<K, V, S>
where
    K: Borrow<Q>,
    Q: Hash + Eq + ?Sized,
{
    type Output = Option<(K, V)>;

    fn sub(self, key: &Q) -> Self::Output {
        self.remove(key)
    }
}

impl<'a, K: 'a + Eq + Hash, V: 'a, S: BuildHasher + Clone, Q> BitAnd<&Q> for &'a DashMap<K, V, S>
where
    K: Borrow<Q>,
    Q: Hash + Eq + ?Sized,
{
    type Output = bool;

    fn bitand(self, key: &Q) -> Self::Output {
        self.contains_key(key)
    }
}

impl<K: Eq + Hash, V, S: BuildHasher + Clone> IntoIterator for DashMap<K, V, S> {
    type Item = (K, V);

    type IntoIter = OwningIter<K, V, S>;

    fn into_iter(self) -> Self::IntoIter {
        OwningIter::new(self)
    }
}

impl<'a, K: Eq + Hash, V, S: BuildHasher + Clone> IntoIterator for &'a DashMap<K, V, S> {
    type Item = RefMulti<'a, K, V>;

    type IntoIter = Iter<'a, K, V, S, DashMap<K, V, S>>;

    fn into_iter(self) -> Self::IntoIter {
        self.iter()
    }
}

impl<K: Eq + Hash, V, S: BuildHasher + Clone> Extend<(K, V)> for DashMap<K, V, S> {
    fn extend<I: IntoIterator<Item = (K, V)>>(&mut self, intoiter: I) {
        for pair in intoiter.into_iter() {
            self.insert(pair.0, pair.1);
        }
    }
}

impl<K: Eq + Hash, V, S: BuildHasher + Clone + Default> FromIterator<(K, V)> for DashMap<K, V, S> {
    fn from_iter<I: IntoIterator<Item = (K, V)>>(intoiter: I) -> Self {
        let mut map = DashMap::default();

        map.extend(intoiter);

        map
    }
}

#[cfg(feature = "typesize")]
impl<K, V, S> typesize::TypeSize for DashMap<K, V, S>
where
    K: typesize::TypeSize + Eq + Hash,
    V: typesize::TypeSize,
    S: typesize::TypeSize + Clone + BuildHasher,
{
    fn extra_size(&self) -> usize {
        let shards_extra_size: usize = self
            .shards
            .iter()
            .map(|shard_lock| {
                let shard = shard_lock.read();
                let hashtable_size = shard.allocation_info().1.size();

                // Safety: The iterator is dropped before the HashTable
                let iter = unsafe { shard.iter() };
                let entry_size_iter = iter.map(|bucket| {
                    // Safety: The iterator returns buckets with valid pointers to entries
                    let (key, value) = unsafe { bucket.as_ref() };
                    key.extra_size() + value.get().extra_size()
                });

                core::mem::size_of::<CachePadded<RwLock<HashMap<K, V>>>>()
                    + hashtable_size
                    + entry_size_iter.sum::<usize>()
            })
            .sum();

        self.hasher.extra_size() + shards_extra_size
    }

    typesize::if_typesize_details! {
        fn get_collection_item_count(&self) -> Option<usize> {
            Some(self.len())
        }
    }
}

#[cfg(test)]
mod tests {
    use crate::DashMap;
    use std::collections::hash_map::RandomState;

    #[test]
    fn test_basic() {
        let dm = DashMap::new();

        dm.insert(0, 0);

        assert_eq!(dm.get(&0).unwrap().value(), &0);
    }

    #[test]
    fn test_default() {
        let dm: DashMap<u32, u32> = DashMap::default();

        dm.insert(0, 0);

        assert_eq!(dm.get(&0).unwrap().value(), &0);
    }

    #[test]
    fn test_multiple_hashes() {
        let dm: DashMap<u32, u32> = DashMap::default();

        for i in 0..100 {
            dm.insert(0, i);

            dm.insert(i, i);
        }

        for i in 1..100 {
            let r = dm.get(&i).unwrap();

            assert_eq!(i, *r.value());

            assert_eq!(i, *r.key());
        }

        let r = dm.get(&0).unwrap();

        assert_eq!(99, *r.value());
    }

    #[test]
    fn test_more_complex_values() {
        #[derive(Hash, PartialEq, Debug, Clone)]

        struct T0 {
            s: String,
            u: u8,
        }

        let dm = DashMap::new();

        let range = 0..10;

        for i in range {
            let t = T0 {
                s: i.to_string(),
                u: i as u8,
            };

            dm.insert(i, t.clone());

            assert_eq!(&t, dm.get(&i).unwrap().value());
        }
    }

    #[test]
    fn test_different_hashers_randomstate() {
        let dm_hm_default: DashMap<u32, u32, RandomState> =
            DashMap::with_hasher(RandomState::new());

        for i in 0..10 {
            dm_hm_default.insert(i, i);

            assert_eq!(i, *dm_hm_default.get(&i).unwrap().value());
        }
    }

    #[test]
    fn test_map_view() {
        let dm = DashMap::new();

        let vegetables: [String; 4] = [
            "Salad".to_string(),
            "Beans".to_string(),
            "Potato".to_string(),
            "Tomato".to_string(),
        ];

        // Give it some values
        dm.insert(0, "Banana".to_string());
        dm.insert(4, "Pear".to_string());
        dm.insert(9, "Potato".to_string());
        dm.insert(12, "Chicken".to_string());

        let potato_vegetableness = dm.view(&9, |_, v| vegetables.contains(v));
        assert_eq!(potato_vegetableness, Some(true));

        let chicken_vegetableness = dm.view(&12, |_, v| vegetables.contains(v));
        assert_eq!(chicken_vegetableness, Some(false));

        let not_in_map = dm.view(&30, |_k, _v| false);
        assert_eq!(not_in_map, None);
    }

    #[test]
    fn test_try_get() {
        {
            let map = DashMap::new();
            map.insert("Johnny", 21);

            assert_eq!(*map.try_get("Johnny").unwrap(), 21);

            let _result1_locking = map.get_mut("Johnny");

            let result2 = map.try_get("Johnny");
            assert!(result2.is_locked());
        }

        {
            let map = DashMap::new();
            map.insert("Johnny", 21);

            *map.try_get_mut("Johnny").unwrap() += 1;
            assert_eq!(*map.get("Johnny").unwrap(), 22);

            let _result1_locking = map.get("Johnny");

            let result2 = map.try_get_mut("Johnny");
            assert!(result2.is_locked());
        }
    }

    #[test]
    fn test_try_reserve() {
        let mut map: DashMap<i32, i32> = DashMap::new();
        // DashMap is empty and doesn't allocate memory
        assert_eq!(map.capacity(), 0);

        map.try_reserve(10).unwrap();

        // And now map can hold at least 10 elements
        assert!(map.capacity() >= 10);
    }

    #[test]
    fn test_try_reserve_errors() {
        let mut map: DashMap<i32, i32> = DashMap::new();

        match map.try_reserve(usize::MAX) {
            Err(_) => {}
            _ => panic!("should have raised CapacityOverflow error"),
        }
    }
}
