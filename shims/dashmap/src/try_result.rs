/// Represents the result of a non-blocking read from a [DashMap](crate::DashMap).
#[derive(Debug)]
pub enum TryResult<R> {
    /// The value was present in the map, and the lock for the shard was successfully obtained.
    Present(R),
    /// The shard wasn't locked, and the value wasn't present in the map.
    Absent,
    /// The shard was locked.
    Locked,
}

impl<R> TryResult<R> {
    /// Returns `true` if the value was present in the map, and the lock for the shard was successfully obtained.
    pub fn is_present(&self) -> bool {
        matches!(self, TryResult::Present(_))
    }

    /// Returns `true` if the shard wasn't locked, and the value wasn't present in the map.
    pub fn is_absent(&self) -> bool {
        matches!(self, TryResult::Absent)
    }

    /// Returns `true` if the shard was locked.
    pub fn is_locked(&self) -> bool {
        matches!(self, TryResult::Locked)
    }

    /// If `self` is [Present](TryResult::Present), returns the reference to the value in the map.
    /// Panics if `self` is not [Present](TryResult::Present).
    pub fn unwrap(self) -> R {
        match self {
            TryResult::Present(r) => r,
            TryResult::Locked => panic!("Called unwrap() on TryResult::Locked"),
            TryResult::Absent => panic!("Called unwrap() on TryResult::Absent"),
        }
    }

    /// If `self` is [Present](TryResult::Present), returns the reference to the value in the map.
    /// If `self` is not [Present](TryResult::Present), returns `None`.
    pub fn try_unwrap(self) -> Option<R> {
        match self {
            TryResult::Present(r) => Some(r),
            _ => None,
        }
    }
}
