#!/usr/bin/env python3
"""CPython-based extraction oracle (JSON lines on stdin/stdout).

request : {"id": n, "src": "<python source>"}
response: {"id": n, "ok": bool, "error": str|None, "defs": [...], "usages": [...], "funcs": [...]}

It applies the *documented* recognisers of pytest-language-server independently of the Rust code,
using only `ast` and `tokenize`:

 fixture      : function whose decorator list contains `fixture`, `pytest.fixture` or
                `pytest_asyncio.fixture`, bare or called (first such decorator decides the options);
                name=/scope=/autouse= keyword constants; assignment style
                `x = pytest.fixture(...)(func)`.
 test         : function named test_* at module or class level.
 usages       : parameters of tests (minus self) and of fixtures (minus self/request) - positional
                only, normal and keyword-only, WITHOUT a default value (pytest's getfuncargnames);
                string constants in pytest.mark.usefixtures(...) / mark.usefixtures(...) on
                functions, classes and in `pytestmark` (plain, list, tuple, annotated);
                indirect parametrize names.
 nothing else : function bodies, `if` blocks and other nested code are not searched.

Positions: 1-based lines; columns are given in bytes (utf-8), code points and utf-16 units.
"""
import ast
import inspect
import io
import json
import re
import sys
import tokenize


def cols(line_text, byte_col):
    """byte column -> (byte, char, utf16) columns"""
    b = line_text.encode("utf-8")[:byte_col]
    s = b.decode("utf-8", errors="ignore")
    return {"byte": byte_col, "char": len(s), "utf16": len(s.encode("utf-16-le")) // 2}


def is_fixture_deco(e):
    if isinstance(e, ast.Name):
        return e.id == "fixture"
    if isinstance(e, ast.Attribute):
        return isinstance(e.value, ast.Name) and e.value.id in ("pytest", "pytest_asyncio") and e.attr == "fixture"
    if isinstance(e, ast.Call):
        return is_fixture_deco(e.func)
    return False


def is_mark(e, marker):
    if isinstance(e, ast.Call):
        return is_mark(e.func, marker)
    if isinstance(e, ast.Attribute):
        if e.attr != marker:
            return False
        v = e.value
        if isinstance(v, ast.Attribute):
            return v.attr == "mark" and isinstance(v.value, ast.Name) and v.value.id == "pytest"
        if isinstance(v, ast.Name):
            return v.id == "mark"
    return False


def kw_const(call, name):
    for kw in call.keywords:
        if kw.arg == name and isinstance(kw.value, ast.Constant):
            return kw.value.value
    return None


SCOPES = ("function", "class", "module", "package", "session")


class Extractor:
    def __init__(self, src):
        self.src = src
        # the same line notion as ast/tokenize: \n, \r\n and \r end a line (str.splitlines would
        # also split on form feeds, \x85, \u2028 ...)
        self.lines = re.split(r"\r\n|\n|\r", src)
        self.defs = []
        self.usages = []
        self.funcs = []
        self.string_tokens = {}
        self.name_tokens = {}
        try:
            for tok in tokenize.generate_tokens(io.StringIO(src).readline):
                if tok.type == tokenize.STRING:
                    self.string_tokens[(tok.start[0], tok.start[1])] = tok
                elif tok.type == tokenize.NAME:
                    self.name_tokens.setdefault(tok.start[0], []).append(tok)
        except (tokenize.TokenError, IndentationError, SyntaxError):
            pass

    def line(self, n):
        return self.lines[n - 1] if 0 < n <= len(self.lines) else ""

    def char_to_byte(self, lineno, char_col):
        return len(self.line(lineno)[:char_col].encode("utf-8"))

    def span(self, lineno, byte_start, byte_end):
        lt = self.line(lineno)
        return {"line": lineno, "start": cols(lt, byte_start), "end": cols(lt, byte_end)}

    # ---- string constants (usefixtures / indirect) -------------------------------------------
    def string_content_span(self, node):
        """Span of the *content* of a string constant: inside the quotes, prefix excluded.
        Returns None when the node is not a single plain string token on one line
        (implicit concatenation, multi-line triple quoted): position then unspecified."""
        key = (node.lineno, len(self.line(node.lineno).encode("utf-8")[: node.col_offset].decode("utf-8", "ignore")))
        tok = self.string_tokens.get(key)
        if tok is None or tok.start[0] != tok.end[0]:
            return None, "multi-token-or-line"
        if (node.end_lineno, node.end_col_offset) != (tok.end[0], self.char_to_byte(tok.end[0], tok.end[1])):
            return None, "implicit-concatenation"
        text = tok.string
        i = 0
        while i < len(text) and text[i] not in "'\"":
            i += 1
        prefix = text[:i]
        q = text[i : i + 3] if text[i : i + 3] in ('"""', "'''") else text[i]
        form = "plain" if (prefix == "" and len(q) == 1) else ("prefixed" if len(q) == 1 else "triple")
        start_char = tok.start[1] + i + len(q)
        end_char = tok.end[1] - len(q)
        if any(c in prefix.lower() for c in "rbf") or "\\" in text:
            form = "escaped-or-raw"
        return (self.span(tok.start[0], self.char_to_byte(tok.start[0], start_char), self.char_to_byte(tok.start[0], end_char)), form)

    def add_string_usage(self, node, kind, owner, name=None, whole=None):
        sp, form = self.string_content_span(node)
        self.usages.append(
            {
                "name": node.value if name is None else name,
                "kind": kind,
                "owner": owner,
                "line": node.lineno,
                "span": sp,
                "form": form,
                "whole_string": whole,
            }
        )

    def usefixtures_of(self, deco, kind, owner):
        if isinstance(deco, ast.Call) and is_mark(deco.func, "usefixtures"):
            for a in deco.args:
                if isinstance(a, ast.Constant) and isinstance(a.value, str):
                    self.add_string_usage(a, kind, owner)

    def usefixtures_in_expr(self, e, kind):
        if isinstance(e, ast.Call):
            self.usefixtures_of(e, kind, None)
        elif isinstance(e, (ast.List, ast.Tuple)):
            for x in e.elts:
                self.usefixtures_in_expr(x, kind)

    def indirect_of(self, deco, owner):
        if not (isinstance(deco, ast.Call) and is_mark(deco.func, "parametrize")):
            return
        ind = None
        for kw in deco.keywords:
            if kw.arg == "indirect":
                ind = kw.value
                break
        if ind is None or not deco.args:
            return
        first = deco.args[0]
        if not (isinstance(first, ast.Constant) and isinstance(first.value, str)):
            # tuple/list argnames are legal pytest but not documented here: unspecified
            return
        names = [s.strip() for s in first.value.split(",")]
        if isinstance(ind, ast.Constant) and ind.value is True:
            sp, form = self.string_content_span(first)
            off = 0
            for part in first.value.split(","):
                n = part.strip()
                lead = len(part) - len(part.lstrip())
                span = None
                if sp is not None and form in ("plain", "prefixed", "triple"):
                    # the name sits inside the argnames string: exact span = the name itself
                    lt = self.line(sp["line"])
                    content_start_char = sp["start"]["char"]
                    a = self.char_to_byte(sp["line"], content_start_char + off + lead)
                    b = self.char_to_byte(sp["line"], content_start_char + off + lead + len(n))
                    span = self.span(sp["line"], a, b)
                self.usages.append({"name": n, "kind": "indirect", "owner": owner, "line": first.lineno, "span": span, "form": form, "whole_string": first.value})
                off += len(part) + 1
        elif isinstance(ind, ast.List):
            for e in ind.elts:
                if isinstance(e, ast.Constant) and isinstance(e.value, str) and e.value in names:
                    self.add_string_usage(e, "indirect", owner)

    # ---- functions ----------------------------------------------------------------------------
    def params(self, fn):
        a = fn.args
        out = []
        pos = list(a.posonlyargs) + list(a.args)
        defaults = [None] * (len(pos) - len(a.defaults)) + list(a.defaults)
        for arg, d in zip(pos, defaults):
            kind = "posonly" if arg in a.posonlyargs else "normal"
            out.append((arg, kind, d is not None))
        for arg, d in zip(a.kwonlyargs, a.kw_defaults):
            out.append((arg, "kwonly", d is not None))
        return out

    def func_name_span(self, fn):
        # the NAME token following `def` on the def line
        toks = self.name_tokens.get(fn.lineno, [])
        for i, t in enumerate(toks):
            if t.string == "def" and i + 1 < len(toks):
                n = toks[i + 1]
                return self.span(fn.lineno, self.char_to_byte(fn.lineno, n.start[1]), self.char_to_byte(fn.lineno, n.end[1]))
        return None

    def yields(self, fn):
        found = []

        class V(ast.NodeVisitor):
            def visit_FunctionDef(s, n):
                pass

            visit_AsyncFunctionDef = visit_FunctionDef
            visit_Lambda = visit_FunctionDef
            visit_ClassDef = visit_FunctionDef

            def visit_Yield(s, n):
                found.append((n.lineno, n.col_offset))
                s.generic_visit(n)

            visit_YieldFrom = visit_Yield

        for st in fn.body:
            V().visit(st)
        found.sort()
        return found

    def ret_info(self, fn, is_gen):
        r = fn.returns
        if r is None:
            return None

        def kind_ok(e):
            if isinstance(e, ast.Name):
                return True
            if isinstance(e, ast.Attribute):
                return kind_ok(e.value)
            if isinstance(e, ast.Subscript):
                return kind_ok(e.value) and kind_ok(e.slice)
            if isinstance(e, ast.Tuple):
                return all(kind_ok(x) for x in e.elts)
            if isinstance(e, ast.BinOp) and isinstance(e.op, ast.BitOr):
                return kind_ok(e.left) and kind_ok(e.right)
            if isinstance(e, ast.Constant):
                return e.value is None or isinstance(e.value, str)
            return False

        target = r
        if is_gen and isinstance(r, ast.Subscript):
            target = r.slice.elts[0] if isinstance(r.slice, ast.Tuple) and r.slice.elts else r.slice
        text = ast.unparse(target)
        return {"text": text, "specified": kind_ok(target), "is_string": isinstance(target, ast.Constant) and isinstance(target.value, str), "string_value": target.value if isinstance(target, ast.Constant) and isinstance(target.value, str) else None}

    def docstring(self, fn):
        if fn.body and isinstance(fn.body[0], ast.Expr) and isinstance(fn.body[0].value, ast.Constant) and isinstance(fn.body[0].value.value, str):
            raw = fn.body[0].value.value
            # tabs only matter (cleandoc expands them) on lines that have text; a whitespace-only
            # line is blank either way
            return {"clean": inspect.cleandoc(raw), "raw": raw, "has_tab": any("\t" in l for l in raw.splitlines() if l.strip())}
        return None

    def visit_function(self, fn, in_class):
        owner = fn.name
        for d in fn.decorator_list:
            self.usefixtures_of(d, "usefixtures", owner)
        for d in fn.decorator_list:
            self.indirect_of(d, owner)
        deco = next((d for d in fn.decorator_list if is_fixture_deco(d)), None)
        is_fixture = deco is not None
        is_test = fn.name.startswith("test_")
        ps = self.params(fn)
        scope = "function"
        if is_fixture:
            name = fn.name
            autouse = False
            scope_raw = None
            if isinstance(deco, ast.Call):
                n = kw_const(deco, "name")
                if isinstance(n, str):
                    name = n
                s = kw_const(deco, "scope")
                if isinstance(s, str):
                    scope_raw = s
                    if s in SCOPES:
                        scope = s
                autouse = kw_const(deco, "autouse") is True
            ys = self.yields(fn)
            deps = []
            for arg, kind, has_default in ps:
                if arg.arg in ("self", "request"):
                    continue
                deps.append({"name": arg.arg, "kind": kind, "has_default": has_default, "annotated": arg.annotation is not None})
            self.defs.append(
                {
                    "style": "decorator",
                    "name": name,
                    "func_name": fn.name,
                    "line": fn.lineno,
                    "end_line": fn.end_lineno,
                    "name_span": self.func_name_span(fn),
                    "scope": scope,
                    "scope_raw": scope_raw,
                    "autouse": autouse,
                    "deps": deps,
                    "is_generator": bool(ys),
                    "yield_line": ys[0][0] if ys else None,
                    "yield_is_statement": self.first_yield_is_statement(fn, ys),
                    "ret": self.ret_info(fn, bool(ys)),
                    "doc": self.docstring(fn),
                    "is_async": isinstance(fn, ast.AsyncFunctionDef),
                    "in_class": in_class,
                    "decorator_line": deco.lineno,
                }
            )
        if is_fixture or is_test:
            for arg, kind, has_default in ps:
                if arg.arg == "self":
                    continue
                if arg.arg == "request":
                    role = "request"
                else:
                    role = "param"
                lt = self.line(arg.lineno)
                self.usages.append(
                    {
                        "name": arg.arg,
                        "kind": "fixture-param" if is_fixture else "test-param",
                        "owner": owner,
                        "line": arg.lineno,
                        "span": self.span(arg.lineno, arg.col_offset, arg.col_offset + len(arg.arg.encode("utf-8"))),
                        "form": "identifier",
                        "param_kind": kind,
                        "has_default": has_default,
                        "role": role,
                        "also_test": is_fixture and is_test,
                    }
                )
        body = fn.body
        self.funcs.append(
            {
                "name": fn.name,
                "line": fn.lineno,
                "end_line": fn.end_lineno,
                "is_fixture": is_fixture,
                "is_test": is_test,
                "scope": scope,
                "params": [a.arg for a, _, _ in ps],
                "body_first_line": body[0].lineno if body else fn.lineno,
                "sig_end_line": (body[0].lineno - 1) if body and body[0].lineno > fn.lineno else fn.lineno,
                "in_class": in_class,
                "decorator_first_line": min([d.lineno for d in fn.decorator_list], default=fn.lineno),
                "returns_end": [fn.returns.end_lineno, fn.returns.end_col_offset] if fn.returns is not None else None,
            }
        )

    def first_yield_is_statement(self, fn, ys):
        """True when the first yield is an expression statement of its own (`yield x`)"""
        if not ys:
            return None
        first = ys[0]

        res = [False]

        class V(ast.NodeVisitor):
            def visit_FunctionDef(s, n):
                pass

            visit_AsyncFunctionDef = visit_FunctionDef
            visit_Lambda = visit_FunctionDef
            visit_ClassDef = visit_FunctionDef

            def visit_Expr(s, n):
                if isinstance(n.value, (ast.Yield, ast.YieldFrom)) and (n.value.lineno, n.value.col_offset) == first:
                    res[0] = True
                s.generic_visit(n)

        for st in fn.body:
            V().visit(st)
        return res[0]

    def visit_stmt(self, st, in_class):
        if isinstance(st, ast.Assign):
            v = st.value
            if isinstance(v, ast.Call) and isinstance(v.func, ast.Call) and is_fixture_deco(v.func.func) and not isinstance(v.func.func, ast.Call):
                inner = v.func
                for t in st.targets:
                    if isinstance(t, ast.Name):
                        name = t.id
                        n = kw_const(inner, "name")
                        scope = kw_const(inner, "scope")
                        self.defs.append(
                            {
                                "style": "assignment",
                                "name": name,
                                "name_kw": n if isinstance(n, str) else None,
                                "scope_kw": scope if isinstance(scope, str) else None,
                                "autouse_kw": kw_const(inner, "autouse") is True,
                                "func_name": name,
                                "line": st.lineno,
                                "end_line": st.end_lineno,
                                "name_span": self.span(t.lineno, t.col_offset, t.end_col_offset),
                                "scope": "function",
                                "autouse": False,
                                "deps": [],
                                "is_generator": False,
                                "yield_line": None,
                                "ret": None,
                                "doc": None,
                                "in_class": in_class,
                            }
                        )
            if any(isinstance(t, ast.Name) and t.id == "pytestmark" for t in st.targets):
                self.usefixtures_in_expr(st.value, "pytestmark")
        elif isinstance(st, ast.AnnAssign):
            if isinstance(st.target, ast.Name) and st.target.id == "pytestmark" and st.value is not None:
                self.usefixtures_in_expr(st.value, "pytestmark")
        elif isinstance(st, ast.ClassDef):
            for d in st.decorator_list:
                self.usefixtures_of(d, "class-usefixtures", st.name)
            for s in st.body:
                self.visit_stmt(s, True)
        elif isinstance(st, (ast.FunctionDef, ast.AsyncFunctionDef)):
            self.visit_function(st, in_class)

    def run(self):
        tree = ast.parse(self.src)
        for st in tree.body:
            self.visit_stmt(st, False)
        toks = []
        for ln, ts in sorted(self.name_tokens.items()):
            lt = self.line(ln)
            for t in ts:
                a = cols(lt, self.char_to_byte(ln, t.start[1]))
                b = cols(lt, self.char_to_byte(ln, t.end[1]))
                toks.append([ln, a["utf16"], b["utf16"], t.string, a["byte"], b["byte"]])
        lens = [len(l.encode("utf-16-le")) // 2 for l in self.lines]
        return {"ok": True, "error": None, "defs": self.defs, "usages": self.usages, "funcs": self.funcs, "nlines": len(self.lines), "name_tokens": toks, "line_lens16": lens}


def handle(req):
    src = req.get("src", "")
    try:
        res = Extractor(src).run()
    except (SyntaxError, ValueError, RecursionError, MemoryError) as e:
        res = {"ok": False, "error": "%s: %s" % (type(e).__name__, e), "defs": [], "usages": [], "funcs": []}
    res["id"] = req.get("id")
    return res


def main():
    out = sys.stdout
    for line in sys.stdin:
        line = line.strip()
        if not line:
            continue
        try:
            req = json.loads(line)
        except json.JSONDecodeError as e:
            out.write(json.dumps({"ok": False, "error": "bad request: %s" % e}) + "\n")
            out.flush()
            continue
        if req.get("op") == "parse_ok":
            try:
                ast.parse(req.get("src", ""))
                r = {"id": req.get("id"), "ok": True}
            except (SyntaxError, ValueError, RecursionError, MemoryError) as e:
                r = {"id": req.get("id"), "ok": False, "error": str(e)}
            out.write(json.dumps(r) + "\n")
        elif req.get("op") == "signature":
            # which functions have which parameters (quick-fix round trip)
            try:
                t = ast.parse(req.get("src", ""))
                fs = []
                for n in ast.walk(t):
                    if isinstance(n, (ast.FunctionDef, ast.AsyncFunctionDef)):
                        a = n.args
                        fs.append({"name": n.name, "line": n.lineno, "params": [x.arg for x in list(a.posonlyargs) + list(a.args) + list(a.kwonlyargs)]})
                r = {"id": req.get("id"), "ok": True, "funcs": fs}
            except (SyntaxError, ValueError, RecursionError, MemoryError) as e:
                r = {"id": req.get("id"), "ok": False, "error": str(e)}
            out.write(json.dumps(r) + "\n")
        else:
            out.write(json.dumps(handle(req)) + "\n")
        out.flush()


if __name__ == "__main__":
    main()
