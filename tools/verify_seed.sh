#!/bin/bash
# tools/verify_seed.sh <seed-dir>...   confirms each seeded change in a scratch worktree:
# applies, builds, existing suite passes with it, demo fails with it and passes without it.
WT=${WT:-/tmp/wt/verify}
if [ ! -d $WT ]; then
  git -C /repo worktree add -q --detach $WT HEAD || exit 3
  mkdir -p $WT/target && cp -r /repo/target/debug $WT/target/debug
fi
ARGS=(); for a in "$@"; do ARGS+=("$(readlink -f "$a")"); done
for D in "${ARGS[@]}"; do
  N=$(basename $D)
  P=$D/patch.diff; [ -f $D/patch.rebased.diff ] && P=$D/patch.rebased.diff
  cd $WT && git checkout -q --detach $(git -C /repo rev-parse HEAD) && git checkout -q -- . && rm -f tests/demo_test.rs
  R="$N:"
  git apply --check $P 2>/dev/null || { echo "$R patch does not apply"; continue; }
  # demo without patch
  if [ -f $D/demo_test.rs ]; then
    cp $D/demo_test.rs tests/demo_test.rs
    cargo test --offline --test demo_test >$WT-$N-clean.log 2>&1 && R="$R demo-clean=PASS" || R="$R demo-clean=FAIL"
    git apply $P
    cargo test --offline --test demo_test >$WT-$N-patched.log 2>&1 && R="$R demo-patched=PASS" || R="$R demo-patched=FAIL"
    rm -f tests/demo_test.rs
  else
    git apply $P; R="$R (no demo_test.rs)"
  fi
  S=$(cargo nextest run --workspace --no-fail-fast --test-threads 8 --offline 2>&1 | grep -E "Summary|tests run" | tail -1)
  R="$R suite=[$S]"
  git checkout -q -- .
  echo "$R"
done
