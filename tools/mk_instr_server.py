#!/usr/bin/env python3
"""Writes /verif/sched/server/Cargo.toml: the real server binary built against shims/dashmap."""
import re, shutil
src = open('/repo/Cargo.toml').read()
m = re.search(r'\[dependencies\]\n(.*?)(\n\[|\Z)', src, re.S)
deps = m.group(1).strip() if m else ''
import os
os.makedirs('/verif/sched/server', exist_ok=True)
out = f'''[package]
name = "pls-instr"
version = "0.0.0"
edition = "2021"

[[bin]]
name = "pls-instr"
path = "/repo/src/main.rs"

[dependencies]
{deps}

[patch.crates-io]
dashmap = {{ path = "../../shims/dashmap" }}

[profile.release]
debug-assertions = false
overflow-checks = false
debug = 1

[workspace]
'''
open('/verif/sched/server/Cargo.toml', 'w').write(out)
import os
os.makedirs('/verif/sched/server/.cargo', exist_ok=True)
open('/verif/sched/server/.cargo/config.toml', 'w').write('[net]\noffline = true\n')
if not os.path.exists('/verif/sched/server/Cargo.lock'):
    shutil.copy('/repo/Cargo.lock', '/verif/sched/server/Cargo.lock')
