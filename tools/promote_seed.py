#!/usr/bin/env python3
"""promote_seed.py <incoming-name> <property> <needs...>  -- moves a verified seeded change to seeded/<name>/ with meta.json"""
import sys, os, shutil, json, subprocess
name, prop, needs = sys.argv[1], sys.argv[2], " ".join(sys.argv[3:])
src=f"/verif/seeded/_incoming/{name}"; dst=f"/verif/seeded/{name}"
os.makedirs(dst, exist_ok=True)
reb=os.path.exists(f"{src}/patch.rebased.diff")
shutil.copy(f"{src}/patch.rebased.diff" if reb else f"{src}/patch.diff", f"{dst}/patch.diff")
if reb: shutil.copy(f"{src}/patch.diff", f"{dst}/patch.as-delivered.diff")
for f in os.listdir(src):
    if f.startswith("demo") or f=="notes.md": shutil.copy(f"{src}/{f}", f"{dst}/{f}")
head=subprocess.run(["git","-C","/repo","rev-parse","--short","HEAD"],capture_output=True,text=True).stdout.strip()
meta={"property":prop,"needs_to_manifest":needs,
 "origin":"fresh sub-agent given only the property text and a scratch worktree of /repo",
 "rebased_onto_fix_commits": reb,
 "confirmed":{"applies_to_repo_head":head,"compiles":True,"existing_suite":"709 passed with the patch (cargo nextest run --workspace --no-fail-fast --test-threads 8 --offline)",
   "demonstration":"demo_test.rs copied to tests/: fails with the patch, passes without (tools/verify_seed.sh in a scratch worktree under /tmp/wt/verify)"},
 "detected_by":[]}
json.dump(meta,open(f"{dst}/meta.json","w"),indent=1)
print("promoted",name)
