#!/usr/bin/env python3
"""tools/seedrun.py [ids...] -- for every seeded change: does it still apply to /repo HEAD, and which
registered checks report a VIOLATION for it? Updates seeded/<id>/meta.json (detected_by)."""
import json, os, subprocess, sys, re
FIRST = "--first" in sys.argv
if FIRST: sys.argv.remove("--first")
ids = sys.argv[1:] or sorted(d for d in os.listdir('/verif/seeded') if not d.startswith('_'))
# checks to try per property (first the property's own check, then related ones)
RELATED = {"C01":["C01","C07"],"C02":["C02","C06","C04","C07"],"C03":["C03","C15"],"C04":["C04","C10"],"C05":["C05","C07","C14"],"C06":["C06","C07"],"C07":["C07","C06","C10"],
 "C08":["C08","C16","C07"],"C09":["C09"],"C10":["C10"],"C11":["C11","C12"],"C12":["C12"],"C13":["C13","C01"],"C14":["C14","C01","C07"],"C15":["C15","C03"],"C16":["C16","C06"],
 "C17":["C17"],"C18":["C18","C05","C07"],"C19":["C19","C06","C07"],"C20":["C20","C04"]}
def sh(c, **k): return subprocess.run(c, shell=True, capture_output=True, text=True, **k)
head = sh("git -C /repo rev-parse --short HEAD").stdout.strip()
for sid in ids:
    d = f"/verif/seeded/{sid}"; meta = json.load(open(f"{d}/meta.json"))
    prop = meta["property"]
    if meta.get("retired"):
        print(f"{sid}: retired ({meta['retired'][:80]}...)"); continue
    if sh(f"git -C /repo apply --check {d}/patch.diff").returncode != 0:
        print(f"{sid}: DOES NOT APPLY to {head}"); meta["applies_to"] = None
        json.dump(meta, open(f"{d}/meta.json","w"), indent=1); continue
    det = []
    inc = []
    sh(f"git -C /repo apply {d}/patch.diff")
    try:
        for chk in RELATED.get(prop, [prop]):
            r = sh(f"cd /verif && timeout 1200 ./vcheck {chk} quick 2>&1")
            out = r.stdout
            rc = r.returncode
            viol = "VIOLATION" in out
            msg = ""
            lines = out.splitlines()
            for i, line in enumerate(lines):
                if line.startswith("  sub-check") and i + 1 < len(lines):
                    msg = lines[i + 1].strip()[:200]; break
            print(f"{sid}: {chk} exit={rc} violation={viol} {msg}", flush=True)
            sh(f"rm -f /verif/replays/{chk}-*.json")
            if rc == 1 and viol:
                det.append({"check": chk, "tier": "quick", "first_message": msg})
                if FIRST: break
            elif rc == 2:
                inc.append(chk)
    finally:
        sh("git -C /repo checkout -- .")
    meta["applies_to"] = head
    meta["detected_by"] = det
    if inc: meta["inconclusive_in"] = inc
    json.dump(meta, open(f"{d}/meta.json","w"), indent=1)
sh("git -C /repo checkout -- .")
sh("cd /verif && ./vcheck --setup")
