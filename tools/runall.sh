#!/bin/bash
# tools/runall.sh [tier] -- run every registered check on the current tree (rewrites evidence/*.json)
TIER=${1:-quick}
cd /verif
git -C /repo diff --quiet || { echo "/repo has uncommitted changes"; exit 3; }
rm -f replays/C*.json
FAIL=0
for id in $(python3 -c "import json;print(' '.join(c['property_id'] for c in json.load(open('MANIFEST.json'))['checks']))"); do
  S=$(date +%s)
  OUT=$(./vcheck $id $TIER 2>&1); RC=$?
  E=$(( $(date +%s) - S ))
  echo "$id rc=$RC ${E}s $(echo "$OUT" | grep "^\[$id\]" | tail -1 | cut -c1-230)"
  [ $RC -ne 0 ] && { FAIL=1; echo "$OUT" | grep -A6 "VIOLATION\|INCONCL\|BUILD" | head -20; }
done
python3-vt - <<'PY'
import json,jsonschema,glob
s=json.load(open('/root/.vp/EVIDENCE.schema.json'))
bad=0
for f in sorted(glob.glob('/verif/evidence/*.json')):
    try: jsonschema.validate(json.load(open(f)), s)
    except Exception as e: bad+=1; print('INVALID', f, str(e)[:120])
print('evidence files valid' if not bad else f'{bad} invalid evidence files')
PY
exit $FAIL
