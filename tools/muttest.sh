#!/bin/bash
# tools/muttest.sh <patch> <ID> [tier]  -- apply a patch to /repo, run the check, always revert.
P=$(readlink -f "$1"); ID=$2; TIER=${3:-quick}
cd /repo || exit 3
git diff --quiet || { echo "/repo dirty"; exit 3; }
git apply "$P" || { echo "patch does not apply"; exit 3; }
cd /verif
trap 'git -C /repo checkout -- . ; echo "muttest interrupted: /repo restored"' INT TERM
OUT=$(timeout 900 ./vcheck $ID $TIER 2>&1); RC=$?
echo "$OUT" | grep -E "VIOLATION|BUILD FAILURE|^\[C|INCONCLUSIVE" | head -5
echo "$OUT" | grep -A3 "sub-check" | head -8
git -C /repo checkout -- . 
rm -f /verif/replays/${ID}-*.json
echo "exit=$RC"
# rebuild the harness against the restored tree so a later direct ./target/release/vengine is not stale
( cd /verif/engine && CARGO_TARGET_DIR=/verif/target RUSTFLAGS="--cfg pytest_language_server_verif" cargo build --release --offline >/dev/null 2>&1
  CARGO_TARGET_DIR=/verif/target RUSTFLAGS="--cfg pytest_language_server_verif" cargo build --release --offline --manifest-path /repo/Cargo.toml --bin pytest-language-server >/dev/null 2>&1 )
