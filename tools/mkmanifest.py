#!/usr/bin/env python3
"""Regenerates /verif/MANIFEST.json from the table below (single source of truth)."""
import json, sys
CHECKS = {
 "C01": dict(technique="model-based property testing (proptest): reference model of pytest lookup vs find_fixture_definition at every column",
             text="Generated-input search: proptest workspaces judged by an independent reference model of the shadowing order at every column of every usage token; deviations are shrunk to a replay file; one sub-check enumerates every assignment of one fixture name to 8 provider slots under 2 analysis orders (bounded-exhaustive for that space only); an LSP sub-check compares textDocument/definition with the library on the same tree. Exploration only: no absence claim.",
             note="trusted: the reference model (engine/src/model.rs), the renderer's token table, in-memory path semantics of the index", ref="DESIGN.md 4 C01", engine="vengine"),
 "C06": dict(technique="metamorphic property testing over generated edit histories (proptest): history index == fresh index of latest valid contents at every prefix",
             text="Generated-input search over edit histories; oracle is the metamorphic relation between the index reached through a history and a freshly built index (no model). Exploration only.",
             note="trusted: the implementation itself as its own reference on a fresh database; invalid texts are invalid by construction", ref="DESIGN.md 4 C06", engine="vengine"),
 "C04": dict(technique="metamorphic property testing (proptest) over workspaces and edit histories: U in refs(D) <=> goto(U) == D",
             text="Generated-input search; the oracle is the inverse relation between two queries of the implementation plus the forward/reverse index invariant; further sub-checks: edit histories, documents revisited by the scan path, LSP counters and CLI counts on materialised trees, and the real-world workspaces found offline (test suites of installed packages) scanned in place. Exploration only.",
             note="trusted: nothing beyond the harness (pure cross-query relation); LSP/CLI counters are compared in sub-checks when built", ref="DESIGN.md 4 C04", engine="vengine"),
 "C05": dict(technique="differential property testing (proptest): cross-feature agreement of the four resolvers at every usage",
             text="Generated-input search; oracle is agreement between go-to-definition, the available-fixtures view, the outgoing-call resolver and position lookup, observed through probe tests; sub-checks: documents closed before the comparison, seven LSP features per position against the real server, and every real-world pytest-style file found offline on an index of its own. Exploration only.",
             note="trusted: nothing beyond the harness (pure cross-feature comparison)", ref="DESIGN.md 4 C05", engine="vengine"),
 "C07": dict(technique="metamorphic stateful property testing (proptest op sequences): warm index with interleaved queries == cold twin with the same analyses",
             text="Generated-input search over programs of analyses, edits and queries; oracle is equality of every warm answer with the answer of a cold twin index; an on-disk sub-check adds document closes and cache eviction (2001 filler files), optionally with resident shadow packages. Exploration only.",
             note="trusted: the implementation on a fresh database as reference; in-memory paths for the main sub-check, files on disk equal to the last version sent for the close / evict sub-check", ref="DESIGN.md 4 C07", engine="vengine"),
 "C02": dict(technique="model-based property testing (proptest): reference model with self-exclusion at every column of overriding definition lines",
             text="Generated-input search over override chains; oracle is the reference model (next link outward, reference sets per link); one sub-check enumerates all 3^8 x 2 override chains over 8 provider slots (bounded-exhaustive for that space only); an LSP sub-check asks textDocument/references from both columns of every overriding definition line. Exploration only.",
             note="trusted: reference model (model.rs), renderer token table; single-line signatures", ref="DESIGN.md 4 C02", engine="vengine"),
 "C16": dict(technique="model-based property testing (proptest): reference definition-level dependency graph (SCCs, scope order) vs reported diagnostics",
             text="Generated-input search over dependency graphs spread across files; oracle is the model's definition-level graph: reported paths must be real closed chains, cyclic SCCs must be reported, scope warnings must equal the model set, reports must be stable under recomputation and, after fixture-defining modules were edited to define no fixture, equal to the reports of an index built from the resulting contents (differential, no model). Exploration only.",
             note="trusted: reference model (model.rs); Tarjan SCC in the harness", ref="DESIGN.md 4 C16", engine="vengine"),
 "C08": dict(technique="metamorphic property testing (proptest): observable snapshot invariant under permutations of the per-file analysis order",
             text="Generated-input search over workspaces with colliding names; oracle is equality of the full observable snapshot across analysis orders on fresh indexes (all orders for workspaces of <= 6 files in one sub-check), across real parallel scans in child processes with 1/2/3/5/8 workers on widened materialised workspaces (one in eight flooded with 2001 filler modules so that the file cache evicts during the scan), and across 1/3/8-worker scans of real-world package test suites. Differences are admitted entry by entry only with the signature of the two recorded findings. Exploration only.",
             note="trusted: the claim (read from scanner.rs) that the scan's schedule reaches the index only through per-file analysis order and DashMap-op interleaving (the latter is C09's)", ref="DESIGN.md 4 C08", engine="vengine"),
 "C03": dict(technique="differential property testing (proptest grammar generator) against an extraction done with CPython's ast/tokenize; plus a real-world corpus as false-alarm guard",
             text="Generated-input search over pytest-style modules; oracle is an independent extractor written on CPython's own parser applying the documented recognisers, compared record by record. Exploration only.",
             note="trusted: CPython 3.11 ast/tokenize, oracle/pyoracle.py's reading of the documented forms", ref="DESIGN.md 4 C03", engine="vengine"),
 "C11": dict(technique="property-based fuzzing (proptest; libFuzzer via cargo-fuzz in the thorough tier): grammar-generated documents with character-level mutation, stale-position histories, fault-injected trees; no-panic / one-response-per-request / fault-isolation oracles",
             text="Generated-input search for crashes: every public library entry point under catch_unwind, the real server over stdio with liveness probe, scans of trees with injected faults compared per file with the fault-free scan. Real-world files found offline are used as first versions of mutation histories too. The thorough tier adds a structure-aware libFuzzer campaign (fuzz/fz_session, 14 workers, pinned seeds). Exploration only.",
             note="trusted: release profile equals the shipped configuration; watchdog expiry without panic evidence is inconclusive", ref="DESIGN.md 4 C11", engine="vengine"),
 "C15": dict(technique="differential property testing (proptest grammar generator) of every LSP range against CPython tokenize/ast token positions in UTF-16 units",
             text="Generated-input search over position-stressing documents served by the real binary, opened once or reached by a didChange from an earlier version (shifted lines; same length and same first/last 2.5 KiB in a > 4 KiB document; unrelated text); oracle is the token table computed independently by CPython, plus structural LSP rules (inside document, start<=end, selection inside range, no duplicates). Exploration only.",
             note="trusted: CPython 3.11 tokenize/ast; the LSP client in engine/src/lsp.rs", ref="DESIGN.md 4 C15", engine="vengine"),
 "C13": dict(technique="model-based + metamorphic property testing (proptest) on materialised directory trees: selection/closure model, stand-alone analysis equality, relocation invariance",
             text="Generated-input search over directory trees, exclude sets and absolute placements; oracles: selection + import-closure model, per-file equality with a stand-alone analysis, identical root-relative results and CLI output across placements. Exploration only.",
             note="trusted: the harness's model of file selection written from the documented ignore list and pytest's default patterns; tmpfs semantics of /dev/shm", ref="DESIGN.md 4 C13", engine="vengine"),
 "C14": dict(technique="model-based property testing (proptest) of the real scanner on materialised trees with a synthetic virtualenv: import-closure / plugin / classification model vs the scanned index",
             text="Generated-input search over import graphs and virtualenv layouts; oracle is the reference model's visible set per file plus classification by where the source lives. Exploration only.",
             note="trusted: reference model (model.rs); the synthetic venv layouts mirror pip's dist-info / egg-info / editable conventions as documented in scanner.rs", ref="DESIGN.md 4 C14", engine="vengine"),
 "C20": dict(technique="differential property testing (proptest) of the real CLI binary against library reference sets on the same materialised tree; metamorphic rerun / text-vs-JSON / filter-partition relations",
             text="Generated-input search over workspaces; oracle: unused list == {project, non-autouse, empty reference set}, exit status, text == JSON, list counts == reference set sizes, filters partition, reruns byte-identical across worker counts. Exploration only.",
             note="trusted: find_references_for_definition as the server-side reference (validated against goto by C04 and against the model by C01/C02)", ref="DESIGN.md 4 C20", engine="vengine"),
 "C19": dict(technique="differential stateful property testing (proptest sessions) of the real server's publishDiagnostics against the library on a fresh index, under generated pyproject.toml configurations",
             text="Generated-input search over edit/close histories and configuration files; oracle: what the client last received for the changed document == undeclared + cycle + scope findings of a fresh index of the latest contents minus the codes the generated configuration disables; malformed / partially invalid configuration must leave the rest effective. Exploration only.",
             note="trusted: the three library collectors as reference for the findings themselves (they are judged by C16/C17); the configuration meaning is ground truth from the generator", ref="DESIGN.md 4 C19", engine="vengine"),
 "C17": dict(technique="property-based testing (proptest) with generator ground truth for flag / no-flag at exact tokens, and a round-trip oracle through the real server: apply quick fix / completion edit -> CPython parses -> parameter present in the same function only -> warning gone",
             text="Generated-input search over function shapes x expression roles x binding situations; oracle: by-construction ground truth plus the edit round trip judged with CPython's parser. Exploration only.",
             note="trusted: the generator's ground truth table (24 roles x 16 bindings) and CPython 3.11 for the edited documents", ref="DESIGN.md 4 C17", engine="vengine"),
 "C18": dict(technique="model-based property testing (proptest) of textDocument/completion of the real server on every cursor line: region ground truth from the renderer, offered set vs the reference model's visible set with parameter / self / scope filters",
             text="Generated-input search over workspaces and cursor lines (plus incomplete documents); oracle: by-construction region class per line and set algebra against the model. Exploration only.",
             note="trusted: reference model (model.rs), the renderer's region table", ref="DESIGN.md 4 C18", engine="vengine"),
 "C09": dict(technique="schedule-controlled property testing (proptest-generated schedules over an instrumented DashMap, owned scheduler at shard-lock granularity): quiescent index must equal some sequential execution",
             text="Generated-input search over file contents AND thread schedules: the harness owns the interleaving of the DashMap operations of 2-3 concurrent analyses (random and context-bounded schedules, 2-shard and all-keys-collide placement); oracle: membership in the set of sequential outcomes computed on the real code. Exploration; the thorough tier enumerates every <=2-preemption schedule of sampled task pairs.",
             note="trusted: shims/dashmap (dashmap 6.1.0 + additive hooks), the scheduler in verif_hooks.rs; atomicity between two lock acquisitions of one thread", ref="DESIGN.md 4 C09", engine="vsched"),
 "C10": dict(technique="schedule-controlled property testing (proptest-generated schedules, owned scheduler): scan-path analysis vs editor analysis of ONE file; scan-then-editor state and +1-change restoration as oracles",
             text="Generated-input search over disk/buffer texts and schedules of the scan worker and the editor analysis of the same document; oracle: quiescent state == sequential scan->editor state, and one more change == single-analysis state of a fresh index. Deterministic sub-checks without concurrency: the real scan after an editor notification for a module reached only through imports (or after mere queries), and the scan path revisiting an opened document with unchanged text (everything but the duplicated definitions of the recorded finding must be there once). Exploration only.",
             note="trusted: shims/dashmap + scheduler; the verif hook exposing the scan's no-cleanup path", ref="DESIGN.md 4 C10", engine="vsched"),
 "C12": dict(technique="property-based testing with an invariant over recorded lock nestings (instrumented DashMap), generated schedules with deterministic deadlock detection, step-bounded cyclic and layered inputs (lock-acquisition bound and an iteration bound inside the cycle search), and generated LSP sessions against the real server built on the instrumented DashMap in all-keys-collide mode",
             text="Generated-input search over workloads, schedules, cyclic inputs and pipelined server sessions; oracle: no conflicting re-entrant acquisition per map, no cycle of conflicting waits between maps, no controller deadlock, every operation within a step bound (lock acquisitions; for the lock-free dependency-cycle search its own iteration counter, hook 79d769d, limited to 10^6 on graphs of at most 800 fixtures / 3200 edges including acyclic layered graphs with 4^200 paths). Exploration only: potential deadlocks are inferred from nestings that some generated run executed. Lock-free text scans of half-typed documents run on a helper thread; one that does not return within 20 s makes the run inconclusive (exit 2), never a violation.",
             note="trusted: shims/dashmap hooks; the cfg-guarded iteration counter in compute_fixture_cycles; reader-preferring semantics of dashmap's lock (read-in-read is safe); the wrapper crate sched/server compiling the real main.rs/providers against the shim", ref="DESIGN.md 4 C12", engine="vsched"),
}
PENDING = {
}
ALL = ["C%02d" % i for i in range(1, 21)]
def main():
    checks = []
    for pid in ALL:
        if pid not in CHECKS: continue
        c = CHECKS[pid]
        checks.append({
            "property_id": pid,
            "quick_cmd": f"./vcheck {pid} quick",
            "thorough_cmd": f"./vcheck {pid} thorough",
            "evidence_file": f"evidence/{pid}.json",
            "replay_cmd_template": f"./vcheck {pid} --replay {{path}}",
            "engine": c["engine"],
            "level_claimed": {"category": "exploration", "text": c["text"], "design_ref": c["ref"]},
            "level_note": c["note"],
            "technique": c["technique"],
        })
    na = [{"property_id": p, "reason": PENDING.get(p, "check not built yet in this round (work in progress; see DESIGN.md section 9 build order) - the technique applies, nothing is claimed until the check exists")} for p in ALL if p not in CHECKS]
    m = {
        "version": 1,
        "setup_cmd": "./vcheck --setup",
        "hooks": {
            "guard": "pytest_language_server_verif",
            "enable": "RUSTFLAGS=\"--cfg pytest_language_server_verif\" (set by ./vcheck for every build)",
            "baseline_off_cmd": "cd /repo && cargo nextest run --workspace --no-fail-fast --test-threads 8 --offline || cargo test --workspace --no-fail-fast --offline",
            "source_commits": json.load(open("/verif/tools/hook_commits.json")),
            "add_only": True,
        },
        "engines": [
            {"name": "vengine", "path": "engine/", "serves_properties": sorted(k for k in CHECKS if CHECKS[k]["engine"] == "vengine"), "kind_free_text": "Rust harness linking the /repo library; proptest generators, reference model, CPython oracle, metamorphic oracles, LSP/CLI drivers"},
            {"name": "vsched", "path": "sched/", "serves_properties": sorted(k for k in CHECKS if CHECKS[k]["engine"] == "vsched"), "kind_free_text": "Rust harness linking the /repo library against shims/dashmap (instrumented dashmap 6.1.0): owned scheduler, lock-nesting log, instrumented real server"},
        ],
        "checks": checks,
        "not_applicable": na,
        "notes": "All checks: ./vcheck <ID> quick|thorough; VERIF_SEED selects the PRNG seed. Exit 0 held / 1 VIOLATION / 2 inconclusive. Known findings: known_findings.json.",
    }
    json.dump(m, open("/verif/MANIFEST.json", "w"), indent=1)
    print("wrote MANIFEST.json with", len(checks), "checks,", len(na), "not_applicable")
main()
