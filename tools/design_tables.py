#!/usr/bin/env python3
"""tools/design_tables.py -- regenerates the generated blocks of DESIGN.md (between <!-- BEGIN x --> / <!-- END x -->):
fixed-table, known-table (from known_findings.json), seed-matrix (from seeded/*/meta.json), own-mutants (from mutants/*.diff headers)."""
import json, os, re, glob
D = '/verif/DESIGN.md'
s = open(D).read()
k = json.load(open('/verif/known_findings.json'))
ent = k if isinstance(k, list) else k.get('findings', k)
def row(e):
    w = e['what'].replace('|', '\\|').replace('\n', ' ')
    if len(w) > 230: w = w[:227] + '...'
    return f"| {e['property']} | `{e['id']}` | {e.get('commit','') or '-'} | {w} |"
def table(status):
    rows = [row(e) for e in sorted(ent, key=lambda e: (e['property'], e['id'])) if e['status'] == status]
    head = "| property | id | commit | what |\n|---|---|---|---|\n"
    return f"{len(rows)} entries.\n\n" + head + "\n".join(rows)
def matrix():
    out = ["| seeded change | property | what it needs to manifest | caught by (quick tier) | first message |", "|---|---|---|---|---|"]
    for d in sorted(os.listdir('/verif/seeded')):
        p = f'/verif/seeded/{d}/meta.json'
        if d.startswith('_') or not os.path.exists(p): continue
        m = json.load(open(p))
        needs = m.get('needs_to_manifest', '').replace('|', '\\|').replace('\n', ' ')
        if len(needs) > 200: needs = needs[:197] + '...'
        if m.get('retired'):
            out.append(f"| {d} | {m['property']} | {needs} | *retired* | {m['retired'][:160].replace('|','/')} |"); continue
        det = m.get('detected_by', [])
        by = ", ".join(x['check'] for x in det) or ("**none** (" + ", ".join(m.get('inconclusive_in', [])) + " exits 2: inconclusive)" if m.get('inconclusive_in') else "**none**")
        msg = (det[0]['first_message'] if det else '').replace('|', '\\|')[:160]
        out.append(f"| {d} | {m['property']} | {needs} | {by} | {msg} |")
    return "\n".join(out)
blocks = {'fixed-table': table('fixed'), 'known-table': table('known'), 'seed-matrix': matrix()}
for name, body in blocks.items():
    pat = re.compile(rf"(<!-- BEGIN {name} -->\n).*?(<!-- END {name} -->)", re.S)
    if not pat.search(s):
        print("marker missing:", name); continue
    s = pat.sub(lambda m: m.group(1) + body + '\n' + m.group(2), s)
open(D, 'w').write(s)
print("DESIGN.md tables regenerated")
