mod cli;
mod db;
mod exh;
mod fsws;
mod gen;
mod hist;
mod lsp;
mod lspdiff;
mod model;
mod props;
mod pygen;
mod pyoracle;
mod render;
mod runner;
mod snapshot;
mod spec;

use runner::{Ctx, Tier};

fn usage() -> ! {
    eprintln!("usage: vengine check <ID> --tier quick|thorough [--seed N] [--replay FILE]\n       vengine render <replay.json>");
    std::process::exit(2)
}

fn main() {
    let args: Vec<String> = std::env::args().collect();
    if args.len() < 3 {
        usage();
    }
    match args[1].as_str() {
        "check" => {
            let id = args[2].clone();
            let mut tier = Tier::Quick;
            let mut seed: u64 = std::env::var("VERIF_SEED").ok().and_then(|s| s.parse().ok()).unwrap_or(1);
            let mut replay: Option<String> = None;
            let mut i = 3;
            while i < args.len() {
                match args[i].as_str() {
                    "--tier" => {
                        i += 1;
                        tier = match args.get(i).map(|s| s.as_str()) {
                            Some("quick") => Tier::Quick,
                            Some("thorough") => Tier::Thorough,
                            _ => usage(),
                        };
                    }
                    "--seed" => {
                        i += 1;
                        seed = args.get(i).and_then(|s| s.parse().ok()).unwrap_or_else(|| usage());
                    }
                    "--replay" => {
                        i += 1;
                        replay = Some(args.get(i).cloned().unwrap_or_else(|| usage()));
                    }
                    _ => usage(),
                }
                i += 1;
            }
            // keep panics from the code under test quiet; they are reported through the oracle
            std::panic::set_hook(Box::new(|_| {}));
            let ctx = Ctx::new(&id, tier, seed);
            let code = props::dispatch(&ctx, replay.as_deref());
            std::process::exit(code);
        }
        "scan-snapshot" => {
            std::panic::set_hook(Box::new(|_| {}));
            props::c08::scan_snapshot_main(&args[2]);
        }
        "render" => {
            let r = runner::load_replay(&args[2]).unwrap_or_else(|| usage());
            props::render_case(&r.case);
        }
        _ => usage(),
    }
}
