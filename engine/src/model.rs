//! Reference model of pytest fixture lookup, written from the property texts and pytest's
//! documented rules. Shares no code with /repo.

use crate::render::{render, Rendered, UseTok};
use crate::spec::*;
use std::collections::{BTreeMap, BTreeSet};

#[derive(Clone, Copy, Debug, PartialEq, Eq, Hash, PartialOrd, Ord, serde::Serialize)]
pub struct DefId {
    pub file: usize,
    pub line: usize,
}

/// Result of a model lookup.
#[derive(Clone, Debug, PartialEq, Eq)]
pub enum Res {
    None,
    /// exactly this definition
    One(DefId),
    /// any of these is acceptable (several plugin / several third-party definitions)
    AnyOf(BTreeSet<DefId>),
    /// the model refuses to judge (ambiguous python semantics, see DESIGN 2.2)
    Unjudged(&'static str),
}

pub struct Model {
    pub ws: WorkspaceSpec,
    pub rendered: Vec<Rendered>,
    /// per file: name -> set of definitions the file provides (own last def, else via imports)
    pub provides: Vec<BTreeMap<String, BTreeSet<DefId>>>,
    /// per file: names provided through imports only (not own)
    pub imported: Vec<BTreeMap<String, BTreeSet<DefId>>>,
    /// per file: resolved import targets (file index) in statement order
    pub import_targets: Vec<Vec<(ImportSpec, Option<usize>)>>,
}

impl Model {
    pub fn new(ws: &WorkspaceSpec) -> Model {
        let rendered: Vec<Rendered> = ws.files.iter().map(render).collect();
        let mut m = Model {
            ws: ws.clone(),
            rendered,
            provides: vec![BTreeMap::new(); ws.files.len()],
            imported: vec![BTreeMap::new(); ws.files.len()],
            import_targets: vec![Vec::new(); ws.files.len()],
        };
        m.compute_imports();
        m
    }

    pub fn resolve_module(&self, from: usize, imp: &ImportSpec) -> Option<usize> {
        let loc = &self.ws.files[from].loc;
        if loc.is_plugin() || loc.is_third_party() {
            return None;
        }
        let mut d = Some(loc.dir);
        if imp.level >= 1 && imp.form != ImportForm::Plugins {
            for _ in 1..imp.level {
                d = d.and_then(dir_parent);
            }
            let d = d?;
            self.ws.find(&FileLoc { dir: d, kind: FileKind::Helper(imp.module) })
        } else {
            // absolute: search upward
            while let Some(dd) = d {
                if let Some(i) = self.ws.find(&FileLoc { dir: dd, kind: FileKind::Helper(imp.module) }) {
                    return Some(i);
                }
                d = dir_parent(dd);
            }
            None
        }
    }

    /// own(file): name -> last definition by line
    pub fn own(&self, file: usize) -> BTreeMap<String, DefId> {
        let mut m = BTreeMap::new();
        for d in &self.rendered[file].defs {
            let e = m.entry(d.name.clone()).or_insert(DefId { file, line: d.line });
            if d.line > e.line {
                *e = DefId { file, line: d.line };
            }
        }
        m
    }

    pub fn all_defs_of(&self, file: usize, name: &str) -> Vec<DefId> {
        self.rendered[file]
            .defs
            .iter()
            .filter(|d| d.name == name)
            .map(|d| DefId { file, line: d.line })
            .collect()
    }

    fn compute_imports(&mut self) {
        let n = self.ws.files.len();
        for f in 0..n {
            let mut v = Vec::new();
            for it in &self.rendered[f].imports {
                let t = self.resolve_module(f, &it.spec);
                v.push((it.spec.clone(), t));
            }
            self.import_targets[f] = v;
        }
        // least fixpoint
        let mut provides: Vec<BTreeMap<String, BTreeSet<DefId>>> = (0..n)
            .map(|f| self.own(f).into_iter().map(|(k, v)| (k, [v].into_iter().collect())).collect())
            .collect();
        let mut imported: Vec<BTreeMap<String, BTreeSet<DefId>>> = vec![BTreeMap::new(); n];
        loop {
            let mut changed = false;
            for f in 0..n {
                let own = self.own(f);
                let mut imp: BTreeMap<String, BTreeSet<DefId>> = BTreeMap::new();
                for (spec, tgt) in &self.import_targets[f] {
                    let Some(t) = tgt else { continue };
                    if *t == f {
                        continue;
                    }
                    match &spec.form {
                        ImportForm::Star | ImportForm::Plugins => {
                            for (name, defs) in &provides[*t] {
                                imp.entry(name.clone()).or_default().extend(defs.iter().copied());
                            }
                        }
                        ImportForm::Explicit(names) => {
                            for ni in names {
                                let name = NAMES[*ni];
                                if let Some(defs) = provides[*t].get(name) {
                                    imp.entry(name.to_string()).or_default().extend(defs.iter().copied());
                                }
                            }
                        }
                    }
                }
                let mut prov: BTreeMap<String, BTreeSet<DefId>> = imp.clone();
                for (k, v) in &own {
                    prov.insert(k.clone(), [*v].into_iter().collect());
                }
                if prov != provides[f] || imp != imported[f] {
                    changed = true;
                    provides[f] = prov;
                    imported[f] = imp;
                }
            }
            if !changed {
                break;
            }
        }
        self.provides = provides;
        self.imported = imported;
    }

    fn conftest_in_dir(&self, d: usize) -> Option<usize> {
        self.ws.find(&FileLoc { dir: d, kind: FileKind::Conftest })
    }

    /// resolve(F, n, exclude) per DESIGN 3.2
    pub fn resolve(&self, file: usize, name: &str, exclude: Option<DefId>) -> Res {
        let loc = &self.ws.files[file].loc;
        // 1. same file: last definition not excluded
        let mut own: Vec<DefId> = self.all_defs_of(file, name).into_iter().filter(|d| Some(*d) != exclude).collect();
        own.sort();
        if let Some(d) = own.last() {
            return Res::One(*d);
        }
        // 1b. fixtures the test module itself imports (C14: "available exactly where the importing
        //     file makes them available"); C01's generator never produces test-module imports
        if loc.is_test() {
            if let Some(defs) = self.imported[file].get(name) {
                let cands: BTreeSet<DefId> = defs.iter().copied().filter(|d| Some(*d) != exclude).collect();
                if cands.len() == 1 {
                    return Res::One(*cands.iter().next().unwrap());
                } else if cands.len() > 1 {
                    return Res::Unjudged("several imports supply the name to one test module");
                }
            }
        }
        // 2. conftest walk (only meaningful for files under the project root)
        if !(loc.is_plugin() || loc.is_third_party()) {
            let mut d = Some(loc.dir);
            while let Some(dd) = d {
                if let Some(c) = self.conftest_in_dir(dd) {
                    let mut own: Vec<DefId> =
                        self.all_defs_of(c, name).into_iter().filter(|d| Some(*d) != exclude).collect();
                    own.sort();
                    if let Some(dfn) = own.last() {
                        return Res::One(*dfn);
                    }
                    if let Some(defs) = self.imported[c].get(name) {
                        let cands: BTreeSet<DefId> = defs.iter().copied().filter(|d| Some(*d) != exclude).collect();
                        if cands.len() == 1 {
                            return Res::One(*cands.iter().next().unwrap());
                        } else if cands.len() > 1 {
                            return Res::Unjudged("several imports supply the name to one conftest");
                        } else if !defs.is_empty() {
                            // the only imported definition is the excluded one: keep walking outward
                        }
                    }
                }
                d = dir_parent(dd);
            }
        }
        // 3. plugin
        let mut plug = BTreeSet::new();
        let mut tp = BTreeSet::new();
        for (fi, f) in self.ws.files.iter().enumerate() {
            for d in self.all_defs_of(fi, name) {
                if Some(d) == exclude {
                    continue;
                }
                if f.loc.is_plugin() {
                    plug.insert(d);
                } else if f.loc.is_third_party() {
                    tp.insert(d);
                }
            }
        }
        if plug.len() == 1 {
            return Res::One(*plug.iter().next().unwrap());
        } else if plug.len() > 1 {
            return Res::AnyOf(plug);
        }
        if tp.len() == 1 {
            return Res::One(*tp.iter().next().unwrap());
        } else if tp.len() > 1 {
            return Res::AnyOf(tp);
        }
        Res::None
    }

    /// the definition on this usage's line carrying the usage's name, if any (self-named parameter)
    pub fn self_def(&self, file: usize, u: &UseTok) -> Option<DefId> {
        let l = u.in_def_line?;
        self.rendered[file]
            .defs
            .iter()
            .find(|d| d.line == l && d.name == u.name)
            .map(|d| DefId { file, line: d.line })
    }

    pub fn usage_target(&self, file: usize, u: &UseTok) -> Res {
        self.resolve(file, &u.name, self.self_def(file, u))
    }

    /// All names defined anywhere.
    pub fn all_names(&self) -> BTreeSet<String> {
        let mut s = BTreeSet::new();
        for r in &self.rendered {
            for d in &r.defs {
                s.insert(d.name.clone());
            }
        }
        s
    }

    pub fn visible(&self, file: usize) -> BTreeMap<String, Res> {
        let mut m = BTreeMap::new();
        for n in self.all_names() {
            let r = self.resolve(file, &n, None);
            if r != Res::None {
                m.insert(n, r);
            }
        }
        m
    }

    pub fn def_tok(&self, d: DefId) -> &crate::render::DefTok {
        self.rendered[d.file].defs.iter().find(|t| t.line == d.line).expect("def tok")
    }

    pub fn all_defs(&self) -> Vec<DefId> {
        let mut v = Vec::new();
        for (fi, r) in self.rendered.iter().enumerate() {
            for d in &r.defs {
                v.push(DefId { file: fi, line: d.line });
            }
        }
        v
    }

    pub fn count_defs(&self, name: &str) -> usize {
        self.rendered.iter().map(|r| r.defs.iter().filter(|d| d.name == name).count()).sum()
    }

    pub fn path(&self, file: usize) -> String {
        self.ws.files[file].loc.path()
    }

    pub fn file_by_path(&self, p: &str) -> Option<usize> {
        self.ws.files.iter().position(|f| f.loc.path() == p)
    }
}
