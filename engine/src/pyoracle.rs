//! Long-lived python3 child answering JSON-lines requests (oracle/pyoracle.py).

use serde_json::{json, Value};
use std::cell::RefCell;
use std::io::{BufRead, BufReader, Write};
use std::process::{Child, ChildStdin, ChildStdout, Command, Stdio};

pub struct PyOracle {
    child: Child,
    stdin: ChildStdin,
    stdout: BufReader<ChildStdout>,
    next: u64,
}

impl PyOracle {
    pub fn new() -> Option<PyOracle> {
        let mut child = Command::new("python3")
            .arg("/verif/oracle/pyoracle.py")
            .stdin(Stdio::piped())
            .stdout(Stdio::piped())
            .stderr(Stdio::null())
            .spawn()
            .ok()?;
        let stdin = child.stdin.take()?;
        let stdout = BufReader::new(child.stdout.take()?);
        Some(PyOracle { child, stdin, stdout, next: 1 })
    }

    pub fn call(&mut self, mut req: Value) -> Option<Value> {
        let id = self.next;
        self.next += 1;
        req["id"] = json!(id);
        let line = serde_json::to_string(&req).ok()?;
        self.stdin.write_all(line.as_bytes()).ok()?;
        self.stdin.write_all(b"\n").ok()?;
        self.stdin.flush().ok()?;
        let mut out = String::new();
        self.stdout.read_line(&mut out).ok()?;
        let v: Value = serde_json::from_str(&out).ok()?;
        if v.get("id").and_then(|x| x.as_u64()) != Some(id) {
            return None;
        }
        Some(v)
    }

    pub fn extract(&mut self, src: &str) -> Option<Value> {
        self.call(json!({"src": src}))
    }

    pub fn parse_ok(&mut self, src: &str) -> Option<bool> {
        self.call(json!({"op": "parse_ok", "src": src})).and_then(|v| v["ok"].as_bool())
    }

    pub fn signatures(&mut self, src: &str) -> Option<Value> {
        self.call(json!({"op": "signature", "src": src}))
    }
}

impl Drop for PyOracle {
    fn drop(&mut self) {
        let _ = self.child.kill();
        let _ = self.child.wait();
    }
}

thread_local! {
    static ORACLE: RefCell<Option<PyOracle>> = RefCell::new(None);
}

/// Run `f` with this thread's oracle (started on first use). None = python oracle unavailable.
pub fn with_oracle<T>(f: impl FnOnce(&mut PyOracle) -> Option<T>) -> Option<T> {
    ORACLE.with(|o| {
        let mut o = o.borrow_mut();
        if o.is_none() {
            *o = PyOracle::new();
        }
        let r = match o.as_mut() {
            Some(p) => f(p),
            None => None,
        };
        if r.is_none() {
            // restart a broken child next time
            *o = None;
        }
        r
    })
}
