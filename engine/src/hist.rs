//! Edit histories over a workspace: generated as abstract edit operations, interpreted into
//! full-text versions (the server only ever receives full texts).

use crate::gen::{any_item, normalise, workspace, GenCfg};
use crate::render::render;
use crate::spec::*;
use proptest::collection::vec;
use proptest::prelude::*;
use serde::{Deserialize, Serialize};

#[derive(Clone, Debug, Serialize, Deserialize, PartialEq)]
pub enum Edit {
    /// remove item (index scaled into current length)
    Remove(u16),
    Insert(u16, Item),
    /// rename the k-th fixture to NAMES[n]
    Rename(u16, usize),
    /// add n comment lines at the top: every position moves down
    Shift(u8),
    Replace(Vec<Item>),
    /// change only the import statements of the file
    SetImports(Vec<ImportSpec>),
    /// send a syntactically invalid version: 0 garbage line at top, 1 garbage at end, 2 truncated signature
    Break(u8),
    /// send the current text again
    Resend,
    /// point every import statement of the file at another module (same form, same level): the
    /// names the file binds stay the same, what it re-exports changes
    Retarget(u8),
    /// the document becomes blank: 0 empty, 1 a newline, 2 spaces and a newline
    Blank(u8),
}

#[derive(Clone, Debug, Serialize, Deserialize, PartialEq)]
pub struct Step {
    pub file: u16,
    pub edit: Edit,
    /// the document is closed (didClose -> cleanup_file_cache) before this version is sent,
    /// i.e. the version arrives through a fresh didOpen
    #[serde(default)]
    pub close_first: bool,
}

#[derive(Clone, Debug, Serialize, Deserialize)]
pub struct History {
    pub ws: WorkspaceSpec,
    pub steps: Vec<Step>,
}

fn scale(i: u16, len: usize) -> usize {
    if len == 0 {
        0
    } else {
        ((i as usize) * len) >> 16
    }
}

pub fn edit(cfg: &GenCfg) -> BoxedStrategy<Edit> {
    let c = cfg.clone();
    prop_oneof![
        3 => any::<u16>().prop_map(Edit::Remove),
        3 => (any::<u16>(), any_item(&c)).prop_map(|(i, it)| Edit::Insert(i, it)),
        2 => (any::<u16>(), 0..c.names).prop_map(|(i, n)| Edit::Rename(i, n)),
        1 => (1u8..4).prop_map(Edit::Shift),
        1 => vec(any_item(&c), 0..=3).prop_map(Edit::Replace),
        2 => Just(Edit::SetImports(Vec::new())),
        3 => (0u8..3).prop_map(Edit::Break),
        1 => Just(Edit::Resend),
        2 => (1u8..4).prop_map(Edit::Retarget),
        1 => (0u8..3).prop_map(Edit::Blank),
    ]
    .boxed()
}

pub fn history(cfg: GenCfg, max_steps: usize) -> impl Strategy<Value = History> {
    let c2 = cfg.clone();
    (workspace(cfg.clone()), vec((any::<u16>(), edit(&c2), prop_oneof![5 => Just(false), 1 => Just(true)]), 1..=max_steps))
        .prop_map(|(ws, steps)| History { ws, steps: steps.into_iter().map(|(file, edit, close_first)| Step { file, edit, close_first }).collect() })
}

/// The text a file has after each step, plus validity. Interpreter state.
#[derive(Clone, Debug)]
pub struct FileState {
    pub loc: FileLoc,
    pub items: Vec<Item>,
    /// current text as last sent
    pub text: String,
    pub valid: bool,
    pub last_valid_text: String,
    /// logical time of the last syntactically valid analysis
    pub last_valid_time: usize,
    pub shift: usize,
}

pub struct Interp {
    pub cfg: GenCfg,
    pub files: Vec<FileState>,
    pub time: usize,
    /// (file index, text, valid) in the order sent, including the initial opens
    pub sent: Vec<(usize, String, bool)>,
    /// indices into `sent` that are preceded by a close of that document
    pub closed_before: Vec<usize>,
}

pub fn render_items(cfg: &GenCfg, loc: &FileLoc, items: &[Item], shift: usize) -> (Vec<Item>, String) {
    let mut ws = WorkspaceSpec { files: vec![FileSpec { loc: loc.clone(), items: items.to_vec() }], order_keys: vec![] };
    normalise(cfg, &mut ws);
    let f = ws.files.pop().unwrap();
    let mut text = String::new();
    for i in 0..shift {
        text.push_str(&format!("# shifted {}\n", i));
    }
    text.push_str(&render(&f).text);
    (f.items, text)
}

pub fn break_text(text: &str, kind: u8) -> String {
    match kind % 3 {
        0 => format!("def (:\n{}", text),
        1 => format!("{}\nclass :\n    )\n", text),
        _ => {
            // cut inside the first signature if there is one, else append an unclosed call
            if let Some(p) = text.find("\ndef ") {
                if let Some(q) = text[p..].find('(') {
                    return format!("{}\n", &text[..p + q + 1]);
                }
            }
            format!("{}\nx = foo(\n", text)
        }
    }
}

impl Interp {
    pub fn new(cfg: &GenCfg, ws: &WorkspaceSpec) -> Interp {
        let mut it = Interp { cfg: cfg.clone(), files: Vec::new(), time: 0, sent: Vec::new(), closed_before: Vec::new() };
        for f in &ws.files {
            let (items, text) = render_items(cfg, &f.loc, &f.items, 0);
            it.files.push(FileState {
                loc: f.loc.clone(),
                items,
                text: text.clone(),
                valid: true,
                last_valid_text: text,
                last_valid_time: 0,
                shift: 0,
            });
        }
        for i in ws.order() {
            it.time += 1;
            it.files[i].last_valid_time = it.time;
            let t = it.files[i].text.clone();
            it.sent.push((i, t, true));
        }
        it
    }

    /// Apply one step; returns the file index it touched.
    pub fn apply(&mut self, s: &Step) -> usize {
        let fi = scale(s.file, self.files.len());
        let cfg = self.cfg.clone();
        let st = &mut self.files[fi];
        let mut valid = true;
        match &s.edit {
            Edit::Remove(i) => {
                if !st.items.is_empty() {
                    let k = scale(*i, st.items.len());
                    st.items.remove(k);
                }
            }
            Edit::Insert(i, it) => {
                let k = scale(*i, st.items.len() + 1);
                st.items.insert(k.min(st.items.len()), it.clone());
            }
            Edit::Rename(i, n) => {
                let fx: Vec<usize> = st.items.iter().enumerate().filter(|(_, it)| matches!(it, Item::Fixture(_))).map(|(k, _)| k).collect();
                if !fx.is_empty() {
                    let k = fx[scale(*i, fx.len())];
                    if let Item::Fixture(f) = &mut st.items[k] {
                        f.name = *n;
                    }
                }
            }
            Edit::Shift(n) => st.shift = (st.shift + *n as usize) % 7,
            Edit::Replace(items) => st.items = items.clone(),
            Edit::SetImports(imps) => {
                let had: Vec<Item> = st.items.iter().filter(|i| matches!(i, Item::Import(_))).cloned().collect();
                st.items.retain(|i| !matches!(i, Item::Import(_)));
                if imps.is_empty() && had.is_empty() {
                    // toggle: add a star import of fx1
                    st.items.insert(0, Item::Import(ImportSpec { form: ImportForm::Star, module: 1, level: 1 }));
                } else {
                    for im in imps {
                        st.items.insert(0, Item::Import(im.clone()));
                    }
                }
            }
            Edit::Retarget(k) => {
                let mut any = false;
                for it in st.items.iter_mut() {
                    if let Item::Import(im) = it {
                        im.module = 1 + (im.module - 1 + *k) % STDLIB_NAMED_HELPER;
                        any = true;
                    }
                }
                if !any {
                    st.items.insert(0, Item::Import(ImportSpec { form: ImportForm::Star, module: 1 + *k % 3, level: 1 }));
                }
            }
            Edit::Blank(_) => st.items.clear(),
            Edit::Break(_) => valid = false,
            Edit::Resend => {
                valid = st.valid;
            }
        }
        let text = match &s.edit {
            Edit::Resend => st.text.clone(),
            Edit::Blank(k) => ["", "\n", "   \n"][(*k % 3) as usize].to_string(),
            Edit::Break(k) => {
                let (_, t) = render_items(&cfg, &st.loc, &st.items, st.shift);
                break_text(&t, *k)
            }
            _ => {
                let (items, t) = render_items(&cfg, &st.loc, &st.items, st.shift);
                st.items = items;
                t
            }
        };
        self.time += 1;
        st.text = text.clone();
        st.valid = valid;
        if valid {
            st.last_valid_text = text.clone();
            st.last_valid_time = self.time;
        }
        if s.close_first {
            self.closed_before.push(self.sent.len());
        }
        self.sent.push((fi, text, valid));
        fi
    }
}
