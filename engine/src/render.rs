//! Renders a FileSpec to Python text and returns, by construction, the token table.
//! ASCII only (position fidelity under non-ASCII is C15's business).

use crate::spec::*;
use serde::Serialize;

#[derive(Clone, Debug, Serialize, PartialEq, Eq)]
pub enum UseKind {
    TestParam,
    FixtureParam,
    Usefixtures,
    ClassUsefixtures,
    Pytestmark,
    Indirect,
}

#[derive(Clone, Debug, Serialize)]
pub struct DefTok {
    pub name: String,
    pub func_name: String,
    /// 1-based line of `def`
    pub line: usize,
    pub end_line: usize,
    /// byte == char == utf16 columns (ASCII)
    pub start: usize,
    pub end: usize,
    pub deps: Vec<String>,
    pub scope: u8,
    pub autouse: bool,
    pub tag: u32,
    pub yield_line: Option<usize>,
    pub item_idx: usize,
}

#[derive(Clone, Debug, Serialize)]
pub struct UseTok {
    pub name: String,
    pub line: usize,
    pub start: usize,
    pub end: usize,
    pub kind: UseKind,
    /// line of the fixture definition whose signature this parameter sits in
    pub in_def_line: Option<usize>,
    /// name of the enclosing function (test or fixture function name)
    pub in_func: Option<String>,
}

#[derive(Clone, Debug, Serialize)]
pub struct ImportTok {
    pub line: usize,
    pub spec: ImportSpec,
}

#[derive(Clone, Debug, Serialize)]
pub struct BodyTok {
    pub name: String,
    pub line: usize,
    pub start: usize,
    pub end: usize,
    pub func_line: usize,
}

#[derive(Clone, Debug, Default, Serialize)]
pub struct Rendered {
    pub body_names: Vec<BodyTok>,
    pub text: String,
    pub defs: Vec<DefTok>,
    pub uses: Vec<UseTok>,
    pub imports: Vec<ImportTok>,
    /// (func line, func name, first body line, last body line, is_fixture) for tests and fixtures
    pub funcs: Vec<FuncTok>,
}

#[derive(Clone, Debug, Serialize)]
pub struct FuncTok {
    pub name: String,
    pub line: usize,
    pub body_first: usize,
    pub body_last: usize,
    pub is_fixture: bool,
    pub is_test: bool,
    pub params: Vec<String>,
    pub scope: u8,
    pub in_class: bool,
}

struct W {
    lines: Vec<String>,
}
impl W {
    fn cur(&self) -> usize {
        self.lines.len() + 1
    }
    fn push(&mut self, s: String) {
        self.lines.push(s);
    }
}

fn module_name(imp: &ImportSpec) -> String {
    let dots = ".".repeat(imp.level as usize);
    format!("{}{}", dots, helper_mod(imp.module))
}

pub fn tag_type(tag: u32) -> String {
    format!("T{}", tag)
}

fn render_usefixtures_line(
    w: &mut W,
    out: &mut Rendered,
    indent: &str,
    names: &[usize],
    kind: UseKind,
    in_func: Option<String>,
) {
    if names.is_empty() {
        return;
    }
    let mut s = format!("{}@pytest.mark.usefixtures(", indent);
    let line = w.cur();
    for (i, n) in names.iter().enumerate() {
        if i > 0 {
            s.push_str(", ");
        }
        s.push('"');
        let start = s.len();
        s.push_str(NAMES[*n]);
        let end = s.len();
        s.push('"');
        out.uses.push(UseTok {
            name: NAMES[*n].to_string(),
            line,
            start,
            end,
            kind: kind.clone(),
            in_def_line: None,
            in_func: in_func.clone(),
        });
    }
    s.push(')');
    w.push(s);
}

fn render_test(w: &mut W, out: &mut Rendered, indent: &str, t: &TestSpec, in_class: bool) {
    let fname = format!("test_t{}", t.suffix);
    render_usefixtures_line(w, out, indent, &t.usefixtures, UseKind::Usefixtures, Some(fname.clone()));
    if !t.indirect.is_empty() {
        // @pytest.mark.parametrize("a,b", [(1, 2)], indirect=["a", "b"])
        let argnames: Vec<&str> = t.indirect.iter().map(|n| NAMES[*n]).collect();
        let mut s = format!("{}@pytest.mark.parametrize(\"{}\", [", indent, argnames.join(","));
        if argnames.len() == 1 {
            s.push_str("1");
        } else {
            s.push('(');
            s.push_str(&vec!["1"; argnames.len()].join(", "));
            s.push(')');
        }
        s.push_str("], indirect=[");
        let line = w.cur();
        for (i, n) in t.indirect.iter().enumerate() {
            if i > 0 {
                s.push_str(", ");
            }
            s.push('"');
            let start = s.len();
            s.push_str(NAMES[*n]);
            let end = s.len();
            s.push('"');
            out.uses.push(UseTok {
                name: NAMES[*n].to_string(),
                line,
                start,
                end,
                kind: UseKind::Indirect,
                in_def_line: None,
                in_func: Some(fname.clone()),
            });
        }
        s.push_str("])");
        w.push(s);
    }
    let line = w.cur();
    let mut s = format!("{}{}def {}(", indent, if t.is_async { "async " } else { "" }, fname);
    let mut params: Vec<String> = Vec::new();
    let mut first = true;
    if in_class {
        s.push_str("self");
        first = false;
    }
    // indirect names must also be parameters of the test for valid pytest code
    let mut all_params: Vec<usize> = t.params.clone();
    for n in &t.indirect {
        if !all_params.contains(n) {
            all_params.push(*n);
        }
    }
    for n in &all_params {
        if !first {
            s.push_str(", ");
        }
        first = false;
        let start = s.len();
        s.push_str(NAMES[*n]);
        let end = s.len();
        params.push(NAMES[*n].to_string());
        out.uses.push(UseTok {
            name: NAMES[*n].to_string(),
            line,
            start,
            end,
            kind: UseKind::TestParam,
            in_def_line: None,
            in_func: Some(fname.clone()),
        });
    }
    for n in &t.defaulted {
        if all_params.contains(n) || params.iter().any(|p| p == NAMES[*n]) {
            continue;
        }
        if !first {
            s.push_str(", ");
        }
        first = false;
        s.push_str(&format!("{}=None", NAMES[*n]));
        params.push(NAMES[*n].to_string());
    }
    s.push_str("):");
    w.push(s);
    let mut body_last = line + 1;
    if t.body_uses.is_empty() {
        w.push(format!("{}    pass", indent));
    } else {
        for n in &t.body_uses {
            body_last = w.cur();
            let l = format!("{}    print(", indent);
            let start = l.len();
            out.body_names.push(BodyTok { name: NAMES[*n].to_string(), line: w.cur(), start, end: start + NAMES[*n].len(), func_line: line });
            w.push(format!("{}{}.value)", l, NAMES[*n]));
        }
    }
    out.funcs.push(FuncTok {
        name: fname,
        line,
        body_first: line + 1,
        body_last,
        is_fixture: false,
        is_test: true,
        params,
        scope: 0,
        in_class,
    });
    w.push(String::new());
}

fn render_fixture(w: &mut W, out: &mut Rendered, f: &FixtureSpec, item_idx: usize) {
    let name = NAMES[f.name].to_string();
    let func_name = match f.alias_fn {
        // a fixture function may carry the test prefix (it stays a fixture)
        Some(k) if k >= 3 => format!("test_impl_{}_{}", name, k),
        Some(k) => format!("impl_{}_{}", name, k),
        None => name.clone(),
    };
    render_usefixtures_line(w, out, "", &f.usefixtures, UseKind::Usefixtures, Some(func_name.clone()));
    let mut args: Vec<String> = Vec::new();
    if f.alias_fn.is_some() {
        args.push(format!("name=\"{}\"", name));
    }
    if f.scope != 0 {
        args.push(format!("scope=\"{}\"", SCOPES[f.scope as usize]));
    }
    if f.autouse {
        args.push("autouse=True".to_string());
    }
    let deco = if !args.is_empty() {
        format!("@pytest.fixture({})", args.join(", "))
    } else {
        match f.deco % 3 {
            0 => "@pytest.fixture".to_string(),
            1 => "@pytest.fixture()".to_string(),
            _ => "@fixture".to_string(),
        }
    };
    w.push(deco);
    let line = w.cur();
    let mut s = format!("def {}(", func_name);
    let start = 4;
    let end = 4 + func_name.len();
    let mut deps = Vec::new();
    // `body / 3 == 1`: the signature is wrapped, one parameter per line with a trailing comma; the
    // parameters then sit on continuation lines of the definition
    // `body >= 6`: the whole function on one physical line (docstring and return after the colon)
    let oneline = f.body >= 6 && f.body_uses.is_empty();
    let wrapped = !oneline && (f.body / 3) % 2 == 1 && !f.deps.is_empty();
    if wrapped {
        w.push(s.clone());
        s = String::new();
    }
    for (i, d) in f.deps.iter().enumerate() {
        if wrapped {
            let l = format!("    {},", NAMES[*d]);
            deps.push(NAMES[*d].to_string());
            out.uses.push(UseTok { name: NAMES[*d].to_string(), line: w.cur(), start: 4, end: 4 + NAMES[*d].len(), kind: UseKind::FixtureParam, in_def_line: Some(line), in_func: Some(func_name.clone()) });
            w.push(l);
            continue;
        }
        if i > 0 {
            s.push_str(", ");
        }
        let st = s.len();
        s.push_str(NAMES[*d]);
        let en = s.len();
        deps.push(NAMES[*d].to_string());
        out.uses.push(UseTok {
            name: NAMES[*d].to_string(),
            line,
            start: st,
            end: en,
            kind: UseKind::FixtureParam,
            in_def_line: Some(line),
            in_func: Some(func_name.clone()),
        });
    }
    let is_gen = !oneline && f.body % 3 != 0;
    if oneline {
        s.push_str(&format!(") -> {}: \"\"\"DOC{}\"\"\"; return 1", tag_type(f.tag), f.tag));
    } else if is_gen {
        s.push_str(&format!(") -> Generator[{}, None, None]:", tag_type(f.tag)));
    } else {
        s.push_str(&format!(") -> {}:", tag_type(f.tag)));
    }
    w.push(s);
    if !oneline {
        w.push(format!("    \"\"\"DOC{}\"\"\"", f.tag));
    }
    let body_first = w.cur() - 1;
    for n in &f.body_uses {
        let l = "    setup(".to_string();
        let start = l.len();
        out.body_names.push(BodyTok { name: NAMES[*n].to_string(), line: w.cur(), start, end: start + NAMES[*n].len(), func_line: line });
        w.push(format!("{}{})", l, NAMES[*n]));
    }
    let mut yield_line = None;
    match if oneline { 9 } else { f.body % 3 } {
        9 => {}
        0 => w.push("    return 1".to_string()),
        1 => {
            yield_line = Some(w.cur());
            w.push("    yield 1".to_string());
        }
        _ => {
            w.push("    with ctx():".to_string());
            yield_line = Some(w.cur());
            w.push("        yield 1".to_string());
        }
    }
    let end_line = w.cur() - 1;
    // the name token of the definition: for aliased fixtures the *function* name span is what the
    // server reports (it searches for the function name on the def line)
    out.defs.push(DefTok {
        name: name.clone(),
        func_name: func_name.clone(),
        line,
        end_line,
        start,
        end,
        deps: deps.clone(),
        scope: f.scope,
        autouse: f.autouse,
        tag: f.tag,
        yield_line,
        item_idx,
    });
    out.funcs.push(FuncTok {
        name: func_name,
        line,
        body_first,
        body_last: end_line,
        is_fixture: true,
        is_test: false,
        params: deps,
        scope: f.scope,
        in_class: false,
    });
    w.push(String::new());
}

pub fn render(file: &FileSpec) -> Rendered {
    let mut out = Rendered::default();
    let mut w = W { lines: Vec::new() };
    w.push("import pytest".to_string());
    w.push("from pytest import fixture".to_string());
    w.push("from typing import Generator".to_string());
    w.push(String::new());
    // imports first (python semantics: later definitions in the file override them)
    for it in &file.items {
        if let Item::Import(imp) = it {
            let line = w.cur();
            match &imp.form {
                ImportForm::Star => w.push(format!("from {} import *", module_name(imp))),
                ImportForm::Explicit(ns) => {
                    let names: Vec<&str> = ns.iter().map(|n| NAMES[*n]).collect();
                    w.push(format!("from {} import {}", module_name(imp), names.join(", ")));
                }
                ImportForm::Plugins => {
                    // handled below: all pytest_plugins go into one assignment (last wins otherwise)
                    continue;
                }
            }
            out.imports.push(ImportTok { line, spec: imp.clone() });
        }
    }
    let plugins: Vec<&ImportSpec> = file
        .items
        .iter()
        .filter_map(|it| match it {
            Item::Import(imp) if imp.form == ImportForm::Plugins => Some(imp),
            _ => None,
        })
        .collect();
    if !plugins.is_empty() {
        // one assignment per group (`level`), ascending; only the last assignment is effective
        let mut groups: Vec<u8> = plugins.iter().map(|p| p.level).collect();
        groups.sort();
        groups.dedup();
        let last = *groups.last().unwrap();
        for g in groups {
            let line = w.cur();
            let members: Vec<&&ImportSpec> = plugins.iter().filter(|p| p.level == g).collect();
            let mods: Vec<String> = members.iter().map(|p| format!("\"{}\"", helper_mod(p.module))).collect();
            if mods.len() == 1 {
                match members[0].module % 3 {
                    0 => w.push(format!("pytest_plugins = [{}]", mods[0])),
                    1 => w.push(format!("pytest_plugins = {}", mods[0])),
                    _ => w.push(format!("pytest_plugins: list = [{}]", mods[0])),
                }
            } else if g % 2 == 0 {
                w.push(format!("pytest_plugins = [{}]", mods.join(", ")));
            } else {
                w.push(format!("pytest_plugins = ({})", mods.join(", ")));
            }
            if g == last {
                for p in members {
                    out.imports.push(ImportTok { line, spec: (**p).clone() });
                }
            }
        }
    }
    w.push(String::new());
    for (idx, it) in file.items.iter().enumerate() {
        match it {
            Item::Import(_) => {}
            Item::Fixture(f) => render_fixture(&mut w, &mut out, f, idx),
            Item::Test(t) => render_test(&mut w, &mut out, "", t, false),
            Item::Class { suffix, usefixtures, tests } => {
                let cname = format!("TestK{}", suffix);
                render_usefixtures_line(&mut w, &mut out, "", usefixtures, UseKind::ClassUsefixtures, None);
                w.push(format!("class {}:", cname));
                if tests.is_empty() {
                    w.push("    pass".to_string());
                    w.push(String::new());
                }
                for t in tests {
                    render_test(&mut w, &mut out, "    ", t, true);
                }
            }
            Item::Pytestmark { names, form } => {
                if names.is_empty() {
                    continue;
                }
                let line = w.cur();
                let mut s = String::new();
                let (pre, post) = match form % 4 {
                    0 => ("pytestmark = ", ""),
                    1 => ("pytestmark = [", ", pytest.mark.slow]"),
                    2 => ("pytestmark = (", ",)"),
                    _ => ("pytestmark: list = [", "]"),
                };
                s.push_str(pre);
                s.push_str("pytest.mark.usefixtures(");
                for (i, n) in names.iter().enumerate() {
                    if i > 0 {
                        s.push_str(", ");
                    }
                    s.push('"');
                    let start = s.len();
                    s.push_str(NAMES[*n]);
                    let end = s.len();
                    s.push('"');
                    out.uses.push(UseTok {
                        name: NAMES[*n].to_string(),
                        line,
                        start,
                        end,
                        kind: UseKind::Pytestmark,
                        in_def_line: None,
                        in_func: None,
                    });
                }
                s.push(')');
                s.push_str(post);
                w.push(s);
                w.push(String::new());
            }
            Item::Noise(k) => {
                match k % 4 {
                    0 => {
                        // helper with fixture-looking parameter names: must produce nothing
                        w.push(format!("def helper_{}(alpha, bravo):", idx));
                        w.push("    return alpha".to_string());
                    }
                    1 => {
                        w.push(format!("class Plain{}:", idx));
                        w.push("    def method(self, carol):".to_string());
                        w.push("        return carol".to_string());
                    }
                    2 => {
                        w.push("# @pytest.fixture".to_string());
                        w.push("# def alpha(bravo): pass".to_string());
                    }
                    _ => {
                        w.push(format!("TEXT_{} = \"@pytest.mark.usefixtures('delta') def test_x(echo)\"", idx));
                    }
                }
                w.push(String::new());
            }
        }
    }
    out.text = w.lines.join("\n");
    out.text.push('\n');
    out
}
