//! Shared helper for the server-level sub-checks: a generated workspace materialised on disk, the
//! real server scanning it, and an in-process twin database scanning the same tree.

use crate::fsws::DiskWs;
use crate::lsp::*;
use crate::model::Model;
use crate::runner::Outcome;
use crate::spec::*;
use pytest_language_server::FixtureDatabase;
use serde_json::Value;
use std::path::{Path, PathBuf};

pub struct Pair {
    pub disk: DiskWs,
    pub srv: LspSession,
    pub twin: FixtureDatabase,
    pub m: Model,
}

pub enum Infra {
    /// infrastructure trouble: not a verdict
    Inconclusive(String),
    /// the server died or stopped answering with panic evidence
    Crash(String),
}

pub fn classify(e: LspErr, what: &str) -> Infra {
    match e {
        LspErr::Dead(s) => {
            if s.contains("panicked at") {
                Infra::Crash(format!("{}: server died: {}", what, s))
            } else {
                Infra::Crash(format!("{}: server closed the connection (stderr: {})", what, s))
            }
        }
        LspErr::Timeout(s) => {
            if s.contains("panicked at") {
                Infra::Crash(format!("{}: no response, stderr shows a panic: {}", what, s))
            } else {
                Infra::Inconclusive(format!("{}: watchdog fired without panic evidence", what))
            }
        }
        LspErr::Rpc(v) => Infra::Crash(format!("{}: JSON-RPC error {}", what, v)),
    }
}

impl Pair {
    /// materialise, start the server, wait for the scan, scan the same tree in process,
    /// then open every project file (non plugin / third-party) in both.
    pub fn start(ws: &WorkspaceSpec, open_all: bool) -> Result<Pair, Infra> {
        let m = Model::new(ws);
        let disk = DiskWs::create(ws, "", None).map_err(|e| Infra::Inconclusive(format!("cannot materialise: {}", e)))?;
        let mut srv = LspSession::start(Some(&disk.root), &[]).map_err(|e| classify(e, "initialize"))?;
        srv.wait_scan_complete().map_err(|e| classify(e, "waiting for the scan"))?;
        let twin = FixtureDatabase::new();
        twin.scan_workspace(Path::new(&disk.root));
        let mut p = Pair { disk, srv, twin, m };
        if open_all {
            for fi in 0..p.m.ws.files.len() {
                let loc = p.m.ws.files[fi].loc.clone();
                if loc.is_plugin() || loc.is_third_party() {
                    continue;
                }
                let path = p.disk.path(&loc);
                let text = p.m.rendered[fi].text.clone();
                p.srv.open(&path, &text).map_err(|e| classify(e, "didOpen"))?;
                p.twin.analyze_file(PathBuf::from(&path), &text);
            }
        }
        Ok(p)
    }

    pub fn path(&self, fi: usize) -> String {
        self.disk.path(&self.m.ws.files[fi].loc)
    }

    pub fn req(&mut self, method: &str, params: Value) -> Result<Value, Infra> {
        self.srv.request(method, params).map_err(|e| classify(e, method))
    }

    pub fn rel(&self, p: &str) -> String {
        p.strip_prefix(&format!("{}/", self.disk.root)).unwrap_or(p).to_string()
    }
}

pub fn infra_outcome(i: Infra, inconclusive: &std::sync::atomic::AtomicU64) -> Outcome {
    match i {
        Infra::Crash(m) => Outcome::Fail(m),
        Infra::Inconclusive(_) => {
            inconclusive.fetch_add(1, std::sync::atomic::Ordering::SeqCst);
            Outcome::Ok
        }
    }
}

/// Location / LocationLink / array -> (path, line0, char0) of the first target
pub fn first_location(v: &Value) -> Option<(String, u64, u64)> {
    let loc = if v.is_array() { v.get(0)? } else { v };
    if loc.is_null() {
        return None;
    }
    let uri = loc.get("uri").or_else(|| loc.get("targetUri"))?.as_str()?;
    let range = loc.get("range").or_else(|| loc.get("targetSelectionRange"))?;
    Some((path_of_uri(uri), range["start"]["line"].as_u64()?, range["start"]["character"].as_u64()?))
}
