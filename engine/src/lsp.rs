//! Minimal LSP client driving the real server binary over stdio.

use serde_json::{json, Value};
use std::collections::HashMap;
use std::io::{BufRead, BufReader, Read, Write};
use std::process::{Child, ChildStdin, Command, Stdio};
use std::sync::mpsc::{channel, Receiver, RecvTimeoutError};
use std::sync::{Arc, Mutex};
use std::time::{Duration, Instant};

pub const SERVER_BIN: &str = "/verif/target/release/pytest-language-server";

#[derive(Debug)]
pub enum LspErr {
    /// the server process ended / closed stdout; stderr tail attached
    Dead(String),
    /// no answer within the watchdog (infrastructure trouble unless stderr shows a panic)
    Timeout(String),
    /// JSON-RPC error object
    Rpc(Value),
}

pub struct LspSession {
    child: Child,
    stdin: ChildStdin,
    rx: Receiver<Value>,
    next_id: i64,
    pub diags: HashMap<String, (u64, Value)>,
    pub diag_count: u64,
    pub scan_complete: bool,
    pub log: Vec<String>,
    stderr: Arc<Mutex<String>>,
    pub watchdog: Duration,
    /// notifications and responses that arrived while waiting for something else
    pending: Vec<Value>,
    pub requests_sent: u64,
}

pub fn uri_of(path: &str) -> String {
    format!("file://{}", path)
}

pub fn path_of_uri(uri: &str) -> String {
    uri.strip_prefix("file://").unwrap_or(uri).to_string()
}

impl LspSession {
    pub fn start(root: Option<&str>, envs: &[(&str, &str)]) -> Result<LspSession, LspErr> {
        Self::start_bin(SERVER_BIN, root, envs)
    }

    pub fn start_bin(bin: &str, root: Option<&str>, envs: &[(&str, &str)]) -> Result<LspSession, LspErr> {
        let mut cmd = Command::new(bin);
        cmd.stdin(Stdio::piped()).stdout(Stdio::piped()).stderr(Stdio::piped());
        cmd.env("RUST_LOG", "error").env_remove("VIRTUAL_ENV");
        for (k, v) in envs {
            cmd.env(k, v);
        }
        let mut child = cmd.spawn().map_err(|e| LspErr::Dead(format!("spawn failed: {}", e)))?;
        let stdin = child.stdin.take().unwrap();
        let stdout = child.stdout.take().unwrap();
        let mut stderr_pipe = child.stderr.take().unwrap();
        let stderr = Arc::new(Mutex::new(String::new()));
        let se = stderr.clone();
        std::thread::spawn(move || {
            let mut buf = [0u8; 4096];
            loop {
                match stderr_pipe.read(&mut buf) {
                    Ok(0) | Err(_) => break,
                    Ok(n) => {
                        let mut s = se.lock().unwrap();
                        s.push_str(&String::from_utf8_lossy(&buf[..n]));
                        if s.len() > 20000 {
                            let cut = s.len() - 10000;
                            let cut = (cut..s.len()).find(|i| s.is_char_boundary(*i)).unwrap_or(s.len());
                            *s = s[cut..].to_string();
                        }
                    }
                }
            }
        });
        let (tx, rx) = channel::<Value>();
        std::thread::spawn(move || {
            let mut r = BufReader::new(stdout);
            loop {
                let mut len: Option<usize> = None;
                loop {
                    let mut line = String::new();
                    match r.read_line(&mut line) {
                        Ok(0) | Err(_) => return,
                        Ok(_) => {}
                    }
                    let l = line.trim_end();
                    if l.is_empty() {
                        break;
                    }
                    if let Some(v) = l.strip_prefix("Content-Length:") {
                        len = v.trim().parse().ok();
                    }
                }
                let Some(n) = len else { return };
                let mut body = vec![0u8; n];
                if r.read_exact(&mut body).is_err() {
                    return;
                }
                if let Ok(v) = serde_json::from_slice::<Value>(&body) {
                    if tx.send(v).is_err() {
                        return;
                    }
                }
            }
        });
        let mut s = LspSession {
            child,
            stdin,
            rx,
            next_id: 1,
            diags: HashMap::new(),
            diag_count: 0,
            scan_complete: false,
            log: Vec::new(),
            stderr,
            watchdog: Duration::from_secs(20),
            pending: Vec::new(),
            requests_sent: 0,
        };
        let params = match root {
            Some(r) => json!({
                "processId": null,
                "rootUri": uri_of(r),
                "workspaceFolders": [{"uri": uri_of(r), "name": "ws"}],
                "capabilities": {"workspace": {"inlayHint": {"refreshSupport": true}}},
            }),
            None => json!({"processId": null, "rootUri": null, "capabilities": {}}),
        };
        s.request("initialize", params)?;
        s.notify("initialized", json!({}))?;
        Ok(s)
    }

    pub fn stderr_tail(&self) -> String {
        let s = self.stderr.lock().unwrap();
        let n = s.len();
        let start = n.saturating_sub(1500);
        let start = (start..n).find(|i| s.is_char_boundary(*i)).unwrap_or(n);
        s[start..].to_string()
    }

    pub fn panicked(&self) -> bool {
        self.stderr.lock().unwrap().contains("panicked at")
    }

    fn send(&mut self, v: &Value) -> Result<(), LspErr> {
        let body = serde_json::to_vec(v).unwrap();
        let hdr = format!("Content-Length: {}\r\n\r\n", body.len());
        self.stdin
            .write_all(hdr.as_bytes())
            .and_then(|_| self.stdin.write_all(&body))
            .and_then(|_| self.stdin.flush())
            .map_err(|e| LspErr::Dead(format!("write failed: {} / stderr: {}", e, self.stderr_tail())))
    }

    pub fn notify(&mut self, method: &str, params: Value) -> Result<(), LspErr> {
        self.send(&json!({"jsonrpc": "2.0", "method": method, "params": params}))
    }

    /// handle one incoming message; returns it when it is a response
    fn absorb(&mut self, msg: Value) -> Result<Option<Value>, LspErr> {
        if msg.get("method").is_some() {
            let method = msg["method"].as_str().unwrap_or("").to_string();
            if let Some(id) = msg.get("id") {
                // server -> client request: answer null
                let id = id.clone();
                self.send(&json!({"jsonrpc": "2.0", "id": id, "result": null}))?;
            } else if method == "textDocument/publishDiagnostics" {
                let uri = msg["params"]["uri"].as_str().unwrap_or("").to_string();
                self.diag_count += 1;
                let c = self.diag_count;
                self.diags.insert(uri, (c, msg["params"]["diagnostics"].clone()));
            } else if method == "window/logMessage" {
                let m = msg["params"]["message"].as_str().unwrap_or("").to_string();
                if m.contains("Workspace scan complete") || m.contains("Workspace scan failed") {
                    self.scan_complete = true;
                }
                self.log.push(m);
            }
            Ok(None)
        } else {
            Ok(Some(msg))
        }
    }

    fn recv(&mut self, deadline: Instant) -> Result<Value, LspErr> {
        // wait in short slices: a handler panic leaves the process alive but silent, and its
        // stderr says so long before the watchdog would
        loop {
            let now = Instant::now();
            let left = if deadline > now { deadline - now } else { Duration::from_millis(0) };
            let slice = left.min(Duration::from_millis(150));
            match self.rx.recv_timeout(slice) {
                Ok(v) => return Ok(v),
                Err(RecvTimeoutError::Timeout) => {
                    if self.panicked() {
                        // give the reader a last chance to deliver what was already written
                        if let Ok(v) = self.rx.recv_timeout(Duration::from_millis(100)) {
                            return Ok(v);
                        }
                        return Err(LspErr::Dead(self.stderr_tail()));
                    }
                    if Instant::now() >= deadline {
                        return Err(LspErr::Timeout(self.stderr_tail()));
                    }
                }
                Err(RecvTimeoutError::Disconnected) => {
                    std::thread::sleep(Duration::from_millis(50));
                    return Err(LspErr::Dead(self.stderr_tail()));
                }
            }
        }
    }

    pub fn request(&mut self, method: &str, params: Value) -> Result<Value, LspErr> {
        let id = self.next_id;
        self.next_id += 1;
        self.requests_sent += 1;
        self.send(&json!({"jsonrpc": "2.0", "id": id, "method": method, "params": params}))?;
        self.wait_response(id)
    }

    /// send without waiting (for pipelining); returns the id
    pub fn request_async(&mut self, method: &str, params: Value) -> Result<i64, LspErr> {
        let id = self.next_id;
        self.next_id += 1;
        self.requests_sent += 1;
        self.send(&json!({"jsonrpc": "2.0", "id": id, "method": method, "params": params}))?;
        Ok(id)
    }

    pub fn wait_response(&mut self, id: i64) -> Result<Value, LspErr> {
        if let Some(pos) = self.pending.iter().position(|m| m.get("id").and_then(|x| x.as_i64()) == Some(id)) {
            let m = self.pending.remove(pos);
            return Self::unwrap_response(m);
        }
        let deadline = Instant::now() + self.watchdog;
        loop {
            let msg = self.recv(deadline)?;
            if let Some(resp) = self.absorb(msg)? {
                if resp.get("id").and_then(|x| x.as_i64()) == Some(id) {
                    return Self::unwrap_response(resp);
                }
                self.pending.push(resp);
            }
        }
    }

    fn unwrap_response(resp: Value) -> Result<Value, LspErr> {
        if let Some(e) = resp.get("error") {
            return Err(LspErr::Rpc(e.clone()));
        }
        Ok(resp.get("result").cloned().unwrap_or(Value::Null))
    }

    pub fn wait_scan_complete(&mut self) -> Result<(), LspErr> {
        let deadline = Instant::now() + Duration::from_secs(60);
        while !self.scan_complete {
            let msg = self.recv(deadline)?;
            if let Some(r) = self.absorb(msg)? {
                self.pending.push(r);
            }
        }
        Ok(())
    }

    /// wait until a publishDiagnostics for `uri` newer than `after` has arrived
    pub fn wait_diagnostics(&mut self, uri: &str, after: u64) -> Result<Value, LspErr> {
        let deadline = Instant::now() + self.watchdog;
        loop {
            if let Some((c, d)) = self.diags.get(uri) {
                if *c > after {
                    return Ok(d.clone());
                }
            }
            let msg = self.recv(deadline)?;
            if let Some(r) = self.absorb(msg)? {
                self.pending.push(r);
            }
        }
    }

    /// drain whatever is already queued (non-blocking-ish)
    pub fn drain(&mut self, millis: u64) {
        let deadline = Instant::now() + Duration::from_millis(millis);
        while let Ok(msg) = self.recv(deadline) {
            if let Ok(Some(r)) = self.absorb(msg) {
                self.pending.push(r);
            }
        }
    }

    pub fn open(&mut self, path: &str, text: &str) -> Result<Value, LspErr> {
        let uri = uri_of(path);
        let after = self.diag_count;
        self.notify("textDocument/didOpen", json!({"textDocument": {"uri": uri, "languageId": "python", "version": 1, "text": text}}))?;
        self.wait_diagnostics(&uri, after)
    }

    pub fn change(&mut self, path: &str, version: i64, text: &str) -> Result<Value, LspErr> {
        let uri = uri_of(path);
        let after = self.diag_count;
        self.notify("textDocument/didChange", json!({"textDocument": {"uri": uri, "version": version}, "contentChanges": [{"text": text}]}))?;
        self.wait_diagnostics(&uri, after)
    }

    /// Barrier: a request whose response can only arrive after everything sent before it was handled
    /// (handlers publish before they finish; the server answers requests in order of arrival as
    /// long as no earlier handler is suspended on a client round trip, which only happens after
    /// its publish).
    pub fn sync(&mut self) -> Result<(), LspErr> {
        self.request("workspace/symbol", json!({"query": "\u{1}sync"})).map(|_| ())
    }

    /// didOpen / didChange, then wait (bounded) for the publish it triggers. Returns what the client
    /// has last received for the document: the new publish if one arrived within `grace_ms` after the
    /// barrier, else whatever was published before (None if nothing ever was). Responses and
    /// server-initiated notifications travel on different queues inside tower-lsp, so the barrier
    /// alone does not order them.
    pub fn open_sync(&mut self, path: &str, text: &str, grace_ms: u64) -> Result<Option<Value>, LspErr> {
        let uri = uri_of(path);
        let before = self.diag_count;
        self.notify("textDocument/didOpen", json!({"textDocument": {"uri": uri, "languageId": "python", "version": 1, "text": text}}))?;
        self.sync()?;
        self.await_publish(&uri, before, grace_ms)
    }

    pub fn change_sync(&mut self, path: &str, version: i64, text: &str, grace_ms: u64) -> Result<Option<Value>, LspErr> {
        let uri = uri_of(path);
        let before = self.diag_count;
        self.notify("textDocument/didChange", json!({"textDocument": {"uri": uri, "version": version}, "contentChanges": [{"text": text}]}))?;
        self.sync()?;
        self.await_publish(&uri, before, grace_ms)
    }

    fn await_publish(&mut self, uri: &str, before: u64, grace_ms: u64) -> Result<Option<Value>, LspErr> {
        let deadline = Instant::now() + Duration::from_millis(grace_ms);
        loop {
            if let Some((c, d)) = self.diags.get(uri) {
                if *c > before {
                    return Ok(Some(d.clone()));
                }
            }
            match self.recv(deadline) {
                Ok(msg) => {
                    if let Some(r) = self.absorb(msg)? {
                        self.pending.push(r);
                    }
                }
                Err(LspErr::Timeout(_)) => return Ok(self.diags.get(uri).map(|(_, d)| d.clone())),
                Err(e) => return Err(e),
            }
        }
    }

    pub fn close(&mut self, path: &str) -> Result<(), LspErr> {
        self.notify("textDocument/didClose", json!({"textDocument": {"uri": uri_of(path)}}))
    }

    pub fn pos_params(path: &str, line0: u32, ch: u32) -> Value {
        json!({"textDocument": {"uri": uri_of(path)}, "position": {"line": line0, "character": ch}})
    }

    pub fn alive(&mut self) -> bool {
        matches!(self.child.try_wait(), Ok(None))
    }

    pub fn shutdown(mut self) {
        let _ = self.request_async("shutdown", Value::Null);
        let _ = self.notify("exit", Value::Null);
        let t0 = Instant::now();
        while t0.elapsed() < Duration::from_millis(500) {
            if let Ok(Some(_)) = self.child.try_wait() {
                return;
            }
            std::thread::sleep(Duration::from_millis(10));
        }
        let _ = self.child.kill();
        let _ = self.child.wait();
    }
}

impl Drop for LspSession {
    fn drop(&mut self) {
        let _ = self.child.kill();
        let _ = self.child.wait();
    }
}
