//! C18 — completion offers exactly the usable fixtures, only where they can be requested.
//! Oracle: generator ground truth per cursor line (region class) + set algebra against the model's
//! visible set, observed through textDocument/completion of the real server.

use crate::gen::{workspace, GenCfg};
use crate::lsp::LspSession;
use crate::lspdiff::*;
use crate::model::{Model, Res};
use crate::render::UseKind;
use crate::runner::*;
use crate::spec::*;
use proptest::prelude::*;
use serde_json::Value;
use std::collections::{BTreeMap, BTreeSet};

pub const RULE: &str = "proptest-generated workspaces (shadowed names across conftest levels, imported, plugin and third-party fixtures, all five scopes, methods, async, usefixtures / pytestmark / indirect-parametrize marks, noise functions and classes) materialised and served by the real binary; the cursor is placed on EVERY line of every opened project file (inside the parentheses / argument list on positive lines), plus on the incomplete forms `def test_x(`, `def test_x(a, ` and an unclosed `usefixtures(` sent through didChange. Completion must be non-empty exactly on lines of a test/fixture signature or body or of a usefixtures / indirect argument list (negatives only from lines with no such region); labels == visible(file) - declared parameters - the fixture being edited - (inside a fixture) fixtures of narrower scope; each once; sortText class same-file < conftest < plugin < third-party. Non-trivial = the file sees a shadowed name and the cursor is inside a fixture of scope != function, or the document is incomplete; distinct = distinct workspace specs.";
pub const ASSUMPTIONS: &[&str] = &[
    "reference model (model.rs) for the visible set; names whose resolution depends on registration order (recorded C01/C08 findings) are not judged for membership",
    "blank lines and decorator lines that are neither usefixtures nor parametrize are not judged",
    "in usefixtures / indirect argument lists the offered set is bounded: it must contain every usable fixture and nothing invisible",
];

pub const KF_PARAMETRIZE_NO_INDIRECT: &str = "KF-C18-parametrize-without-indirect-offers-fixtures";

pub fn cfg() -> GenCfg {
    GenCfg { names: 4, max_depth: 3, max_items: 4, allow_dups_in_file: false, defaulted_params: true, test_named_fixtures: true, ..GenCfg::default() }
}

#[derive(Clone, Debug, serde::Serialize, serde::Deserialize)]
pub struct Case {
    pub ws: WorkspaceSpec,
    /// conftest.py / helper documents (bit = file index mod 16) that the client closes again before
    /// completion is requested; every requesting document is then changed once (same text), so its
    /// offered set is computed after the closes. Closing is invisible (C07): expectations are the same.
    #[serde(default)]
    pub close_mask: u16,
}

fn labels_of(v: &Value) -> Vec<(String, String)> {
    let items = if v.is_array() { v.clone() } else { v.get("items").cloned().unwrap_or(Value::Null) };
    items.as_array().into_iter().flatten().map(|i| (i["label"].as_str().unwrap_or("").to_string(), i["sortText"].as_str().unwrap_or("").to_string())).collect()
}

struct Exp {
    /// names that must be offered
    must: BTreeSet<String>,
    /// names that may be offered (superset of must)
    may: BTreeSet<String>,
    /// expected sort class per name where determined
    class: BTreeMap<String, u8>,
}

/// expected completion set inside function `fidx` (None = usefixtures-like context) of file `fi`
fn expected(m: &Model, fi: usize, func: Option<&crate::render::FuncTok>, sens: &BTreeSet<String>) -> Exp {
    let mut must = BTreeSet::new();
    let mut may = BTreeSet::new();
    let mut class = BTreeMap::new();
    for n in m.all_names() {
        let r = m.resolve(fi, &n, None);
        let defs: Vec<crate::model::DefId> = match &r {
            Res::None => continue,
            Res::One(d) => vec![*d],
            Res::AnyOf(s) => s.iter().copied().collect(),
            Res::Unjudged(_) => {
                may.insert(n.clone());
                continue;
            }
        };
        if n == "self" || n == "cls" {
            continue;
        }
        may.insert(n.clone());
        if sens.contains(&n) {
            continue; // membership not judged
        }
        let mut excluded = false;
        let mut undecided = false;
        if let Some(f) = func {
            if f.params.iter().any(|p| p == &n) {
                excluded = true;
            }
            if f.is_fixture && f.name == n {
                excluded = true;
            }
            // a fixture registered under an alias (name=...): whether its own alias counts as "the
            // fixture being edited" is not determined by the statement (requesting it is the
            // override pattern): not judged
            if f.is_fixture {
                if let Some(d) = m.rendered[fi].defs.iter().find(|d| d.line == f.line) {
                    if d.name != d.func_name && d.name == n {
                        undecided = true;
                    }
                }
            }
            if f.is_fixture {
                let narrower: Vec<bool> = defs.iter().map(|d| m.def_tok(*d).scope < f.scope).collect();
                if narrower.iter().all(|x| *x) {
                    excluded = true;
                } else if narrower.iter().any(|x| *x) {
                    undecided = true;
                }
            }
        }
        if excluded {
            may.remove(&n);
            continue;
        }
        if !undecided {
            must.insert(n.clone());
        }
        if let Res::One(d) = r {
            let loc = &m.ws.files[d.file].loc;
            let c = if d.file == fi {
                0
            } else if loc.is_third_party() {
                3
            } else if loc.is_plugin() {
                2
            } else {
                1
            };
            class.insert(n.clone(), c);
        }
    }
    Exp { must, may, class }
}

fn judge(labels: &[(String, String)], e: &Exp, sens: &BTreeSet<String>, strict_upper: bool) -> Result<(), String> {
    let mut seen = BTreeSet::new();
    for (l, _) in labels {
        if !seen.insert(l.clone()) {
            return Err(format!("`{}` is offered more than once", l));
        }
    }
    for n in &e.must {
        if !seen.contains(n) {
            return Err(format!("`{}` is usable here but not offered (offered: {:?})", n, seen));
        }
    }
    for (l, sort) in labels {
        if sens.contains(l) {
            continue;
        }
        if strict_upper && !e.may.contains(l) {
            return Err(format!("`{}` is offered but must not be (declared parameter, the fixture itself, narrower scope, or not visible); allowed: {:?}", l, e.may));
        }
        if let Some(c) = e.class.get(l) {
            let want = format!("{}_{}", c, l);
            if sort != &want {
                return Err(format!("`{}` sorts as `{}`, expected class {} (`{}`)", l, sort, c, want));
            }
        }
    }
    Ok(())
}

pub fn check_case(ctx: &Ctx, c: &Case, info: &mut CaseInfo) -> Outcome {
    let mut p = match Pair::start(&c.ws, true) {
        Ok(p) => p,
        Err(i) => return infra_outcome(i, &ctx.inconclusive),
    };
    let sens_global = crate::props::c08::order_sensitive_names(&p.m);
    let mut closed = 0;
    for fi in 0..p.m.ws.files.len() {
        let loc = p.m.ws.files[fi].loc.clone();
        if loc.is_plugin() || loc.is_third_party() || loc.is_test() || (c.close_mask >> (fi % 16)) & 1 == 0 {
            continue;
        }
        let path = p.path(fi);
        if p.srv.close(&path).is_err() {
            return infra_outcome(Infra::Inconclusive("didClose".into()), &ctx.inconclusive);
        }
        closed += 1;
    }
    if closed > 0 {
        info.classes.push("session closes conftest / helper documents first".into());
        for fi in 0..p.m.ws.files.len() {
            let loc = p.m.ws.files[fi].loc.clone();
            if loc.is_plugin() || loc.is_third_party() {
                continue;
            }
            let still_open = loc.is_test() || (c.close_mask >> (fi % 16)) & 1 == 0;
            if still_open {
                let (path, text) = (p.path(fi), p.m.rendered[fi].text.clone());
                if let Err(e) = p.srv.change_sync(&path, 2, &text, 300) {
                    return infra_outcome(classify(e, "didChange"), &ctx.inconclusive);
                }
            }
        }
    }
    let mut known: BTreeSet<String> = BTreeSet::new();
    let mut detail = None;
    for fi in 0..p.m.ws.files.len() {
        let loc = p.m.ws.files[fi].loc.clone();
        // workspace plugin modules (editable installs) are documents people edit too; files in
        // site-packages are not
        if loc.is_third_party() {
            continue;
        }
        if loc.is_plugin() {
            info.classes.push("completion inside a workspace plugin module".into());
        }
        let path = p.path(fi);
        let r = p.m.rendered[fi].clone();
        // plus C01's recorded finding: names a conftest on the path imports explicitly from a module
        // that does not provide them
        let mut sens = sens_global.clone();
        for n in crate::props::c01::impl_imported_names_on_path(&p.m, fi) {
            let mut model_imported = false;
            let mut d = Some(loc.dir);
            while let Some(dd) = d {
                if let Some(c) = p.m.ws.find(&FileLoc { dir: dd, kind: FileKind::Conftest }) {
                    if p.m.imported[c].contains_key(&n) {
                        model_imported = true;
                    }
                }
                d = dir_parent(dd);
            }
            if !model_imported {
                sens.insert(n);
            }
        }
        let sens = sens;
        let lines: Vec<&str> = r.text.lines().collect();
        let shadowed = p.m.all_names().iter().any(|n| p.m.count_defs(n) >= 2);
        for (li, text) in lines.iter().enumerate() {
            let line1 = li + 1;
            // region of this line
            let func = r.funcs.iter().find(|f| (f.is_fixture || f.is_test) && f.line <= line1 && line1 <= f.body_last);
            let mark_use = r.uses.iter().find(|u| u.line == line1 && matches!(u.kind, UseKind::Usefixtures | UseKind::ClassUsefixtures | UseKind::Pytestmark | UseKind::Indirect));
            let trimmed = text.trim();
            let col: u32;
            let region: &str;
            if let Some(u) = mark_use {
                region = "marks";
                col = u.start as u32;
            } else if let Some(f) = func {
                region = "function";
                col = if f.line == line1 { (text.find('(').unwrap_or(0) + 1) as u32 } else { (text.len() - text.trim_start().len()) as u32 };
            } else if trimmed.is_empty() || trimmed.starts_with('@') || trimmed.starts_with("\"\"\"") {
                continue; // not judged
            } else if r.funcs.iter().any(|f| f.line <= line1 && line1 <= f.body_last) {
                continue;
            } else {
                region = "none";
                col = (text.len() - text.trim_start().len()) as u32;
            }
            // lines that belong to a non-test helper / plain class body rendered by Noise are negatives; their
            // extent is not in `funcs`, recognise them textually (they never contain fixtures by construction)
            info.checks += 1;
            let resp = match p.req("textDocument/completion", LspSession::pos_params(&path, li as u32, col)) {
                Ok(v) => v,
                Err(i) => return infra_outcome(i, &ctx.inconclusive),
            };
            let labels = labels_of(&resp);
            let here = format!("{}:{} `{}` (col {})", p.rel(&path), line1, trimmed, col);
            match region {
                "none" => {
                    if !labels.is_empty() {
                        return Outcome::Fail(format!("{}: completion offers {:?} on a line outside any test / fixture / fixture-mark region", here, labels.iter().map(|l| &l.0).collect::<Vec<_>>()));
                    }
                }
                "marks" if loc.is_plugin() => {}
                "marks" => {
                    let e = expected(&p.m, fi, None, &sens);
                    if let Err(m) = judge(&labels, &e, &sens, true) {
                        return Outcome::Fail(format!("{} (fixture-mark argument list): {}", here, m));
                    }
                }
                _ if loc.is_plugin() => {
                    // which fixtures are "visible from" a plugin module is not something the property
                    // (or pytest) defines by file location: only the sort group of the module's OWN
                    // fixtures is judged here - they are same-file entries
                    let own: BTreeMap<String, u8> = r.defs.iter().map(|d| (d.name.clone(), 0u8)).collect();
                    let e = Exp { must: BTreeSet::new(), may: BTreeSet::new(), class: own };
                    if let Err(m) = judge(&labels, &e, &sens, false) {
                        return Outcome::Fail(format!("{} (workspace plugin module): {}", here, m));
                    }
                }
                _ => {
                    let f = func.unwrap();
                    let e = expected(&p.m, fi, Some(f), &sens);
                    if f.is_fixture && f.scope != 0 && shadowed {
                        info.nontrivial = true;
                    }
                    if e.may.is_empty() && labels.is_empty() {
                        continue;
                    }
                    if let Err(m) = judge(&labels, &e, &sens, true) {
                        return Outcome::Fail(format!("{} (inside {} `{}`, scope {}, params {:?}): {}", here, if f.is_fixture { "fixture" } else { "test" }, f.name, SCOPES[f.scope as usize], f.params, m));
                    }
                }
            }
        }
        // ---- incomplete forms through didChange (text fallback)
        if loc.is_test() {
            let e_all = expected(&p.m, fi, None, &sens);
            let forms: Vec<(String, Vec<String>)> = vec![
                (format!("{}def test_typing(", r.text), vec![]),
                (format!("{}def test_typing({}, ", r.text, NAMES[0]), vec![NAMES[0].to_string()]),
                (format!("{}@pytest.mark.usefixtures(", r.text), vec![]),
            ];
            for (k, (text, typed)) in forms.iter().enumerate() {
                info.checks += 1;
                info.nontrivial = true;
                if let Err(e) = p.srv.change(&path, 10 + k as i64, text) {
                    return infra_outcome(classify(e, "didChange"), &ctx.inconclusive);
                }
                let last = text.lines().count() as u32 - 1;
                let col = text.lines().last().map(|l| l.len()).unwrap_or(0) as u32;
                let resp = match p.req("textDocument/completion", LspSession::pos_params(&path, last, col)) {
                    Ok(v) => v,
                    Err(i) => return infra_outcome(i, &ctx.inconclusive),
                };
                let labels = labels_of(&resp);
                let mut e = Exp { must: e_all.must.clone(), may: e_all.may.clone(), class: e_all.class.clone() };
                for t in typed {
                    e.must.remove(t);
                    e.may.remove(t);
                }
                if let Err(m) = judge(&labels, &e, &sens, true) {
                    return Outcome::Fail(format!("{} incomplete form #{} (`{}`): {}", p.rel(&path), k, text.lines().last().unwrap_or(""), m));
                }
            }
            let _ = p.srv.change(&path, 20, &r.text);
        }
    }
    p.srv.shutdown();
    if known.is_empty() {
        Outcome::Ok
    } else {
        info.fail_detail = detail.take();
        let _ = &mut known;
        Outcome::Known(known.into_iter().collect())
    }
}

pub fn run(ctx: &Ctx) {
    ctx.run_prop_shrink("server", ctx.tier.pick(200, 6_000), 8, 200, || (workspace(cfg()), prop_oneof![1 => Just(0u16), 1 => proptest::num::u16::ANY]).prop_map(|(ws, close_mask)| Case { ws, close_mask }), |c, info| check_case(ctx, c, info));
}

pub fn judge_replay(ctx: &Ctx, sub: &str, case: &Value) -> Option<Outcome> {
    let mut info = CaseInfo::default();
    match sub {
        "server" => {
            let c: Case = from_case(case)?;
            Some(check_case(ctx, &c, &mut info))
        }
        _ => None,
    }
}

#[allow(unused)]
fn _k() {
    let _ = KF_PARAMETRIZE_NO_INDIRECT;
}
