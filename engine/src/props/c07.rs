//! C07 — caching, closing documents and cache eviction are invisible.
//! Metamorphic oracle: a long-lived (warm) index that answers queries between analyses vs a cold
//! twin that received the same analyses but no earlier query.

use crate::db::new_db_for;
use crate::gen::{workspace, GenCfg};
use crate::hist::*;
use crate::model::Model;
use crate::runner::*;
use crate::snapshot::*;
use crate::spec::*;
use proptest::collection::vec;
use proptest::prelude::*;
use pytest_language_server::FixtureDatabase;
use serde::{Deserialize, Serialize};
use serde_json::{json, Value};
use std::collections::HashSet;
use std::path::{Path, PathBuf};

pub const RULE: &str = "proptest-generated programs of up to 14 operations over a generated workspace (import cycles allowed): Load (scan-path analysis of the next file), Edit (full-text re-analysis: remove / insert / rename / imports-only / break / resend), Query (available fixtures, cycles, imported fixtures, go-to at every usage, scope mismatches, references, completion context per line). Every query answered by the warm index is compared with the same query on a cold twin built from the analyses alone; a full snapshot is compared at the end. Close / evict tier: the workspace is materialised; programs of 2-12 operations Edit (saved to disk, then analysed), Close (cleanup_file_cache of a document), Flood (2001 fixture-free files analysed so that the cache limit evicts a quarter of all entries), Query; after every close, flood and every later edit all 7 query kinds on all files are compared with an index that received the same analyses and no close / eviction. Non-trivial = a query on a file precedes an edit, and a later query follows it (close tier: an edit follows a close or eviction); distinct = distinct programs.";
pub const ASSUMPTIONS: &[&str] = &[
    "warm-vs-cold sub-check: in-memory paths; close-evict sub-check: files on disk whose contents equal the last version sent (a closed document is a saved one)",
    "the cold twin is the implementation itself on a fresh database (metamorphic, no model)",
];

#[derive(Clone, Debug, Serialize, Deserialize, PartialEq)]
pub enum Op {
    Load,
    Edit(Step),
    /// kind, file selector
    Query(u8, u16),
}

#[derive(Clone, Debug, Serialize, Deserialize)]
pub struct Program {
    pub ws: WorkspaceSpec,
    pub ops: Vec<Op>,
    /// 0 = only the generated queries; k>0 = additionally query everything after every analysis,
    /// visiting files in an order rotated by k
    #[serde(default)]
    pub dense: u8,
}

pub fn cfg() -> GenCfg {
    GenCfg { names: 3, max_depth: 2, max_items: 3, allow_import_cycles: true, allow_dups_in_file: false, ..GenCfg::default() }
}

fn program() -> impl Strategy<Value = Program> {
    let c = cfg();
    let op = prop_oneof![
        4 => Just(Op::Load),
        5 => (any::<u16>(), edit(&c)).prop_map(|(file, edit)| Op::Edit(Step { file, edit, close_first: false })),
        6 => (0u8..7, any::<u16>()).prop_map(|(k, f)| Op::Query(k, f)),
    ];
    (workspace(c.clone()), vec(op, 1..=14), prop_oneof![2 => Just(0u8), 1 => 1u8..8]).prop_map(|(ws, ops, dense)| Program { ws, ops, dense })
}

pub const QUERY_KINDS: [&str; 7] = ["available", "cycles", "imported", "goto", "scope-mismatch", "refs", "completion-context"];

pub fn query(db: &FixtureDatabase, kind: u8, path: &str) -> Value {
    let p = Path::new(path);
    let root = MEM_ROOT;
    match kind % 7 {
        0 => {
            let mut a: Vec<Value> = db.get_available_fixtures(p).iter().map(|d| json!([d.name, def_key(root, d), d.return_type, d.docstring, d.scope.as_str()])).collect();
            a.sort_by_key(|x| x.to_string());
            Value::Array(a)
        }
        1 => {
            let c = db.detect_fixture_cycles();
            let mut v: Vec<Value> = c.iter().map(|c| json!(norm_cycle(&c.cycle_path))).collect();
            v.sort_by_key(|x| x.to_string());
            let wf = crate::props::c06::cycles_wellformed(db);
            json!({"has": !c.is_empty(), "wellformed_error": wf, "in_file": db.detect_fixture_cycles_in_file(p).len() > 0 || c.is_empty()})
        }
        2 => {
            let mut v: Vec<String> = db.get_imported_fixtures(p, &mut HashSet::new()).into_iter().collect();
            v.sort();
            json!(v)
        }
        3 => {
            let us = db.usages.get(p).map(|u| u.value().clone()).unwrap_or_default();
            let mut items: Vec<Value> = us
                .iter()
                .map(|u| {
                    let ans = db.find_fixture_definition(p, (u.line.max(1) - 1) as u32, u.start_char as u32);
                    json!([u.line, u.start_char, u.name, ans.map(|d| def_key(root, &d))])
                })
                .collect();
            items.sort_by_key(|x| x.to_string());
            Value::Array(items)
        }
        4 => {
            let mut mm: Vec<Value> = db.detect_scope_mismatches_in_file(p).iter().map(|x| json!([def_key(root, &x.fixture), def_key(root, &x.dependency)])).collect();
            mm.sort_by_key(|x| x.to_string());
            Value::Array(mm)
        }
        5 => {
            let mut out = serde_json::Map::new();
            for d in all_defs(db) {
                if d.file_path != p {
                    continue;
                }
                let mut r: Vec<Value> = db.find_references_for_definition(&d).iter().map(|u| json!([rel(root, &u.file_path), u.line, u.start_char])).collect();
                r.sort_by_key(|x| x.to_string());
                out.insert(def_key(root, &d), Value::Array(r));
            }
            Value::Object(out)
        }
        _ => {
            let n = db.file_cache.get(p).map(|c| c.lines().count()).unwrap_or(0);
            let v: Vec<Value> = (0..n.min(40)).map(|l| json!(format!("{:?}", db.get_completion_context(p, l as u32, 4)))).collect();
            Value::Array(v)
        }
    }
}

struct Analysis {
    path: String,
    text: String,
    fresh: bool,
}

fn apply_analysis(db: &FixtureDatabase, a: &Analysis) {
    if a.fresh {
        db.verif_analyze_file_fresh(PathBuf::from(&a.path), &a.text);
    } else {
        db.analyze_file(PathBuf::from(&a.path), &a.text);
    }
}

pub fn check_program(pg: &Program, info: &mut CaseInfo) -> Outcome {
    let cfg = cfg();
    let m = Model::new(&pg.ws);
    // interpreter without initial sends: we control loading ourselves
    let mut it = Interp::new(&cfg, &pg.ws);
    it.sent.clear();
    let order = pg.ws.order();
    let mut loaded: Vec<bool> = vec![false; pg.ws.files.len()];
    let mut next_load = 0usize;
    let warm = new_db_for(&m);
    let mut analyses: Vec<Analysis> = Vec::new();
    let mut queried_before_edit = false;
    let mut edit_after_query = false;
    let cold = |analyses: &Vec<Analysis>| {
        let db = new_db_for(&m);
        for a in analyses {
            apply_analysis(&db, a);
        }
        db
    };
    let full_check = |warm: &FixtureDatabase, analyses: &Vec<Analysis>, it: &Interp, rot: usize, what: &str| -> Result<(), String> {
        let c = cold(analyses);
        let n = it.files.len();
        for j in 0..n {
            let fi = (j + rot) % n;
            let path = it.files[fi].loc.path();
            for kind in [2u8, 0, 3, 1, 4] {
                let w = query(warm, kind, &path);
                let cq = query(&c, kind, &path);
                if w != cq {
                    return Err(format!("{}: query {} on {}: warm {} vs cold {}", what, QUERY_KINDS[kind as usize], it.files[fi].loc.rel(), w, cq));
                }
            }
        }
        Ok(())
    };
    if pg.dense > 0 {
        info.classes.push("mode=dense".into());
    }
    for (k, op) in pg.ops.iter().enumerate() {
        if pg.dense > 0 && k > 0 && !matches!(pg.ops[k - 1], Op::Query(..)) {
            info.checks += 1;
            if k >= 2 {
                info.nontrivial = true;
            }
            if let Err(e) = full_check(&warm, &analyses, &it, pg.dense as usize, &format!("before op #{}", k)) {
                return Outcome::Fail(e);
            }
        }
        match op {
            Op::Load => {
                while next_load < order.len() && loaded[order[next_load]] {
                    next_load += 1;
                }
                if next_load < order.len() {
                    let fi = order[next_load];
                    loaded[fi] = true;
                    let a = Analysis { path: it.files[fi].loc.path(), text: it.files[fi].text.clone(), fresh: true };
                    apply_analysis(&warm, &a);
                    analyses.push(a);
                    info.classes.push("op=load".into());
                }
            }
            Op::Edit(s) => {
                let fi = it.apply(s);
                loaded[fi] = true;
                let a = Analysis { path: it.files[fi].loc.path(), text: it.files[fi].text.clone(), fresh: false };
                apply_analysis(&warm, &a);
                analyses.push(a);
                if queried_before_edit {
                    edit_after_query = true;
                }
                info.classes.push(format!("op=edit-{}", edit_kind(&s.edit)));
            }
            Op::Query(kind, f) => {
                let fi = ((*f as usize) * it.files.len()) >> 16;
                let path = it.files[fi].loc.path();
                let w = query(&warm, *kind, &path);
                let c = query(&cold(&analyses), *kind, &path);
                info.checks += 1;
                info.classes.push(format!("op=query-{}", QUERY_KINDS[(*kind % 7) as usize]));
                queried_before_edit = true;
                if edit_after_query {
                    info.nontrivial = true;
                }
                if w != c {
                    return Outcome::Fail(format!(
                        "op #{}: query {} on {}: warm index answers {} but a cold index with the same contents answers {}",
                        k,
                        QUERY_KINDS[(*kind % 7) as usize],
                        it.files[fi].loc.rel(),
                        w,
                        c
                    ));
                }
            }
        }
    }
    if let Err(e) = full_check(&warm, &analyses, &it, pg.dense as usize, "after the last op") {
        return Outcome::Fail(e);
    }
    // load the rest, then compare everything
    for &fi in &order {
        if !loaded[fi] {
            let a = Analysis { path: it.files[fi].loc.path(), text: it.files[fi].text.clone(), fresh: true };
            apply_analysis(&warm, &a);
            analyses.push(a);
        }
    }
    let o = SnapOpts { root: MEM_ROOT.to_string(), raw_maps: false, cycles: 1, ..SnapOpts::default() };
    let sw = snapshot(&warm, &o);
    let sc = snapshot(&cold(&analyses), &o);
    info.checks += 1;
    if let Some(d) = first_diff(&sw, &sc) {
        return Outcome::Fail(format!("final state: warm index differs from a cold index with the same contents: {}", d));
    }
    for fi in 0..it.files.len() {
        for kind in [0u8, 2, 6] {
            let path = it.files[fi].loc.path();
            let w = query(&warm, kind, &path);
            let c = query(&cold(&analyses), kind, &path);
            if w != c {
                return Outcome::Fail(format!("final state: query {} on {}: warm {} vs cold {}", QUERY_KINDS[kind as usize], it.files[fi].loc.rel(), w, c));
            }
        }
    }
    Outcome::Ok
}

// ---------------------------------------------------------------------------------------------
// on-disk tier: closing documents and cache eviction
// ---------------------------------------------------------------------------------------------

#[derive(Clone, Debug, Serialize, Deserialize, PartialEq)]
pub enum DOp {
    /// save the new version to disk, then the editor notification
    Edit(Step),
    /// didClose: cleanup_file_cache of that document (its text is on disk)
    Close(u16),
    /// 2001 further (fixture-free) files are analysed: the file cache exceeds its limit and a
    /// quarter of its entries - any of them - is evicted
    Flood,
    Query(u8, u16),
}

#[derive(Clone, Debug, Serialize, Deserialize)]
pub struct DiskProgram {
    pub ws: WorkspaceSpec,
    pub ops: Vec<DOp>,
    /// next to every helper module `fxN.py` there is also a package `fxN/__init__.py` (with a fixture
    /// of its own) that is open in the editor: which of the two an import means must not depend on
    /// what happens to be cached
    #[serde(default)]
    pub shadow_packages: bool,
}

pub fn disk_cfg() -> GenCfg {
    GenCfg { names: 3, max_depth: 3, max_items: 3, allow_dups_in_file: false, ..GenCfg::default() }
}

fn disk_program() -> impl Strategy<Value = DiskProgram> {
    let c = disk_cfg();
    let op = prop_oneof![
        4 => (any::<u16>(), edit(&c)).prop_map(|(file, edit)| DOp::Edit(Step { file, edit, close_first: false })),
        4 => any::<u16>().prop_map(DOp::Close),
        1 => Just(DOp::Flood),
        6 => (0u8..7, any::<u16>()).prop_map(|(k, f)| DOp::Query(k, f)),
    ];
    (workspace(c.clone()), vec(op, 2..=12), prop_oneof![3 => Just(false), 1 => Just(true)]).prop_map(|(ws, ops, shadow_packages)| DiskProgram { ws, ops, shadow_packages })
}

fn query_disk(db: &FixtureDatabase, kind: u8, path: &str, text: &str) -> Value {
    if kind % 7 == 6 {
        // line count from the document text, not from the cache entry a close removes
        let n = text.lines().count();
        let v: Vec<Value> = (0..n.min(40)).map(|l| json!(format!("{:?}", db.get_completion_context(Path::new(path), l as u32, 4)))).collect();
        return Value::Array(v);
    }
    query(db, kind, path)
}

pub fn check_disk(pg: &DiskProgram, info: &mut CaseInfo) -> Outcome {
    let cfg = disk_cfg();
    let disk = match crate::fsws::DiskWs::create(&pg.ws, "", None) {
        Ok(d) => d,
        Err(e) => return Outcome::Fail(format!("cannot materialise: {}", e)),
    };
    let mut it = Interp::new(&cfg, &pg.ws);
    let paths: Vec<String> = it.files.iter().map(|f| disk.path(&f.loc)).collect();
    let plugin_paths: Vec<String> = it.files.iter().enumerate().filter(|(_, f)| f.loc.is_plugin()).map(|(i, _)| paths[i].clone()).collect();
    let new_db = || {
        let db = FixtureDatabase::new();
        for p in &plugin_paths {
            db.plugin_fixture_files.insert(PathBuf::from(p), ());
        }
        db
    };
    let warm = new_db();
    let mut analyses: Vec<(usize, String)> = Vec::new();
    // shadow packages: (path, text), analysed first in both indexes and never closed
    let mut shadows: Vec<(String, String)> = Vec::new();
    if pg.shadow_packages {
        info.classes.push("shadow packages".into());
        for (i, f) in it.files.iter().enumerate() {
            if let FileKind::Helper(_) = f.loc.kind {
                let pkg = format!("{}/__init__.py", paths[i].trim_end_matches(".py"));
                let text = format!("import pytest\n\n\n@pytest.fixture\ndef {}():\n    return \"from the package\"\n", NAMES[i % 3]);
                if let Some(parent) = Path::new(&pkg).parent() {
                    let _ = std::fs::create_dir_all(parent);
                }
                let _ = std::fs::write(&pkg, &text);
                shadows.push((pkg, text));
            }
        }
    }
    for (p, t) in &shadows {
        warm.analyze_file(PathBuf::from(p), t);
    }
    for &fi in &pg.ws.order() {
        let _ = std::fs::write(&paths[fi], &it.files[fi].text);
        warm.analyze_file(PathBuf::from(&paths[fi]), &it.files[fi].text);
        analyses.push((fi, it.files[fi].text.clone()));
    }
    let cold = |analyses: &Vec<(usize, String)>| {
        let db = new_db();
        for (p, t) in &shadows {
            db.analyze_file(PathBuf::from(p), t);
        }
        for (fi, t) in analyses {
            db.analyze_file(PathBuf::from(&paths[*fi]), t);
        }
        db
    };
    let mut closed_or_evicted = false;
    let compare_all = |warm: &FixtureDatabase, analyses: &Vec<(usize, String)>, it: &Interp, what: &str| -> Result<(), String> {
        let c = cold(analyses);
        for fi in 0..it.files.len() {
            for kind in [0u8, 2, 3, 4, 5, 6, 1] {
                let w = query_disk(warm, kind, &paths[fi], &it.files[fi].text);
                let cq = query_disk(&c, kind, &paths[fi], &it.files[fi].text);
                if w != cq {
                    return Err(format!("{}: query {} on {}: the long-lived index answers {} but an index that received the same analyses and no close / eviction answers {}", what, QUERY_KINDS[kind as usize], it.files[fi].loc.rel(), w, cq));
                }
            }
        }
        Ok(())
    };
    for (k, op) in pg.ops.iter().enumerate() {
        match op {
            DOp::Edit(s) => {
                let fi = it.apply(s);
                let _ = std::fs::write(&paths[fi], &it.files[fi].text);
                warm.analyze_file(PathBuf::from(&paths[fi]), &it.files[fi].text);
                analyses.push((fi, it.files[fi].text.clone()));
                info.classes.push(format!("op=edit-{}", edit_kind(&s.edit)));
                if closed_or_evicted {
                    info.nontrivial = true;
                }
            }
            DOp::Close(f) => {
                let fi = ((*f as usize) * it.files.len()) >> 16;
                warm.cleanup_file_cache(Path::new(&paths[fi]));
                closed_or_evicted = true;
                info.classes.push(format!("op=close-{}", if it.files[fi].loc.is_conftest() { "conftest" } else if it.files[fi].loc.is_test() { "test" } else { "other" }));
            }
            DOp::Flood => {
                for i in 0..2001 {
                    warm.analyze_file(PathBuf::from(format!("{}/zz_flood/test_f{}.py", disk.root, i)), "x = 1\n");
                }
                closed_or_evicted = true;
                info.classes.push("op=flood".into());
                let evicted = it.files.iter().enumerate().filter(|(i, _)| !warm.file_cache.contains_key(Path::new(&paths[*i]))).count();
                info.classes.push(format!("flood evicted {} workspace file(s)", evicted.min(3)));
            }
            DOp::Query(kind, f) => {
                let fi = ((*f as usize) * it.files.len()) >> 16;
                let w = query_disk(&warm, *kind, &paths[fi], &it.files[fi].text);
                let c = query_disk(&cold(&analyses), *kind, &paths[fi], &it.files[fi].text);
                info.checks += 1;
                info.classes.push(format!("op=query-{}", QUERY_KINDS[(*kind % 7) as usize]));
                if w != c {
                    return Outcome::Fail(format!(
                        "op #{}: query {} on {}: the long-lived index answers {} but an index that received the same analyses and no close / eviction answers {}",
                        k,
                        QUERY_KINDS[(*kind % 7) as usize],
                        it.files[fi].loc.rel(),
                        w,
                        c
                    ));
                }
            }
        }
        // after a close or an eviction everything is compared at once
        if matches!(op, DOp::Close(_) | DOp::Flood) || (closed_or_evicted && matches!(op, DOp::Edit(_))) {
            info.checks += 1;
            if let Err(e) = compare_all(&warm, &analyses, &it, &format!("after op #{} ({})", k, match op { DOp::Close(_) => "close", DOp::Flood => "flood", _ => "edit after a close / eviction" })) {
                return Outcome::Fail(e);
            }
        }
    }
    Outcome::Ok
}

fn edit_kind(e: &Edit) -> &'static str {
    match e {
        Edit::Remove(_) => "remove",
        Edit::Insert(..) => "insert",
        Edit::Rename(..) => "rename",
        Edit::Shift(_) => "shift",
        Edit::Replace(_) => "replace",
        Edit::SetImports(_) => "imports-only",
        Edit::Break(_) => "break",
        Edit::Resend => "resend",
        Edit::Retarget(_) => "retarget-imports",
        Edit::Blank(_) => "blank",
    }
}

pub fn run(ctx: &Ctx) {
    ctx.run_prop("warm-vs-cold", ctx.tier.pick(8_000, 400_000), 16, program, |p, info| check_program(p, info));
    ctx.run_prop_shrink("close-evict", ctx.tier.pick(600, 30_000), 16, 200, disk_program, |p, info| check_disk(p, info));
}

pub fn judge(_ctx: &Ctx, sub: &str, case: &Value) -> Option<Outcome> {
    let mut info = CaseInfo::default();
    match sub {
        "warm-vs-cold" => {
            let p: Program = from_case(case)?;
            Some(check_program(&p, &mut info))
        }
        "close-evict" => {
            let p: DiskProgram = from_case(case)?;
            Some(check_disk(&p, &mut info))
        }
        _ => None,
    }
}
