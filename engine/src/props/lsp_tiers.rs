//! Server-level sub-checks shared by C01 / C04 / C05: the real binary over stdio on a materialised
//! workspace vs an in-process twin index of the same tree.

use crate::lspdiff::*;
use crate::lsp::LspSession;
use crate::props::c05::with_probes;
use crate::runner::*;
use crate::spec::*;
use pytest_language_server::FixtureDefinition;
use serde_json::{json, Value};
use std::collections::BTreeMap;
use std::path::Path;

fn is_project(loc: &FileLoc) -> bool {
    !(loc.is_plugin() || loc.is_third_party())
}

/// C01: textDocument/definition == library answer (0/1-based and URI mapping) at the first and last
/// column of every usage token of every opened file.
pub fn c01_definition(ctx: &Ctx, ws: &WorkspaceSpec, info: &mut CaseInfo) -> Outcome {
    let mut p = match Pair::start(ws, true) {
        Ok(p) => p,
        Err(i) => return infra_outcome(i, &ctx.inconclusive),
    };
    for fi in 0..p.m.ws.files.len() {
        if !is_project(&p.m.ws.files[fi].loc) {
            continue;
        }
        let path = p.path(fi);
        let uses = p.m.rendered[fi].uses.clone();
        let sens = crate::props::c08::order_sensitive_names(&p.m);
        for u in &uses {
            if sens.contains(&u.name) {
                // two processes may register same-named definitions in a different order (C08's
                // recorded findings); not this sub-check's business
                info.unjudged += 1;
                continue;
            }
            for col in [u.start, u.end - 1, u.end] {
                info.checks += 1;
                let lib = p.twin.find_fixture_definition(Path::new(&path), (u.line - 1) as u32, col as u32);
                let resp = match p.req("textDocument/definition", LspSession::pos_params(&path, (u.line - 1) as u32, col as u32)) {
                    Ok(v) => v,
                    Err(i) => return infra_outcome(i, &ctx.inconclusive),
                };
                let got = first_location(&resp);
                let exp = lib.as_ref().map(|d| (d.file_path.to_string_lossy().to_string(), (d.line - 1) as u64, 0u64));
                if lib.is_some() {
                    info.nontrivial = true;
                }
                if got != exp {
                    return Outcome::Fail(format!(
                        "textDocument/definition at {}:{}:{} (0-based line {}) -> {:?}, library on the same tree -> {:?}",
                        p.rel(&path),
                        u.line,
                        col,
                        u.line - 1,
                        got.map(|(f, l, c)| (p.rel(&f), l, c)),
                        exp.map(|(f, l, c)| (p.rel(&f), l, c))
                    ));
                }
            }
        }
    }
    p.srv.shutdown();
    Outcome::Ok
}

fn parse_lens_count(title: &str) -> Option<usize> {
    title.split_whitespace().next()?.parse().ok()
}

/// C04: codeLens number == references length - declaration == incomingCalls length == CLI count ==
/// |find_references_for_definition(D)| for every project definition D.
pub fn c04_counters(ctx: &Ctx, ws: &WorkspaceSpec, info: &mut CaseInfo) -> Outcome {
    let mut p = match Pair::start(ws, true) {
        Ok(p) => p,
        Err(i) => return infra_outcome(i, &ctx.inconclusive),
    };
    // CLI counts for the same tree: parse `fixtures list` tree output
    let cli = crate::cli::run_cli(&["fixtures", "list", &p.disk.root], 4);
    let cli_counts = parse_cli_list(&cli.stdout);
    let mut names_with_two_defs = false;
    for fi in 0..p.m.ws.files.len() {
        let loc = p.m.ws.files[fi].loc.clone();
        if !is_project(&loc) {
            continue;
        }
        let path = p.path(fi);
        let lens = match p.req("textDocument/codeLens", json!({"textDocument": {"uri": crate::lsp::uri_of(&path)}})) {
            Ok(v) => v,
            Err(i) => return infra_outcome(i, &ctx.inconclusive),
        };
        let mut lens_by_line: BTreeMap<u64, Vec<usize>> = BTreeMap::new();
        for l in lens.as_array().into_iter().flatten() {
            let line = l["range"]["start"]["line"].as_u64().unwrap_or(u64::MAX);
            if let Some(n) = l["command"]["title"].as_str().and_then(parse_lens_count) {
                lens_by_line.entry(line).or_default().push(n);
            }
        }
        let defs: Vec<FixtureDefinition> = crate::snapshot::all_defs(&p.twin).into_iter().filter(|d| d.file_path == Path::new(&path)).collect();
        let sens = crate::props::c08::order_sensitive_names(&p.m);
        for d in &defs {
            if sens.contains(&d.name) {
                info.unjudged += 1;
                continue;
            }
            info.checks += 1;
            let refs = p.twin.find_references_for_definition(d);
            let n = refs.len();
            if p.m.count_defs(&d.name) >= 2 {
                names_with_two_defs = true;
            }
            let here = format!("{}:{} `{}`", p.rel(&path), d.line, d.name);
            // code lens
            let l = lens_by_line.get(&((d.line - 1) as u64)).cloned().unwrap_or_default();
            if l != vec![n] {
                return Outcome::Fail(format!("{}: code lens shows {:?} usage(s), the reference set has {}", here, l, n));
            }
            // references from the definition name (aliased fixtures: the function name is not the fixture name)
            let aliased = !p.m.rendered[fi].defs.iter().any(|t| t.line == d.line && t.func_name == d.name);
            if !aliased {
                let r = match p.req(
                    "textDocument/references",
                    json!({"textDocument": {"uri": crate::lsp::uri_of(&path)}, "position": {"line": d.line - 1, "character": d.start_char}, "context": {"includeDeclaration": true}}),
                ) {
                    Ok(v) => v,
                    Err(i) => return infra_outcome(i, &ctx.inconclusive),
                };
                let cnt = r.as_array().map(|a| a.len()).unwrap_or(0);
                if cnt != n + 1 {
                    return Outcome::Fail(format!("{}: textDocument/references returns {} locations (declaration included), the reference set has {}", here, cnt, n));
                }
                // incoming calls
                let prep = match p.req("textDocument/prepareCallHierarchy", LspSession::pos_params(&path, (d.line - 1) as u32, d.start_char as u32)) {
                    Ok(v) => v,
                    Err(i) => return infra_outcome(i, &ctx.inconclusive),
                };
                if let Some(item) = prep.get(0) {
                    let inc = match p.req("callHierarchy/incomingCalls", json!({"item": item})) {
                        Ok(v) => v,
                        Err(i) => return infra_outcome(i, &ctx.inconclusive),
                    };
                    // the handler looks the definition up by (name, file): with several same-named
                    // definitions in one file it cannot tell them apart - not generated here
                    let cnt = inc.as_array().map(|a| a.len()).unwrap_or(0);
                    if cnt != n {
                        return Outcome::Fail(format!("{}: callHierarchy/incomingCalls returns {} callers, the reference set has {}", here, cnt, n));
                    }
                } else {
                    return Outcome::Fail(format!("{}: prepareCallHierarchy on the definition name returns nothing", here));
                }
            }
        }
    }
    // CLI: a separate process scanning the tree from disk; compare with an in-process index that
    // also only scanned (editor buffers of files the scan does not reach are not on the CLI's side)
    let scan_only = pytest_language_server::FixtureDatabase::new();
    scan_only.scan_workspace(Path::new(&p.disk.root));
    let sens = crate::props::c08::order_sensitive_names(&p.m);
    for d in crate::snapshot::all_defs(&scan_only) {
        if sens.contains(&d.name) {
            info.unjudged += 1;
            continue;
        }
        info.checks += 1;
        let n = scan_only.find_references_for_definition(&d).len();
        let f = d.file_path.to_string_lossy().to_string();
        let key = (p.rel(&f), d.name.clone());
        if cli.code == Some(0) {
            match cli_counts.get(&key) {
                Some(c) if *c == n => {}
                other => {
                    return Outcome::Fail(format!("{}:{} `{}`: `fixtures list` prints {:?} usage(s), the reference set has {}\n{}", key.0, d.line, d.name, other, n, cli.stdout));
                }
            }
        }
    }
    if cli.code != Some(0) {
        return Outcome::Fail(format!("`fixtures list` exited with {:?}: {}", cli.code, cli.stderr));
    }
    if names_with_two_defs {
        info.nontrivial = true;
    }
    p.srv.shutdown();
    Outcome::Ok
}

/// C02: `textDocument/references` asked from the function name of an overriding fixture concerns that
/// fixture, asked from its self-named parameter it concerns the next definition outward: every usage
/// the library lists for the respective definition must be among the returned locations.
pub fn c02_references(ctx: &Ctx, ws: &WorkspaceSpec, info: &mut CaseInfo) -> Outcome {
    let mut p = match Pair::start(ws, true) {
        Ok(p) => p,
        Err(i) => return infra_outcome(i, &ctx.inconclusive),
    };
    let sens = crate::props::c08::order_sensitive_names(&p.m);
    for fi in 0..p.m.ws.files.len() {
        if !is_project(&p.m.ws.files[fi].loc) {
            continue;
        }
        let path = p.path(fi);
        let r = p.m.rendered[fi].clone();
        for d in &r.defs {
            let Some(u) = r.uses.iter().find(|u| u.in_def_line == Some(d.line) && u.name == d.name) else { continue };
            if sens.contains(&d.name) || d.func_name != d.name {
                info.unjudged += 1;
                continue;
            }
            info.nontrivial = true;
            for (what, qline, col) in [("function name", d.line, d.start), ("self-named parameter", u.line, u.start)] {
                info.checks += 1;
                // the definition this position concerns, per the library on the same tree
                let target = if what == "function name" {
                    crate::snapshot::all_defs(&p.twin).into_iter().find(|x| x.file_path == Path::new(&path) && x.line == d.line && x.name == d.name)
                } else {
                    p.twin.find_fixture_definition(Path::new(&path), (qline - 1) as u32, col as u32)
                };
                let Some(target) = target else { continue };
                let resp = match p.req(
                    "textDocument/references",
                    json!({"textDocument": {"uri": crate::lsp::uri_of(&path)}, "position": {"line": qline - 1, "character": col}, "context": {"includeDeclaration": true}}),
                ) {
                    Ok(v) => v,
                    Err(i) => return infra_outcome(i, &ctx.inconclusive),
                };
                let got: std::collections::BTreeSet<(String, u64, u64)> = resp
                    .as_array()
                    .into_iter()
                    .flatten()
                    .map(|l| (crate::lsp::path_of_uri(l["uri"].as_str().unwrap_or("")), l["range"]["start"]["line"].as_u64().unwrap_or(u64::MAX), l["range"]["start"]["character"].as_u64().unwrap_or(u64::MAX)))
                    .collect();
                for usage in p.twin.find_references_for_definition(&target) {
                    let k = (usage.file_path.to_string_lossy().to_string(), (usage.line - 1) as u64, usage.start_char as u64);
                    if !got.contains(&k) {
                        return Outcome::Fail(format!(
                            "{}:{} `{}`: references asked from the {} concern {}:{}, whose usage at {}:{}:{} is missing from the {} returned locations",
                            p.rel(&path),
                            d.line,
                            d.name,
                            what,
                            p.rel(&target.file_path.to_string_lossy()),
                            target.line,
                            p.rel(&k.0),
                            usage.line,
                            usage.start_char,
                            got.len()
                        ));
                    }
                }
            }
        }
    }
    Outcome::Ok
}

/// Parse the tree printed by `fixtures list` into (relative file path, fixture name) -> count.
pub fn parse_cli_list(out: &str) -> BTreeMap<(String, String), usize> {
    let mut res = BTreeMap::new();
    // stack of (indent depth, name)
    let mut dirs: Vec<(usize, String)> = Vec::new();
    let mut cur_file: Option<(usize, String)> = None;
    for line in out.lines().skip(2) {
        if line.trim().is_empty() {
            continue;
        }
        // depth = number of 4-char prefix groups before the connector
        let chars: Vec<char> = line.chars().collect();
        let mut i = 0;
        let mut depth = 0;
        while i + 4 <= chars.len() {
            let seg: String = chars[i..i + 4].iter().collect();
            if seg == "    " || seg == "│   " {
                depth += 1;
                i += 4;
            } else {
                break;
            }
        }
        let rest: String = chars[i..].iter().collect();
        let (has_conn, body) = if let Some(b) = rest.strip_prefix("├── ").or_else(|| rest.strip_prefix("└── ")) { (true, b.to_string()) } else { (false, rest.clone()) };
        let level = depth + if has_conn { 1 } else { 0 };
        if body.ends_with(" fixtures)") || body.ends_with(" fixture)") || body.contains(".py (") && body.ends_with("fixtures)") {
            // file line: "name.py (N fixtures)"
            let name = body.split(" (").next().unwrap_or("").to_string();
            dirs.retain(|(l, _)| *l < level);
            let mut path: Vec<String> = dirs.iter().map(|(_, n)| n.clone()).collect();
            path.push(name);
            cur_file = Some((level, path.join("/")));
        } else if body.ends_with('/') || body.ends_with("/ (editable install)") {
            let name = body.trim_end_matches(" (editable install)").trim_end_matches('/').to_string();
            dirs.retain(|(l, _)| *l < level);
            dirs.push((level, name));
            cur_file = None;
        } else if let Some((_, f)) = &cur_file {
            // fixture line: "name (used N times)" / "(unused)" / "(used 1 time)" / "(autouse=True)" / "(used N times, autouse=True)"
            let name = body.split(" (").next().unwrap_or("").to_string();
            let info = body.split(" (").nth(1).unwrap_or("");
            let n = if info.starts_with("unused") || info.starts_with("autouse") {
                0
            } else if info.starts_with("used ") {
                info[5..].split_whitespace().next().and_then(|x| x.parse().ok()).unwrap_or(usize::MAX)
            } else {
                usize::MAX
            };
            res.insert((f.clone(), name), n);
        }
    }
    res
}

fn tag_in(text: &str, prefix: &str) -> Option<u32> {
    let i = text.find(prefix)?;
    let rest = &text[i + prefix.len()..];
    let digits: String = rest.chars().take_while(|c| c.is_ascii_digit()).collect();
    digits.parse().ok()
}

/// C05: at every parameter usage of the probe test, all seven features name the same definition
/// (identified by the unique tag rendered into docstring / return annotation, or by uri+line).
pub fn c05_features(ctx: &Ctx, ws0: &WorkspaceSpec, names: usize, info: &mut CaseInfo) -> Outcome {
    let mut ws = with_probes(ws0, names);
    // a second, parameterless probe so that completion offers every visible name
    for f in ws.files.iter_mut() {
        if is_project(&f.loc) {
            f.items.push(Item::Test(TestSpec { suffix: 98, params: vec![], usefixtures: vec![], indirect: vec![], is_async: false, body_uses: vec![], defaulted: vec![] }));
        }
    }
    let mut p = match Pair::start(&ws, true) {
        Ok(p) => p,
        Err(i) => return infra_outcome(i, &ctx.inconclusive),
    };
    // tag -> (path, line) from the twin index
    let mut by_tag: BTreeMap<u32, (String, usize)> = BTreeMap::new();
    for d in crate::snapshot::all_defs(&p.twin) {
        if let Some(t) = d.docstring.as_deref().and_then(|s| tag_in(s, "DOC")) {
            by_tag.insert(t, (d.file_path.to_string_lossy().to_string(), d.line));
        }
    }
    let mut known: Vec<String> = Vec::new();
    let mut detail = None;
    for fi in 0..p.m.ws.files.len() {
        if !is_project(&p.m.ws.files[fi].loc) {
            continue;
        }
        let path = p.path(fi);
        let r = p.m.rendered[fi].clone();
        // inlay hints for the whole document
        let nlines = r.text.lines().count() as u64;
        let hints = match p.req("textDocument/inlayHint", json!({"textDocument": {"uri": crate::lsp::uri_of(&path)}, "range": {"start": {"line": 0, "character": 0}, "end": {"line": nlines, "character": 0}}})) {
            Ok(v) => v,
            Err(i) => return infra_outcome(i, &ctx.inconclusive),
        };
        // completion inside the parameterless probe's signature
        let probe_none = r.funcs.iter().find(|f| f.name == "test_t98").map(|f| f.line);
        let mut completion_by_name: BTreeMap<String, Vec<Option<u32>>> = BTreeMap::new();
        if let Some(l) = probe_none {
            let col = "def test_t98(".len() as u32;
            let c = match p.req("textDocument/completion", LspSession::pos_params(&path, (l - 1) as u32, col)) {
                Ok(v) => v,
                Err(i) => return infra_outcome(i, &ctx.inconclusive),
            };
            let items = if c.is_array() { c.clone() } else { c.get("items").cloned().unwrap_or(Value::Null) };
            for it in items.as_array().into_iter().flatten() {
                let label = it["label"].as_str().unwrap_or("").to_string();
                let doc = it["documentation"]["value"].as_str().unwrap_or("").to_string();
                completion_by_name.entry(label).or_default().push(tag_in(&doc, "DOC"));
            }
        }
        for (n, v) in &completion_by_name {
            if v.len() != 1 {
                return Outcome::Fail(format!("completion in {} offers `{}` {} times", p.rel(&path), n, v.len()));
            }
        }
        for u in r.uses.iter().filter(|u| u.in_func.as_deref() == Some("test_t99")) {
            info.checks += 1;
            let here = format!("`{}` at {}:{}:{}", u.name, p.rel(&path), u.line, u.start);
            let pos = LspSession::pos_params(&path, (u.line - 1) as u32, u.start as u32);
            macro_rules! rq {
                ($m:expr, $p:expr) => {
                    match p.req($m, $p) {
                        Ok(v) => v,
                        Err(i) => return infra_outcome(i, &ctx.inconclusive),
                    }
                };
            }
            let d = first_location(&rq!("textDocument/definition", pos.clone())).map(|(f, l, _)| (f, l as usize + 1));
            let hov = rq!("textDocument/hover", pos.clone());
            let hov_tag = hov["contents"]["value"].as_str().and_then(|s| tag_in(s, "DOC"));
            let hov_def = hov_tag.and_then(|t| by_tag.get(&t).cloned());
            let imp = first_location(&rq!("textDocument/implementation", pos.clone())).map(|(f, l, _)| (f, l as usize + 1));
            let prep = rq!("textDocument/prepareCallHierarchy", pos.clone());
            let prep_def = prep.get(0).map(|it| (crate::lsp::path_of_uri(it["uri"].as_str().unwrap_or("")), it["selectionRange"]["start"]["line"].as_u64().unwrap_or(0) as usize + 1));
            if p.m.count_defs(&u.name) >= 2 {
                info.nontrivial = true;
            }
            if hov.is_null() != d.is_none() || (d.is_some() && hov_def != d) {
                return Outcome::Fail(format!("{}: definition -> {:?} but hover describes {:?} (tag {:?})", here, d, hov_def, hov_tag));
            }
            if prep_def != d {
                return Outcome::Fail(format!("{}: definition -> {:?} but prepareCallHierarchy -> {:?}", here, d, prep_def));
            }
            // implementation: yield line of the same definition, or its def line
            match (&d, &imp) {
                (None, None) => {}
                (Some((f, l)), Some((f2, l2))) => {
                    let def = crate::snapshot::all_defs(&p.twin).into_iter().find(|x| x.file_path == Path::new(f) && x.line == *l);
                    let want = def.as_ref().map(|x| x.yield_line.unwrap_or(x.line));
                    if f != f2 || Some(*l2) != want {
                        return Outcome::Fail(format!("{}: definition -> {}:{} but implementation -> {}:{} (expected line {:?})", here, f, l, f2, l2, want));
                    }
                }
                _ => return Outcome::Fail(format!("{}: definition -> {:?} but implementation -> {:?}", here, d, imp)),
            }
            // inlay hint at the end of the parameter
            let hint = hints.as_array().into_iter().flatten().find(|h| h["position"]["line"].as_u64() == Some((u.line - 1) as u64) && h["position"]["character"].as_u64() == Some(u.end as u64));
            let hint_tag = hint.and_then(|h| h["label"].as_str()).and_then(|s| tag_in(s, ": T"));
            let hint_def = hint_tag.and_then(|t| by_tag.get(&t).cloned());
            if hint_def != d {
                return Outcome::Fail(format!("{}: definition -> {:?} but the inlay hint names {:?} (label {:?})", here, d, hint_def, hint.map(|h| h["label"].clone())));
            }
            // completion entry
            let comp_def = completion_by_name.get(&u.name).and_then(|v| v[0]).and_then(|t| by_tag.get(&t).cloned());
            if probe_none.is_some() && comp_def != d {
                return Outcome::Fail(format!("{}: definition -> {:?} but the completion entry describes {:?}", here, d, comp_def));
            }
        }
        // outgoing calls of every fixture in this file vs go-to-definition on each of its parameters
        for dt in r.defs.iter().filter(|t| t.func_name == t.name) {
            let prep = match p.req("textDocument/prepareCallHierarchy", LspSession::pos_params(&path, (dt.line - 1) as u32, dt.start as u32)) {
                Ok(v) => v,
                Err(i) => return infra_outcome(i, &ctx.inconclusive),
            };
            let Some(item) = prep.get(0).cloned() else { continue };
            // the handler identifies the fixture by (name, file); skip files that define the name twice
            if r.defs.iter().filter(|t| t.name == dt.name).count() > 1 {
                continue;
            }
            let out = match p.req("callHierarchy/outgoingCalls", json!({"item": item})) {
                Ok(v) => v,
                Err(i) => return infra_outcome(i, &ctx.inconclusive),
            };
            let outs: Vec<(String, (String, usize))> = out
                .as_array()
                .into_iter()
                .flatten()
                .map(|o| (o["to"]["name"].as_str().unwrap_or("").to_string(), (crate::lsp::path_of_uri(o["to"]["uri"].as_str().unwrap_or("")), o["to"]["selectionRange"]["start"]["line"].as_u64().unwrap_or(0) as usize + 1)))
                .collect();
            for u in r.uses.iter().filter(|u| u.in_def_line == Some(dt.line)) {
                info.checks += 1;
                let pos = LspSession::pos_params(&path, (u.line - 1) as u32, u.start as u32);
                let d = match p.req("textDocument/definition", pos) {
                    Ok(v) => first_location(&v).map(|(f, l, _)| (f, l as usize + 1)),
                    Err(i) => return infra_outcome(i, &ctx.inconclusive),
                };
                let o = outs.iter().find(|(n, _)| n == &u.name).map(|(_, x)| x.clone());
                if o != d {
                    if d.is_none() && o.is_some() {
                        if !known.contains(&crate::props::c05::KF_FALLBACK.to_string()) {
                            known.push(crate::props::c05::KF_FALLBACK.to_string());
                            detail.get_or_insert(format!("parameter `{}` of {}:{}: definition -> none but outgoingCalls -> {:?}", u.name, p.rel(&path), dt.line, o));
                        }
                        info.known_trigger = true;
                        continue;
                    }
                    return Outcome::Fail(format!("parameter `{}` of fixture at {}:{}: definition -> {:?} but callHierarchy/outgoingCalls -> {:?}", u.name, p.rel(&path), dt.line, d, o));
                }
            }
        }
    }
    p.srv.shutdown();
    if known.is_empty() {
        Outcome::Ok
    } else {
        info.fail_detail = detail;
        Outcome::Known(known)
    }
}
