//! C17 — undeclared-fixture warnings are precise and their quick fix works.
//! Oracle: generator ground truth per body statement (must flag / must not flag / unjudged) at the
//! exact token; round trip through the real server: apply the quick fix / completion edit, re-parse
//! with CPython, the fixture must be a parameter of the same function only, and the warning gone.

use crate::lsp::*;
use crate::lspdiff::{classify, infra_outcome, Infra};
use crate::pyoracle::with_oracle;
use crate::runner::*;
use proptest::collection::vec;
use proptest::prelude::*;
use pytest_language_server::FixtureDatabase;
use serde::{Deserialize, Serialize};
use serde_json::{json, Value};
use std::collections::BTreeSet;
use std::path::{Path, PathBuf};

pub const RULE: &str = "generated test modules: a function under test (test or fixture; plain / method / async; 0-3 parameters with optional defaults and annotations (nested brackets with their own commas, string annotations and string defaults containing `#`); optional return annotation; single-line, multi-line with and without trailing comma; optional extra decorator) followed by a sibling function, with 1-4 body statements each placing one name in one of 24 expression roles under one of 15 binding situations; names are conftest fixtures, a same-file fixture defined above, one defined below, a non-fixture and a module-level name. lib: flagged set vs ground truth at exact token positions. server: every published undeclared-fixture diagnostic -> codeAction -> edit applied; body completion -> additionalTextEdits applied; result must parse (CPython), add the parameter to the same function only, and clear the warning after didChange. Non-trivial = non-trivial signature (return annotation, multi-line, trailing comma, method) or a role other than a bare call argument; distinct = distinct module specs.";
pub const ASSUMPTIONS: &[&str] = &[
    "ground truth is by construction; roles the statement does not name (conditional expression, f-string, await, lambda body, comprehension) and use-before-assignment are not judged for missing flags",
    "CPython 3.11 decides whether the edited document parses and which function has which parameters",
];

pub const KF_ROLES: &str = "KF-C17-expression-roles-not-scanned";
pub const KF_BINDINGS: &str = "KF-C17-bindings-not-recognised";
pub const KF_LATER_DEF: &str = "KF-C17-fixture-defined-later-in-file";
pub const KF_EDIT_LOCATOR: &str = "KF-C17-parameter-edit-locator";
pub const KF_NO_QUICKFIX: &str = "KF-C17-no-quick-fix-offered";
pub const KF_DEFAULT: &str = "KF-C17-edit-after-default-parameter";

/// names: 0,1 conftest fixtures; 2 same-file fixture above; 3 same-file fixture below; 4 not a fixture;
/// 5 fixture name that is also a module-level name in this file
/// 6: `subject` - a conftest fixture that is also the name of the fixture FUNCTION under test (kind >= 1)
pub const NAMES: [&str; 7] = ["alpha", "bravo", "carol", "later", "plainname", "shadowed", "subject"];

pub const ROLES: [&str; 24] = [
    "call-target", "positional-arg", "keyword-arg", "starred-arg", "attribute-base", "binop-operand", "boolop-operand", "unary-operand", "compare-operand",
    "subscript-value", "subscript-index", "list-element", "tuple-element", "set-element", "dict-value", "return-value", "assert-test", "if-test", "while-test", "for-iter", "with-item",
    "conditional-expr", "f-string", "await-operand",
];
/// roles the statement names explicitly (must be flagged)
fn role_required(r: u8) -> bool {
    (r as usize) < 21
}

pub const BINDINGS: [&str; 16] = [
    "unbound", "assigned-earlier", "assigned-later", "for-target-earlier", "with-target-earlier", "walrus-earlier", "function-level-import", "is-parameter", "tuple-target-earlier", "augassign-earlier", "except-as-earlier",
    "comprehension-variable", "nested-def-parameter", "lambda-parameter", "annotated-assignment-earlier", "assigned-on-the-same-line",
];

#[derive(Clone, Debug, Serialize, Deserialize, PartialEq)]
pub struct St {
    pub role: u8,
    pub name: u8,
    pub binding: u8,
    /// spelling variant of the with / for binding forms (several items, tuple targets)
    #[serde(default)]
    pub variant: u8,
}

#[derive(Clone, Debug, Serialize, Deserialize, PartialEq)]
pub struct Spec {
    /// 0 test, 1 fixture
    pub kind: u8,
    pub in_class: bool,
    pub is_async: bool,
    pub params: Vec<u8>,
    pub default_mask: u8,
    pub ann_mask: u8,
    pub ret: bool,
    /// 0 single line, 1 multi-line + trailing comma, 2 multi-line without trailing comma
    pub sig: u8,
    pub extra_deco: bool,
    pub stmts: Vec<St>,
    /// the sibling function that follows: 0 `def test_next(alpha):`, 1 `def test_next():`, 2 with return annotation
    pub sibling: u8,
}

pub fn spec() -> impl Strategy<Value = Spec> {
    let st = (0u8..24, prop_oneof![3 => 0u8..2, 2 => Just(2u8), 1 => Just(3u8), 1 => Just(4u8), 1 => Just(5u8), 1 => Just(6u8)], prop_oneof![6 => Just(0u8), 7 => 1u8..16], 0u8..4).prop_map(|(role, name, binding, variant)| St { role, name, binding, variant });
    (
        (0u8..3, prop_oneof![3 => Just(false), 1 => Just(true)], prop_oneof![4 => Just(false), 1 => Just(true)], vec(0u8..3, 0..=3), any::<u8>(), any::<u8>()),
        (prop_oneof![1 => Just(false), 1 => Just(true)], 0u8..3, prop_oneof![3 => Just(false), 1 => Just(true)], vec(st, 1..=4), 0u8..6),
    )
        .prop_map(|((kind, in_class, is_async, mut params, default_mask, ann_mask), (ret, sig, extra_deco, stmts, sibling))| {
            let mut seen = vec![];
            params.retain(|p| {
                if seen.contains(p) {
                    false
                } else {
                    seen.push(*p);
                    true
                }
            });
            Spec { kind, in_class, is_async, params, default_mask, ann_mask, ret, sig, extra_deco, stmts, sibling }
        })
}

#[derive(Clone, Debug)]
pub struct Expect {
    pub line: usize,
    pub start: usize,
    pub end: usize,
    pub name: String,
    /// Some(true) must flag, Some(false) must not, None unjudged
    pub flag: Option<bool>,
    pub role: u8,
    pub binding: u8,
    pub later_def: bool,
}

pub struct Rendered17 {
    pub text: String,
    pub expects: Vec<Expect>,
    pub func_name: String,
    pub func_line: usize,
    pub sibling_name: String,
    pub declared: Vec<String>,
}

pub fn render(s: &Spec) -> Rendered17 {
    let mut lines: Vec<String> = vec![];
    lines.push("import pytest".into());
    lines.push("import os".into());
    lines.push("shadowed = 1".into()); // module-level name that is also a fixture name (conftest defines it)
    lines.push(String::new());
    lines.push("@pytest.fixture".into());
    lines.push("def carol():".into());
    lines.push("    return 1".into());
    lines.push(String::new());
    let base = if s.in_class { "    " } else { "" };
    if s.in_class {
        lines.push("class TestBox:".into());
    }
    if s.kind == 1 {
        lines.push(format!("{}@pytest.fixture", base));
    } else if s.kind == 2 {
        // registered under another name: the alias is NOT a name the body may use freely
        lines.push(format!("{}@pytest.fixture(name=\"alpha\")", base));
    }
    if s.extra_deco {
        lines.push(format!("{}@pytest.mark.slow", base));
    }
    let fname = if s.kind >= 1 { "subject".to_string() } else { "test_subject".to_string() };
    let mut parts: Vec<String> = vec![];
    if s.in_class {
        parts.push("self".into());
    }
    let pnames = ["alpha", "bravo", "other"];
    let mut declared: Vec<String> = vec![];
    let mut any_default = false;
    for (i, p) in s.params.iter().enumerate() {
        let n = pnames[*p as usize % 3];
        declared.push(n.to_string());
        let mut t = n.to_string();
        let ann = (s.ann_mask >> i) & 1 == 1;
        let dflt = any_default || (s.default_mask >> i) & 1 == 1;
        // the upper bits of the masks choose the spelling: nested brackets with their own commas
        // (and trailing commas) inside an annotation or a default value
        if ann {
            // nibble 13: a string annotation that contains a `#` (not a comment)
            t.push_str(match if (s.ann_mask >> 4) == 13 { 9 } else { (s.ann_mask >> 4) % 4 } {
                9 => ": \"Colour#1\"",
                0 | 1 => ": int",
                2 => ": Tuple[int, int,]",
                _ => ": Dict[str, List[int]]",
            });
        }
        if dflt {
            any_default = true;
            // nibble 15: a string default that contains a `#`
            let v = if (s.default_mask >> 4) == 15 { "\"#fff\"" } else if (s.default_mask >> 4) % 3 == 2 { "(1,)" } else { "1" };
            t.push_str(&if ann { format!(" = {}", v) } else { format!("={}", v) });
        }
        parts.push(t);
    }
    // a statement with binding 7 (is-parameter) needs its name declared
    for st in &s.stmts {
        if st.binding == 7 {
            let n = NAMES[st.name as usize % 7].to_string();
            if !declared.contains(&n) && !any_default {
                declared.push(n.clone());
                parts.push(n);
            }
        }
    }
    let kw = if s.is_async { "async def" } else { "def" };
    let ret = if s.ret { " -> None" } else { "" };
    let func_line;
    match s.sig % 3 {
        0 => {
            func_line = lines.len() + 1;
            lines.push(format!("{}{} {}({}){}:", base, kw, fname, parts.join(", "), ret));
        }
        k => {
            func_line = lines.len() + 1;
            if parts.is_empty() {
                lines.push(format!("{}{} {}(", base, kw, fname));
                lines.push(format!("{}){}:", base, ret));
            } else {
                lines.push(format!("{}{} {}(", base, kw, fname));
                let n = parts.len();
                for (i, p) in parts.iter().enumerate() {
                    let comma = if i + 1 < n || k == 1 { "," } else { "" };
                    lines.push(format!("{}    {}{}", base, p, comma));
                }
                lines.push(format!("{}){}:", base, ret));
            }
        }
    }
    let ind = format!("{}    ", base);
    let mut expects: Vec<Expect> = vec![];
    for (si, st) in s.stmts.iter().enumerate() {
        let name = NAMES[st.name as usize % 7];
        let mut b = st.binding % 16;
        if b == 7 && !declared.iter().any(|d| d == name) {
            b = 0; // could not be added to the signature (a defaulted parameter precedes)
        }
        // binding preamble (earlier lines)
        match b {
            1 => lines.push(format!("{}{} = make()", ind, name)),
            3 => {
                if st.variant % 2 == 0 {
                    lines.push(format!("{}for {} in items():", ind, name));
                } else {
                    lines.push(format!("{}for first_item, {} in pairs():", ind, name));
                }
                lines.push(format!("{}    pass", ind));
            }
            4 => {
                match st.variant % 4 {
                    0 => lines.push(format!("{}with ctx() as {}:", ind, name)),
                    1 => lines.push(format!("{}with other_ctx(), ctx() as {}:", ind, name)),
                    2 => lines.push(format!("{}with ctx() as first_item, other_ctx() as {}:", ind, name)),
                    _ => lines.push(format!("{}with ctx() as (first_item, {}):", ind, name)),
                }
                lines.push(format!("{}    pass", ind));
            }
            // variant 1: the walrus sits in the header of an `if`, the use inside its body, and the
            // name is bound AGAIN after the use (still inside the body)
            5 if st.variant % 4 == 1 => lines.push(format!("{}if ({} := make()):", ind, name)),
            5 => lines.push(format!("{}check(({} := make()))", ind, name)),
            6 => lines.push(format!("{}import {}", ind, name)),
            8 => lines.push(format!("{}first, {} = pair()", ind, name)),
            9 => {
                lines.push(format!("{}{} = 0", ind, name));
                lines.push(format!("{}{} += 1", ind, name));
            }
            10 => {
                lines.push(format!("{}try:", ind));
                lines.push(format!("{}    risky()", ind));
                lines.push(format!("{}except Exception as {}:", ind, name));
                lines.push(format!("{}    pass", ind));
            }
            14 => lines.push(format!("{}{}: int = 3", ind, name)),
            _ => {}
        }
        // the use itself
        let line_no = lines.len() + 1;
        let (pre, post): (String, String) = match (st.role % 24, b) {
            (_, 11) => ("vals = [".to_string(), format!(" for {} in range(3)]", name)),
            (_, 12) => {
                lines.push(format!("{}def inner_{}({}):", ind, si, name));
                (format!("    return use("), ")".to_string())
            }
            (_, 13) => (format!("fn_{} = lambda {}: use(", si, name), ")".to_string()),
            (_, 15) => (format!("{} = wrap(", name), ")".to_string()),
            (0, _) => ("".to_string(), "()".to_string()),
            (1, _) => ("use(".to_string(), ")".to_string()),
            (2, _) => ("use(key=".to_string(), ")".to_string()),
            (3, _) => ("use(*".to_string(), ")".to_string()),
            (4, _) => ("value = ".to_string(), ".attr".to_string()),
            (5, _) => ("value = 1 + ".to_string(), "".to_string()),
            (6, _) => ("value = flag and ".to_string(), "".to_string()),
            (7, _) => ("value = not ".to_string(), "".to_string()),
            (8, _) => ("value = 1 == ".to_string(), "".to_string()),
            (9, _) => ("value = ".to_string(), "[0]".to_string()),
            (10, _) => ("value = table[".to_string(), "]".to_string()),
            (11, _) => ("value = [1, ".to_string(), "]".to_string()),
            (12, _) => ("value = (1, ".to_string(), ")".to_string()),
            (13, _) => ("value = {1, ".to_string(), "}".to_string()),
            (14, _) => ("value = {\"k\": ".to_string(), "}".to_string()),
            (15, _) => ("return ".to_string(), "".to_string()),
            (16, _) => ("assert ".to_string(), "".to_string()),
            (17, _) => ("if ".to_string(), ": pass".to_string()),
            (18, _) => ("while ".to_string(), ": break".to_string()),
            (19, _) => ("for _x in ".to_string(), ": pass".to_string()),
            (20, _) => ("with ".to_string(), " as _y: pass".to_string()),
            (21, _) => ("value = 1 if ".to_string(), " else 2".to_string()),
            (22, _) => ("value = f\"{".to_string(), "}\"".to_string()),
            (_, _) => {
                if s.is_async {
                    ("value = await ".to_string(), "".to_string())
                } else {
                    ("value = -".to_string(), "".to_string())
                }
            }
        };
        let in_if_body = b == 5 && st.variant % 4 == 1;
        let extra_ind = if in_if_body { "    " } else { "" };
        let full_pre = format!("{}{}{}", ind, extra_ind, pre);
        let start = full_pre.len();
        lines.push(format!("{}{}{}", full_pre, name, post));
        if in_if_body {
            lines.push(format!("{}    {} = other()", ind, name));
        }
        // binding after the use
        if b == 2 {
            lines.push(format!("{}{} = make()", ind, name));
        }
        // ground truth
        let is_fixture = st.name % 7 != 4;
        let is_declared = declared.iter().any(|d| d == name);
        // the function under test itself, when it is a fixture FUNCTION called `subject` (module-level def,
        // not a method): a module-level name, never a fixture request
        let own_function = st.name % 7 == 6 && s.kind >= 1 && !s.in_class;
        let in_class_own = st.name % 7 == 6 && s.kind >= 1 && s.in_class;
        let module_level = st.name % 7 == 5 || own_function;
        // (`except ... as name` unbinds the name again when the handler ends: not judged)
        let mut bound_earlier = matches!(b, 1 | 3 | 4 | 5 | 6 | 8 | 9 | 14);
        let mut murky = false;
        // bindings made by EARLIER statements of this function also cover this use
        for prev in &s.stmts[..si] {
            if NAMES[prev.name as usize % 7] != name {
                continue;
            }
            match prev.binding % 16 {
                1 | 2 | 3 | 4 | 5 | 6 | 8 | 9 | 14 | 15 => bound_earlier = true,
                10 => murky = true,
                _ => {}
            }
        }
        let inner_scope = matches!(b, 11 | 12 | 13);
        let flag = if !is_fixture || is_declared || module_level || bound_earlier {
            Some(false)
        } else if inner_scope || b == 2 || b == 10 || murky || in_class_own {
            None
        } else if b == 7 {
            Some(false)
        } else if role_required(st.role % 24) {
            Some(true)
        } else {
            None
        };
        expects.push(Expect { line: line_no, start, end: start + name.len(), name: name.to_string(), flag, role: st.role % 24, binding: b, later_def: st.name % 7 == 3 });
    }
    if s.stmts.iter().all(|st| (st.role % 24) != 15) {
        lines.push(format!("{}done = True", ind));
    }
    lines.push(String::new());
    // sibling function right after (in the same scope)
    let sib = match s.sibling % 3 {
        0 => "def test_next(alpha):",
        1 => "def test_next():",
        _ => "def test_next(alpha) -> None:",
    };
    lines.push(format!("{}{}", base, sib));
    lines.push(format!("{}    pass", base));
    lines.push(String::new());
    lines.push("@pytest.fixture".into());
    lines.push("def later():".into());
    lines.push("    return 2".into());
    lines.push(String::new());
    let mut text = lines.join("\n");
    text.push('\n');
    Rendered17 { text, expects, func_name: fname, func_line, sibling_name: "test_next".into(), declared }
}

pub const CONFTEST: &str = "import pytest\n\n@pytest.fixture\ndef alpha():\n    return 1\n\n@pytest.fixture\ndef bravo():\n    return 2\n\n@pytest.fixture\ndef shadowed():\n    return 3\n\n@pytest.fixture\ndef subject():\n    return 4\n";

fn has_default(s: &Spec) -> bool {
    (0..s.params.len()).any(|i| (s.default_mask >> i) & 1 == 1)
}

fn nontrivial(s: &Spec) -> bool {
    s.ret || s.sig % 3 != 0 || s.in_class || s.stmts.iter().any(|st| st.role % 24 != 1)
}

/// library tier: flagged set vs ground truth
pub fn check_lib(s: &Spec, info: &mut CaseInfo) -> Outcome {
    let r = render(s);
    let db = FixtureDatabase::new();
    if s.sibling / 3 == 1 {
        // a sibling package defines the same fixture names and happens to be analysed first: its
        // conftest is not visible from the document and must not change any verdict
        info.classes.push("same names in a sibling package's conftest, analysed first".into());
        db.analyze_file(PathBuf::from("/vw/c17_sibling/conftest.py"), CONFTEST);
    }
    db.analyze_file(PathBuf::from("/vw/c17/conftest.py"), CONFTEST);
    let p = PathBuf::from("/vw/c17/test_mod.py");
    db.analyze_file(p.clone(), &r.text);
    if !db.imports.contains_key(&p) {
        return Outcome::Fail(format!("generated module does not parse:\n{}", r.text));
    }
    if nontrivial(s) {
        info.nontrivial = true;
    }
    let got: Vec<(usize, usize, usize, String)> = db.get_undeclared_fixtures(&p).iter().map(|u| (u.line, u.start_char, u.end_char, u.name.clone())).collect();
    let mut known: BTreeSet<String> = BTreeSet::new();
    let mut detail = None;
    let mut matched = vec![false; got.len()];
    for e in &r.expects {
        info.checks += 1;
        info.classes.push(format!("role={}", ROLES[e.role as usize]));
        let hit = got.iter().position(|g| g.0 == e.line && g.1 == e.start && g.2 == e.end && g.3 == e.name);
        if let Some(i) = hit {
            matched[i] = true;
        }
        let here = format!("`{}` as {} ({}) at line {} cols {}..{}", e.name, ROLES[e.role as usize], BINDINGS[e.binding as usize], e.line, e.start, e.end);
        match (e.flag, hit.is_some()) {
            (Some(true), false) => {
                if e.later_def {
                    info.known_trigger = true;
                    known.insert(KF_LATER_DEF.into());
                    detail.get_or_insert(format!("{} is not flagged (the fixture is defined further down in the same file)", here));
                } else if matches!(e.role, 2 | 3 | 6 | 13) {
                    info.known_trigger = true;
                    known.insert(KF_ROLES.into());
                    detail.get_or_insert(format!("{} is not flagged", here));
                } else {
                    return Outcome::Fail(format!("{} is a plain use of a visible, undeclared fixture but is not flagged (flagged: {:?})\n{}", here, got, r.text));
                }
            }
            (Some(false), true) => {
                if matches!(e.binding, 5 | 6) {
                    info.known_trigger = true;
                    known.insert(KF_BINDINGS.into());
                    detail.get_or_insert(format!("{} is flagged although the name is bound on an earlier line", here));
                } else {
                    return Outcome::Fail(format!("{} must not be flagged but is\n{}", here, r.text));
                }
            }
            _ => {}
        }
    }
    // every reported finding must sit exactly on one of the generated tokens (or on a token of the same name)
    for (i, g) in got.iter().enumerate() {
        if matched[i] {
            continue;
        }
        let line_text = r.text.lines().nth(g.0 - 1).unwrap_or("");
        let tok = line_text.get(g.1..g.2).unwrap_or("");
        if tok != g.3 {
            return Outcome::Fail(format!("finding for `{}` at line {} cols {}..{} does not cover that identifier (covers {:?})\n{}", g.3, g.0, g.1, g.2, tok, r.text));
        }
        // a token of that name we did not plan as a use: the binding preamble lines (e.g. `alpha += 1`)
        let planned = r.expects.iter().any(|e| e.name == g.3);
        if !planned {
            return Outcome::Fail(format!("unexpected finding for `{}` at line {}\n{}", g.3, g.0, r.text));
        }
    }
    if known.is_empty() {
        Outcome::Ok
    } else {
        info.fail_detail = detail.map(|d| format!("{}\n{}", d, r.text));
        Outcome::Known(known.into_iter().collect())
    }
}

fn apply_edit(text: &str, line0: u64, ch: u64, new_text: &str) -> Option<String> {
    let mut lines: Vec<String> = text.split('\n').map(|l| l.to_string()).collect();
    let l = lines.get_mut(line0 as usize)?;
    if ch as usize > l.len() || !l.is_char_boundary(ch as usize) {
        return None;
    }
    l.insert_str(ch as usize, new_text);
    Some(lines.join("\n"))
}

/// after applying an edit for fixture `name`: parses, `name` is a parameter of `func` and of no
/// other function that did not have it before
fn judge_edit(before: &str, after: &str, func: &str, name: &str) -> Result<(), String> {
    let (Some(sb), Some(sa)) = (with_oracle(|p| p.signatures(before)), with_oracle(|p| p.signatures(after))) else { return Err("python oracle unavailable".into()) };
    if !sa["ok"].as_bool().unwrap_or(false) {
        return Err(format!("the edited document does not parse: {}", sa["error"]));
    }
    let params = |v: &Value, f: &str| -> Option<Vec<String>> { v["funcs"].as_array()?.iter().find(|x| x["name"].as_str() == Some(f)).map(|x| x["params"].as_array().into_iter().flatten().map(|p| p.as_str().unwrap_or("").to_string()).collect()) };
    let pa = params(&sa, func).ok_or("function vanished")?;
    if !pa.iter().any(|p| p == name) {
        return Err(format!("`{}` is not a parameter of `{}` after the edit (parameters: {:?})", name, func, pa));
    }
    for f in sb["funcs"].as_array().into_iter().flatten() {
        let fname = f["name"].as_str().unwrap_or("");
        if fname == func {
            continue;
        }
        let b = params(&sb, fname);
        let a = params(&sa, fname);
        if a != b {
            return Err(format!("another function's signature changed: `{}` {:?} -> {:?}", fname, b, a));
        }
    }
    Ok(())
}

pub fn check_server(ctx: &Ctx, s: &Spec, info: &mut CaseInfo) -> Outcome {
    let r = render(s);
    if nontrivial(s) {
        info.nontrivial = true;
    }
    let dir = "/dev/shm/verif-c17-absent";
    let cpath = format!("{}/conftest.py", dir);
    let path = format!("{}/test_mod.py", dir);
    let uri = uri_of(&path);
    let mut srv = match LspSession::start(None, &[]) {
        Ok(x) => x,
        Err(e) => return infra_outcome(classify(e, "initialize"), &ctx.inconclusive),
    };
    macro_rules! tr {
        ($e:expr, $w:expr) => {
            match $e {
                Ok(v) => v,
                Err(e) => {
                    return match classify(e, $w) {
                        Infra::Crash(m) => Outcome::Fail(format!("{}\n{}", m, r.text)),
                        i => infra_outcome(i, &ctx.inconclusive),
                    }
                }
            }
        };
    }
    tr!(srv.open(&cpath, CONFTEST), "didOpen conftest");
    let diags = tr!(srv.open(&path, &r.text), "didOpen");
    let mut known: BTreeSet<String> = BTreeSet::new();
    let mut detail = None;
    let und: Vec<Value> = diags.as_array().into_iter().flatten().filter(|d| d["code"] == "undeclared-fixture").cloned().collect();
    let mut version = 1;
    for d in &und {
        info.checks += 1;
        let name = d["message"].as_str().unwrap_or("").split('\'').nth(1).unwrap_or("").to_string();
        let dline = d["range"]["start"]["line"].as_u64().unwrap_or(0) as usize + 1;
        // diagnostics inside the function under test only (the generator knows its extent)
        if !r.expects.iter().any(|e| e.line == dline) {
            continue;
        }
        let acts = tr!(
            srv.request("textDocument/codeAction", json!({"textDocument": {"uri": uri}, "range": d["range"], "context": {"diagnostics": [d]}})),
            "codeAction"
        );
        let edits: Vec<Value> = acts.as_array().into_iter().flatten().flat_map(|a| a["edit"]["changes"][&uri].as_array().cloned().unwrap_or_default()).collect();
        if edits.is_empty() {
            // recorded finding: no quick fix for signatures the text search cannot handle
            if s.ret || s.sig % 3 != 0 {
                info.known_trigger = true;
                known.insert(KF_NO_QUICKFIX.into());
                detail.get_or_insert(format!("no quick fix is offered for the undeclared `{}` in a function with {}", name, if s.ret { "a return annotation" } else { "a multi-line signature" }));
                continue;
            }
            return Outcome::Fail(format!("no quick fix is offered for the undeclared fixture `{}` at line {}\n{}", name, dline, r.text));
        }
        let e = &edits[0];
        let after = apply_edit(&r.text, e["range"]["start"]["line"].as_u64().unwrap_or(0), e["range"]["start"]["character"].as_u64().unwrap_or(0), e["newText"].as_str().unwrap_or(""));
        let Some(after) = after else { return Outcome::Fail(format!("quick fix edit {} is outside the document\n{}", e, r.text)) };
        if let Err(m) = judge_edit(&r.text, &after, &r.func_name, &name) {
            if m.contains("non-default argument follows default argument") && has_default(s) {
                info.known_trigger = true;
                known.insert(KF_DEFAULT.into());
                detail.get_or_insert(format!("quick fix for `{}`: {}", name, m));
                continue;
            }
            if s.ret || s.sig % 3 != 0 {
                info.known_trigger = true;
                known.insert(KF_EDIT_LOCATOR.into());
                detail.get_or_insert(format!("quick fix for `{}`: {}", name, m));
                continue;
            }
            return Outcome::Fail(format!("quick fix for `{}`: {}\n--- before ---\n{}\n--- after ---\n{}", name, m, r.text, after));
        }
        // warning gone after re-analysis
        version += 1;
        let d2 = tr!(srv.change(&path, version, &after), "didChange");
        let still = d2.as_array().into_iter().flatten().any(|x| x["code"] == "undeclared-fixture" && x["message"].as_str().unwrap_or("").contains(&format!("'{}'", name)) && r.expects.iter().any(|e| e.line as u64 == x["range"]["start"]["line"].as_u64().unwrap_or(0) + 1));
        if still {
            return Outcome::Fail(format!("the warning for `{}` is still published after applying its quick fix\n--- after ---\n{}", name, after));
        }
        version += 1;
        tr!(srv.change(&path, version, &r.text), "didChange back");
    }
    // body completion: additionalTextEdits
    if let Some(e0) = r.expects.first() {
        let c = tr!(srv.request("textDocument/completion", LspSession::pos_params(&path, (e0.line - 1) as u32, e0.start as u32)), "completion");
        let items = if c.is_array() { c.clone() } else { c.get("items").cloned().unwrap_or(Value::Null) };
        for it in items.as_array().into_iter().flatten() {
            let label = it["label"].as_str().unwrap_or("").to_string();
            let Some(ed) = it["additionalTextEdits"].as_array().and_then(|a| a.first()).cloned() else { continue };
            if label != "bravo" && label != "alpha" {
                continue;
            }
            if r.declared.contains(&label) {
                return Outcome::Fail(format!("completion offers `{}` although it is already a parameter\n{}", label, r.text));
            }
            info.checks += 1;
            let after = apply_edit(&r.text, ed["range"]["start"]["line"].as_u64().unwrap_or(0), ed["range"]["start"]["character"].as_u64().unwrap_or(0), ed["newText"].as_str().unwrap_or(""));
            let Some(after) = after else { return Outcome::Fail(format!("completion parameter edit {} is outside the document\n{}", ed, r.text)) };
            if let Err(m) = judge_edit(&r.text, &after, &r.func_name, &label) {
                if m.contains("non-default argument follows default argument") && has_default(s) {
                    info.known_trigger = true;
                    known.insert(KF_DEFAULT.into());
                    detail.get_or_insert(format!("completion parameter edit for `{}`: {}", label, m));
                    continue;
                }
                if s.ret || s.sig % 3 != 0 {
                    info.known_trigger = true;
                    known.insert(KF_EDIT_LOCATOR.into());
                    detail.get_or_insert(format!("completion parameter edit for `{}`: {}", label, m));
                    continue;
                }
                return Outcome::Fail(format!("completion parameter edit for `{}`: {}\n--- before ---\n{}\n--- after ---\n{}", label, m, r.text, after));
            }
        }
    }
    srv.shutdown();
    if known.is_empty() {
        Outcome::Ok
    } else {
        info.fail_detail = detail.map(|d| format!("{}\n{}", d, r.text));
        Outcome::Known(known.into_iter().collect())
    }
}

pub fn run(ctx: &Ctx) {
    ctx.run_prop("lib", ctx.tier.pick(80_000, 2_000_000), 16, spec, |s, info| check_lib(s, info));
    ctx.run_prop_shrink("server", ctx.tier.pick(400, 12_000), 8, 300, spec, |s, info| check_server(ctx, s, info));
}

pub fn judge(ctx: &Ctx, sub: &str, case: &Value) -> Option<Outcome> {
    let mut info = CaseInfo::default();
    match sub {
        "lib" => {
            let s: Spec = from_case(case)?;
            Some(check_lib(&s, &mut info))
        }
        "server" => {
            let s: Spec = from_case(case)?;
            Some(check_server(ctx, &s, &mut info))
        }
        _ => None,
    }
}

#[allow(unused)]
fn _u(_: &Path) {}
