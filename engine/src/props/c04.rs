//! C04 — find-references is the exact inverse of go-to-definition (library tier).
//! Oracle: metamorphic relation between two queries of the implementation, no model:
//!   U in refs(D)  <=>  goto(U) == D,  for every definition D and recorded usage U.

use crate::db::*;
use crate::gen::{workspace, GenCfg};
use crate::hist::*;
use crate::model::Model;
use crate::runner::*;
use crate::snapshot::all_defs;
use crate::spec::WorkspaceSpec;
use proptest::strategy::Strategy;
use pytest_language_server::{FixtureDatabase, FixtureDefinition};
use serde_json::Value;
use std::collections::{BTreeMap, BTreeSet};
use std::path::{Path, PathBuf};

pub const RULE: &str = "proptest-generated in-memory workspaces (shadowed names, overrides with self-named parameters, imported / plugin / third-party fixtures, duplicate definitions in one file) and edit histories over them (every prefix, replayed on a fresh index); for every (definition, usage) pair the relation `U in find_references_for_definition(D) <=> find_fixture_definition(U) == D` is checked, plus no duplicates and reverse index == regrouped forward index. Real-world tier: the test suites shipped inside installed Python packages (numpy, scipy, sympy, networkx, pydantic, typer, ...; 6 in the quick tier, all found in thorough) are scanned in place by the real scan and the same inverse relation is evaluated. Rescan tier: the scan path revisits opened documents. Non-trivial = some name has >=2 definitions and >=2 usages that resolve to different definitions (or one resolves to nothing); distinct = distinct generated values.";
pub const ASSUMPTIONS: &[&str] = &[
    "pure cross-query comparison on the implementation (which answer is right is C01's business)",
    "usages inside a file whose current text is unparsable are not queried by position (stale positions are C11's business)",
    "LSP counters (codeLens, incomingCalls) and CLI counts are compared with the same set in the lsp/cli sub-checks",
];

pub fn cfg() -> GenCfg {
    GenCfg { names: 3, allow_dups_in_file: true, ..GenCfg::default() }
}

type UKey = (PathBuf, usize, usize, usize, String);

pub fn inverse_relation(db: &FixtureDatabase, skip_files: &BTreeSet<PathBuf>, info: &mut CaseInfo) -> Result<(), String> {
    inverse_relation_opts(db, skip_files, info, false)
}

/// `merge_equal_defs`: identical definition records (same file, line, name and fields - what the
/// scan's revisit of an opened document leaves behind, C10's recorded finding) count as one definition
pub fn inverse_relation_opts(db: &FixtureDatabase, skip_files: &BTreeSet<PathBuf>, info: &mut CaseInfo, merge_equal_defs: bool) -> Result<(), String> {
    let mut defs = all_defs(db);
    if merge_equal_defs {
        defs.dedup();
    }
    // refs per definition
    let mut listed: BTreeMap<UKey, Vec<usize>> = BTreeMap::new();
    for (di, d) in defs.iter().enumerate() {
        let refs = db.find_references_for_definition(d);
        let mut seen: BTreeSet<UKey> = BTreeSet::new();
        for u in refs {
            let k: UKey = (u.file_path.clone(), u.line, u.start_char, u.end_char, u.name.clone());
            if !seen.insert(k.clone()) {
                return Err(format!("usage {:?} is listed twice among the references of {}:{}:{}", k, d.file_path.display(), d.line, d.name));
            }
            listed.entry(k).or_default().push(di);
        }
    }
    let mut files: Vec<PathBuf> = db.usages.iter().map(|e| e.key().clone()).collect();
    files.sort();
    let mut all_usage_keys: BTreeSet<UKey> = BTreeSet::new();
    let mut targets_by_name: BTreeMap<String, BTreeSet<Option<usize>>> = BTreeMap::new();
    for f in &files {
        let us = db.usages.get(f).map(|u| u.value().clone()).unwrap_or_default();
        for u in us {
            let k: UKey = (u.file_path.clone(), u.line, u.start_char, u.end_char, u.name.clone());
            all_usage_keys.insert(k.clone());
            if skip_files.contains(f) {
                info.unjudged += 1;
                continue;
            }
            info.checks += 1;
            let g: Option<FixtureDefinition> = db.find_fixture_definition(f, (u.line - 1) as u32, u.start_char as u32);
            let gi = g.as_ref().and_then(|g| defs.iter().position(|d| d == g));
            if g.is_some() && gi.is_none() {
                return Err(format!("go-to-definition on {:?} returns a definition that is not in the index: {:?}", k, g));
            }
            targets_by_name.entry(u.name.clone()).or_default().insert(gi);
            let l = listed.get(&k).cloned().unwrap_or_default();
            let expect: Vec<usize> = gi.into_iter().collect();
            if l != expect {
                let show = |v: &Vec<usize>| v.iter().map(|i| format!("{}:{}", defs[*i].file_path.display(), defs[*i].line)).collect::<Vec<_>>();
                return Err(format!(
                    "usage `{}` at {}:{}:{}: go-to-definition -> {:?} but it is listed among the references of {:?}",
                    u.name,
                    f.display(),
                    u.line,
                    u.start_char,
                    show(&expect),
                    show(&l)
                ));
            }
        }
    }
    // a listed reference must be a recorded usage
    for k in listed.keys() {
        if !all_usage_keys.contains(k) {
            return Err(format!("reference {:?} is not a recorded usage of its file", k));
        }
    }
    // reverse index == regrouped forward index (multisets)
    let mut fwd: BTreeMap<String, Vec<UKey>> = BTreeMap::new();
    for e in db.usages.iter() {
        for u in e.value().iter() {
            if &u.file_path != e.key() {
                return Err(format!("usage stored under {:?} claims file {:?}", e.key(), u.file_path));
            }
            fwd.entry(u.name.clone()).or_default().push((u.file_path.clone(), u.line, u.start_char, u.end_char, u.name.clone()));
        }
    }
    let mut rev: BTreeMap<String, Vec<UKey>> = BTreeMap::new();
    for e in db.usage_by_fixture.iter() {
        if e.value().is_empty() {
            return Err(format!("reverse index keeps an empty entry for `{}`", e.key()));
        }
        for (p, u) in e.value().iter() {
            if p != &u.file_path || &u.name != e.key() {
                return Err(format!("reverse index entry under `{}` is inconsistent: {:?} {:?}", e.key(), p, u));
            }
            rev.entry(e.key().clone()).or_default().push((u.file_path.clone(), u.line, u.start_char, u.end_char, u.name.clone()));
        }
    }
    for v in fwd.values_mut() {
        v.sort();
    }
    for v in rev.values_mut() {
        v.sort();
    }
    if fwd != rev {
        return Err(format!("reverse usage index differs from the regrouped forward index: forward={:?} reverse={:?}", fwd, rev));
    }
    if targets_by_name.values().any(|s| s.len() >= 2) {
        info.nontrivial = true;
    }
    Ok(())
}

#[derive(Clone, Debug, serde::Serialize, serde::Deserialize)]
pub struct Case {
    pub ws: WorkspaceSpec,
}

pub fn check_ws(ws: &WorkspaceSpec, info: &mut CaseInfo) -> Outcome {
    let m = Model::new(ws);
    let db = build_db(&m, &ws.order());
    match inverse_relation(&db, &BTreeSet::new(), info) {
        Ok(()) => Outcome::Ok,
        Err(e) => Outcome::Fail(e),
    }
}

#[derive(Clone, Debug, serde::Serialize, serde::Deserialize)]
pub struct RescanCase {
    pub ws: WorkspaceSpec,
    /// files (bit = index mod 16) that the background scan visits AFTER the editor analysed them
    /// (didOpen arrived first), with the same text
    pub rescan_mask: u16,
}

/// The scan path re-analyses documents the editor already sent. Whatever that does to the
/// definitions (C10's recorded finding: they are registered twice), references must stay the inverse
/// of go-to-definition and list every usage once.
pub fn check_rescan(c: &RescanCase, info: &mut CaseInfo) -> Outcome {
    let m = Model::new(&c.ws);
    let order = c.ws.order();
    let db = build_db(&m, &order);
    let mut n = 0;
    for &fi in &order {
        if (c.rescan_mask >> (fi % 16)) & 1 == 1 {
            db.verif_analyze_file_fresh(PathBuf::from(m.path(fi)), &m.rendered[fi].text);
            n += 1;
        }
    }
    if n > 0 {
        info.classes.push("scan revisits an opened document".into());
    }
    match inverse_relation_opts(&db, &BTreeSet::new(), info, true) {
        Ok(()) => Outcome::Ok,
        Err(e) => Outcome::Fail(format!("after the scan revisited {} opened document(s): {}", n, e)),
    }
}

/// Real-world multi-file workspaces found offline: the test suites shipped inside installed Python
/// packages (numpy, scipy, sympy, networkx, pydantic, typer, ...), each scanned in place by the real
/// scan. The inverse relation needs no model, so it applies to any tree.
pub fn corpus_workspaces(limit: usize) -> Vec<PathBuf> {
    let mut out: Vec<PathBuf> = Vec::new();
    let mut bases: Vec<PathBuf> = vec![PathBuf::from("/opt/veriftools/pyvenv/lib/python3.11/site-packages"), PathBuf::from("/root/miniconda/lib/python3.13/site-packages")];
    if let Ok(rd) = std::fs::read_dir("/root/miniconda/pkgs") {
        let mut pk: Vec<PathBuf> = rd.flatten().map(|e| e.path()).filter(|p| p.is_dir()).collect();
        pk.sort();
        for p in pk {
            for py in ["python3.13", "python3.12", "python3.11"] {
                let sp = p.join("lib").join(py).join("site-packages");
                if sp.is_dir() {
                    bases.push(sp);
                }
            }
        }
    }
    fn has_tests(d: &Path, depth: usize) -> bool {
        if depth > 5 {
            return false;
        }
        let Ok(rd) = std::fs::read_dir(d) else { return false };
        let mut es: Vec<PathBuf> = rd.flatten().map(|e| e.path()).collect();
        es.sort();
        for p in &es {
            if let Some(n) = p.file_name().and_then(|n| n.to_str()) {
                if p.is_file() && n.ends_with(".py") && (n.starts_with("test_") || n == "conftest.py") {
                    return true;
                }
            }
        }
        es.iter().any(|p| p.is_dir() && has_tests(p, depth + 1))
    }
    for b in bases {
        let Ok(rd) = std::fs::read_dir(&b) else { continue };
        let mut ds: Vec<PathBuf> = rd.flatten().map(|e| e.path()).filter(|p| p.is_dir()).collect();
        ds.sort();
        for d in ds {
            let n = d.file_name().and_then(|n| n.to_str()).unwrap_or("");
            if n.ends_with(".dist-info") || n.ends_with(".egg-info") || n.starts_with('_') {
                continue;
            }
            if has_tests(&d, 0) {
                out.push(d);
            }
        }
    }
    out.truncate(limit);
    out
}

pub fn check_corpus_workspace(dir: &Path, info: &mut CaseInfo) -> Outcome {
    let db = FixtureDatabase::new();
    db.scan_workspace(dir);
    let files = db.file_cache.len();
    let defs = all_defs(&db).len();
    info.classes.push(format!("corpus workspace: {} files", if files < 10 { "<10" } else if files < 100 { "10-99" } else { ">=100" }));
    if defs >= 2 {
        info.nontrivial = true;
    }
    match inverse_relation(&db, &BTreeSet::new(), info) {
        Ok(()) => Outcome::Ok,
        Err(e) => Outcome::Fail(format!("real-world workspace {} ({} files, {} fixture definitions): {}", dir.display(), files, defs, e)),
    }
}

pub fn check_history(h: &History, info: &mut CaseInfo) -> Outcome {
    let cfg = hist_cfg();
    let m = Model::new(&h.ws);
    let mut it = Interp::new(&cfg, &h.ws);
    let n0 = it.sent.len();
    for (k, s) in h.steps.iter().enumerate() {
        it.apply(s);
        let db = new_db_for(&m);
        for (i, (fi, text, _)) in it.sent.iter().enumerate().take(n0 + k + 1) {
            let p = PathBuf::from(it.files[*fi].loc.path());
            if it.closed_before.contains(&i) {
                db.cleanup_file_cache(&p);
            }
            db.analyze_file(p, text);
        }
        let skip: BTreeSet<PathBuf> = it.files.iter().filter(|f| !f.valid).map(|f| PathBuf::from(f.loc.path())).collect();
        if let Err(e) = inverse_relation(&db, &skip, info) {
            return Outcome::Fail(format!("after step {} ({:?}): {}", k + 1, s.edit, e));
        }
    }
    Outcome::Ok
}

pub fn hist_cfg() -> GenCfg {
    GenCfg { names: 3, max_depth: 2, max_items: 3, allow_dups_in_file: true, ..GenCfg::default() }
}

pub fn run(ctx: &Ctx) {
    ctx.run_prop("lib-ws", ctx.tier.pick(12_000, 600_000), 16, || workspace(cfg()).prop_map(|ws| Case { ws }), |c, info| check_ws(&c.ws, info));
    ctx.run_prop_shrink("lsp-cli", ctx.tier.pick(100, 2500), 8, 150, || workspace(lsp_cfg()).prop_map(|ws| Case { ws }), |c, info| {
        crate::props::lsp_tiers::c04_counters(ctx, &c.ws, info)
    });
    ctx.run_prop("lib-history", ctx.tier.pick(3_000, 150_000), 16, || history(hist_cfg(), 6), |h, info| check_history(h, info));
    let dirs = corpus_workspaces(ctx.tier.pick(6, 10_000) as usize);
    let mut scanned = 0u64;
    for d in &dirs {
        let mut info = CaseInfo::default();
        let out = std::panic::catch_unwind(std::panic::AssertUnwindSafe(|| check_corpus_workspace(d, &mut info))).unwrap_or_else(|_| Outcome::Fail("PANIC while scanning".into()));
        scanned += 1;
        ctx.record(&serde_json::json!({"corpus_workspace": d.to_string_lossy()}), &info, &out);
        if let Outcome::Fail(m) = out {
            ctx.violation("corpus-ws", &serde_json::json!({"dir": d.to_string_lossy()}), &m);
            break;
        }
    }
    ctx.set_extra("corpus_workspaces_scanned", serde_json::json!(scanned));
    ctx.run_prop("lib-rescan", ctx.tier.pick(4_000, 200_000), 16, || (workspace(cfg()), proptest::num::u16::ANY).prop_map(|(ws, rescan_mask)| RescanCase { ws, rescan_mask }), |c, info| check_rescan(c, info));
}

pub fn lsp_cfg() -> GenCfg {
    GenCfg { names: 3, max_depth: 3, max_items: 3, allow_dups_in_file: false, ..GenCfg::default() }
}

pub fn judge(ctx: &Ctx, sub: &str, case: &Value) -> Option<Outcome> {
    let mut info = CaseInfo::default();
    match sub {
        "lsp-cli" => {
            let c: Case = from_case(case)?;
            Some(crate::props::lsp_tiers::c04_counters(ctx, &c.ws, &mut info))
        }
        "lib-ws" => {
            let c: Case = from_case(case)?;
            Some(check_ws(&c.ws, &mut info))
        }
        "lib-history" => {
            let h: History = from_case(case)?;
            Some(check_history(&h, &mut info))
        }
        "corpus-ws" => {
            let d = case.get("dir")?.as_str()?;
            Some(check_corpus_workspace(Path::new(d), &mut info))
        }
        "lib-rescan" => {
            let c: RescanCase = from_case(case)?;
            Some(check_rescan(&c, &mut info))
        }
        _ => None,
    }
}
