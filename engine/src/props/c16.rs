//! C16 — dependency diagnostics (cycles, scope mismatches) are exact and stable.
//! Oracle: reference dependency graph at definition level (every parameter resolved by the model
//! from the depending fixture's file) vs detect_fixture_cycles / detect_scope_mismatches_in_file.

use crate::db::*;
use crate::gen::{workspace, GenCfg};
use crate::model::{DefId, Model, Res};
use crate::runner::*;
use crate::snapshot::norm_cycle;
use crate::spec::*;
use proptest::strategy::Strategy;
use serde_json::Value;
use std::collections::{BTreeMap, BTreeSet, HashMap, HashSet};
use pytest_language_server::FixtureDatabase;
use std::path::{Path, PathBuf};

pub const RULE: &str = "proptest-generated in-memory workspaces whose fixtures request 0-3 names from a pool of 4 (self-loops with and without a parent, several SCCs, cycles through overridden names, unknown names, the five scopes, same name at several levels with different scopes, random registration order). After the judgements up to two non-conftest modules that define fixtures are re-analysed with a text that defines none (reports computed before each edit), and the cycle reports must equal those of an index built from the resulting contents in the same analysis order. Cycles: every reported path must be a closed chain in the reference definition-level graph containing its anchor, every cyclic SCC must be reported at least once; scope: warning set == model set; reports identical over 4 forced recomputations. Non-trivial = the reference graph has a cyclic SCC or a dependency name is defined at >=2 levels with different scopes; distinct = distinct workspace specs.";
pub const ASSUMPTIONS: &[&str] = &[
    "reference model of pytest lookup (model.rs) for every dependency edge",
    "workspaces where some dependency resolves to 'any of several' plugin/third-party definitions are not judged",
    "stability across registration orders and processes is C08's business",
];

pub const KF_NAME_GRAPH: &str = "KF-C16-name-level-cycle-graph";
pub const KF_SCOPE_FIRST: &str = "KF-C16-scope-check-first-definition";

pub fn cfg() -> GenCfg {
    GenCfg { names: 4, self_dep_bias: 2, max_items: 4, allow_dups_in_file: false, ..GenCfg::default() }
}

#[derive(Clone, Debug, serde::Serialize, serde::Deserialize)]
pub struct Case {
    pub ws: WorkspaceSpec,
}

/// reference edges: def -> (param name, resolved def)
fn ref_graph(m: &Model) -> Option<BTreeMap<DefId, Vec<(String, Option<DefId>)>>> {
    let mut g = BTreeMap::new();
    for d in m.all_defs() {
        let t = m.def_tok(d);
        let mut edges = Vec::new();
        for p in &t.deps {
            let ex = if *p == t.name { Some(d) } else { None };
            match m.resolve(d.file, p, ex) {
                Res::One(x) => edges.push((p.clone(), Some(x))),
                // a fixture requesting its own name with nothing to override: pytest reports a
                // recursive dependency, i.e. a self-loop
                Res::None if ex.is_some() => edges.push((p.clone(), Some(d))),
                Res::None => edges.push((p.clone(), None)),
                _ => return None,
            }
        }
        g.insert(d, edges);
    }
    Some(g)
}

fn sccs(g: &BTreeMap<DefId, Vec<(String, Option<DefId>)>>) -> Vec<BTreeSet<DefId>> {
    // Tarjan
    struct St<'a> {
        g: &'a BTreeMap<DefId, Vec<(String, Option<DefId>)>>,
        idx: BTreeMap<DefId, usize>,
        low: BTreeMap<DefId, usize>,
        on: BTreeSet<DefId>,
        st: Vec<DefId>,
        n: usize,
        out: Vec<BTreeSet<DefId>>,
    }
    fn go(s: &mut St, v: DefId) {
        s.idx.insert(v, s.n);
        s.low.insert(v, s.n);
        s.n += 1;
        s.st.push(v);
        s.on.insert(v);
        let edges: Vec<DefId> = s.g.get(&v).map(|e| e.iter().filter_map(|(_, t)| *t).collect()).unwrap_or_default();
        for w in edges {
            if !s.idx.contains_key(&w) {
                go(s, w);
                let lw = s.low[&w];
                let lv = s.low[&v];
                s.low.insert(v, lv.min(lw));
            } else if s.on.contains(&w) {
                let iw = s.idx[&w];
                let lv = s.low[&v];
                s.low.insert(v, lv.min(iw));
            }
        }
        if s.low[&v] == s.idx[&v] {
            let mut comp = BTreeSet::new();
            while let Some(w) = s.st.pop() {
                s.on.remove(&w);
                comp.insert(w);
                if w == v {
                    break;
                }
            }
            s.out.push(comp);
        }
    }
    let mut s = St { g, idx: BTreeMap::new(), low: BTreeMap::new(), on: BTreeSet::new(), st: vec![], n: 0, out: vec![] };
    for v in g.keys() {
        if !s.idx.contains_key(v) {
            go(&mut s, *v);
        }
    }
    s.out
}

/// Can the name path n0 -> n1 -> ... -> n0 be realised by definitions along reference edges,
/// with `anchor` one of the definitions?
fn realisable(m: &Model, g: &BTreeMap<DefId, Vec<(String, Option<DefId>)>>, path: &[String], anchor: Option<DefId>) -> bool {
    if path.len() < 2 || path.first() != path.last() {
        return false;
    }
    let k = path.len() - 1;
    // candidates for position 0
    for d0 in m.all_defs().into_iter().filter(|d| m.def_tok(*d).name == path[0]) {
        // follow deterministic edges: from a def, the edge labelled path[i+1] is unique
        let mut cur = d0;
        let mut ok = true;
        let mut members = vec![d0];
        for i in 0..k {
            let next_name = &path[i + 1];
            match g.get(&cur).and_then(|e| e.iter().find(|(p, _)| p == next_name)).and_then(|(_, t)| *t) {
                Some(nx) => {
                    cur = nx;
                    if i + 1 < k {
                        members.push(nx);
                    }
                }
                None => {
                    ok = false;
                    break;
                }
            }
        }
        if ok && cur == d0 && anchor.map(|a| members.contains(&a)).unwrap_or(true) {
            return true;
        }
    }
    false
}

/// The recorded wrong behaviour, ported literally: name-level graph over the first-registered
/// definition of every name, dependencies kept when the name is known at all, sorted roots.
fn variant_cycles(m: &Model, order: &[usize]) -> Vec<(Vec<String>, DefId)> {
    let mut first: BTreeMap<String, DefId> = BTreeMap::new();
    for &fi in order {
        let mut defs: Vec<&crate::render::DefTok> = m.rendered[fi].defs.iter().collect();
        defs.sort_by_key(|d| d.line);
        for d in defs {
            first.entry(d.name.clone()).or_insert(DefId { file: fi, line: d.line });
        }
    }
    let mut dep_graph: HashMap<String, Vec<String>> = HashMap::new();
    for (n, d) in &first {
        let deps: Vec<String> = m.def_tok(*d).deps.iter().filter(|x| first.contains_key(*x)).cloned().collect();
        dep_graph.insert(n.clone(), deps);
    }
    let mut cycles = Vec::new();
    let mut visited: HashSet<String> = HashSet::new();
    let mut seen: HashSet<String> = HashSet::new();
    let mut roots: Vec<&String> = dep_graph.keys().collect();
    roots.sort();
    for start in roots {
        if visited.contains(start) {
            continue;
        }
        let mut stack: Vec<(String, usize, Vec<String>)> = vec![(start.clone(), 0, vec![])];
        let mut rec: HashSet<String> = HashSet::new();
        while let Some((current, idx, mut path)) = stack.pop() {
            if idx == 0 {
                if rec.contains(&current) {
                    let s = path.iter().position(|f| f == &current).unwrap_or(0);
                    let mut cp: Vec<String> = path[s..].to_vec();
                    cp.push(current.clone());
                    let mut key: Vec<String> = cp[..cp.len() - 1].to_vec();
                    key.sort();
                    let key = key.join(",");
                    if seen.insert(key) {
                        if let Some(d) = first.get(&current) {
                            cycles.push((cp, *d));
                        }
                    }
                    continue;
                }
                rec.insert(current.clone());
                path.push(current.clone());
            }
            let deps = match dep_graph.get(&current) {
                Some(d) => d,
                None => {
                    rec.remove(&current);
                    continue;
                }
            };
            if idx < deps.len() {
                stack.push((current.clone(), idx + 1, path.clone()));
                let dep = &deps[idx];
                if rec.contains(dep) {
                    let s = path.iter().position(|f| f == dep).unwrap_or(0);
                    let mut cp: Vec<String> = path[s..].to_vec();
                    cp.push(dep.clone());
                    let mut key: Vec<String> = cp[..cp.len() - 1].to_vec();
                    key.sort();
                    let key = key.join(",");
                    if seen.insert(key) {
                        if let Some(d) = first.get(dep) {
                            cycles.push((cp, *d));
                        }
                    }
                } else if !visited.contains(dep) {
                    stack.push((dep.clone(), 0, path.clone()));
                }
            } else {
                visited.insert(current.clone());
                rec.remove(&current);
            }
        }
    }
    cycles
}

pub fn check_ws(ws: &WorkspaceSpec, info: &mut CaseInfo) -> Outcome {
    let m = Model::new(ws);
    let order = ws.order();
    let db = build_db(&m, &order);
    let Some(g) = ref_graph(&m) else {
        info.unjudged += 1;
        return Outcome::Ok;
    };
    let comps = sccs(&g);
    let cyclic: Vec<&BTreeSet<DefId>> = comps
        .iter()
        .filter(|c| c.len() > 1 || c.iter().any(|d| g[d].iter().any(|(_, t)| *t == Some(*d))))
        .collect();
    if !cyclic.is_empty() {
        info.nontrivial = true;
        info.classes.push(format!("cyclic_sccs={}", cyclic.len().min(3)));
    }
    let mut known: BTreeSet<String> = BTreeSet::new();
    let mut detail: Option<String> = None;

    // ---- cycles
    let rep = db.detect_fixture_cycles();
    let reports: Vec<(Vec<String>, Option<DefId>)> = rep.iter().map(|c| (c.cycle_path.clone(), def_id(&m, &c.fixture))).collect();
    // stability under forced recomputation
    for _ in 0..4 {
        db.definitions_version.fetch_add(1, std::sync::atomic::Ordering::SeqCst);
        let again: Vec<(Vec<String>, Option<DefId>)> = db.detect_fixture_cycles().iter().map(|c| (c.cycle_path.clone(), def_id(&m, &c.fixture))).collect();
        info.checks += 1;
        if again != reports {
            return Outcome::Fail(format!("cycle reports differ between two computations on the unchanged index: {:?} vs {:?}", reports, again));
        }
    }
    let mut cycle_problem: Option<String> = None;
    for (path, anchor) in &reports {
        info.checks += 1;
        if anchor.is_none() {
            return Outcome::Fail(format!("cycle {:?} is anchored on an unknown definition", path));
        }
        if !realisable(&m, &g, path, *anchor) {
            cycle_problem.get_or_insert(format!("reported cycle {:?} anchored at {} is not a closed dependency chain (each dependency resolved from the depending fixture's file)", path, show_def(&m, *anchor)));
        }
    }
    for c in &cyclic {
        info.checks += 1;
        let names: BTreeSet<&String> = c.iter().map(|d| &m.def_tok(*d).name).collect();
        let covered = reports.iter().any(|(path, anchor)| {
            path.iter().all(|n| names.contains(n)) && anchor.map(|a| c.contains(&a)).unwrap_or(false) && realisable(&m, &g, path, *anchor)
        });
        if !covered {
            cycle_problem.get_or_insert(format!(
                "dependency cycle among {:?} is not reported (reports: {:?})",
                c.iter().map(|d| format!("{}:{}:{}", m.ws.files[d.file].loc.rel(), d.line, m.def_tok(*d).name)).collect::<Vec<_>>(),
                reports.iter().map(|(p, a)| format!("{:?}@{}", p, show_def(&m, *a))).collect::<Vec<_>>()
            ));
        }
    }
    if let Some(pb) = cycle_problem {
        // attribution: the implementation's report must equal the recorded variant exactly, and the
        // name-level first-definition graph must differ from the reference graph
        let var = variant_cycles(&m, &order);
        let var_n: Vec<(Vec<String>, Option<DefId>)> = var.into_iter().map(|(p, d)| (p, Some(d))).collect();
        let graphs_differ = {
            // reference graph collapsed to names equals the first-def name graph?
            let mut differ = false;
            for n in m.all_names() {
                if m.count_defs(&n) >= 2 {
                    differ = true;
                }
            }
            for (d, edges) in &g {
                let _ = d;
                for (p, t) in edges {
                    if t.is_none() && m.count_defs(p) >= 1 {
                        differ = true; // a known name that is not visible from the fixture
                    }
                }
            }
            differ
        };
        if graphs_differ && var_n == reports {
            info.known_trigger = true;
            known.insert(KF_NAME_GRAPH.to_string());
            detail.get_or_insert(pb);
        } else {
            return Outcome::Fail(pb);
        }
    }

    // ---- scope mismatches
    for (fi, r) in m.rendered.iter().enumerate() {
        let path = m.path(fi);
        let got: BTreeSet<(usize, String, u8)> = db
            .detect_scope_mismatches_in_file(Path::new(&path))
            .iter()
            .map(|x| (x.fixture.line, x.dependency.name.clone(), x.dependency.scope as u8))
            .collect();
        let mut exp: BTreeSet<(usize, String, u8)> = BTreeSet::new();
        let mut var: BTreeSet<(usize, String, u8)> = BTreeSet::new();
        let mut trigger = false;
        for d in &r.defs {
            let me = DefId { file: fi, line: d.line };
            for p in &d.deps {
                let tgt = g[&me].iter().find(|(n, _)| n == p).and_then(|(_, t)| *t);
                if let Some(t) = tgt {
                    let ts = m.def_tok(t).scope;
                    if ts < d.scope {
                        exp.insert((d.line, p.clone(), ts));
                    }
                    if m.count_defs(p) >= 2 && m.all_defs().iter().filter(|x| m.def_tok(**x).name == *p).map(|x| m.def_tok(*x).scope).collect::<BTreeSet<_>>().len() >= 2 {
                        info.nontrivial = true;
                    }
                }
                // variant: first-registered definition of the dependency name anywhere
                let mut first: Option<DefId> = None;
                'o: for &f2 in &order {
                    let mut ds = m.all_defs_of(f2, p);
                    ds.sort();
                    if let Some(x) = ds.first() {
                        first = Some(*x);
                        break 'o;
                    }
                }
                if let Some(f) = first {
                    if m.def_tok(f).scope < d.scope {
                        var.insert((d.line, p.clone(), m.def_tok(f).scope));
                    }
                }
                if first != tgt {
                    trigger = true;
                }
            }
        }
        info.checks += 1;
        if got != exp {
            let msg = format!("scope mismatches in {}: expected {:?} (fixture line, dependency, dependency scope), got {:?}", m.ws.files[fi].loc.rel(), exp, got);
            if trigger && got == var {
                info.known_trigger = true;
                known.insert(KF_SCOPE_FIRST.to_string());
                detail.get_or_insert(msg);
            } else {
                return Outcome::Fail(msg);
            }
        }
    }
    // ---- stability across an edit: every module in turn that is not a conftest and defines fixtures loses all of
    // them. The reports must then be those of an index that only ever saw the resulting contents (other files
    // analysed in the same order, so the registration order of the remaining definitions is the same).
    const BLANK: &str = "def test_nothing_left():\n    pass\n";
    let mut blanked: Vec<usize> = vec![];
    for &fi in order.iter() {
        let p = PathBuf::from(m.path(fi));
        let is_conftest = p.file_name().map(|n| n == "conftest.py").unwrap_or(false);
        let defines = db.file_definitions.get(&p).map(|s| !s.is_empty()).unwrap_or(false);
        if is_conftest || !defines || blanked.len() >= 2 {
            continue;
        }
        let show = |d: &FixtureDatabase| -> Vec<(Vec<String>, String, usize)> { d.detect_fixture_cycles().iter().map(|c| (c.cycle_path.clone(), c.fixture.file_path.to_string_lossy().to_string(), c.fixture.line)).collect() };
        let _ = show(&db); // the reports are computed (and cached) before the edit, as diagnostics do
        db.analyze_file(p.clone(), BLANK);
        blanked.push(fi);
        let got = show(&db);
        let fresh = new_db_for(&m);
        for &i in order.iter() {
            fresh.analyze_file(PathBuf::from(m.path(i)), if blanked.contains(&i) { BLANK } else { &m.rendered[i].text });
        }
        let want = show(&fresh);
        info.checks += 1;
        info.classes.push("edit=module-loses-all-fixtures".into());
        if got != want {
            return Outcome::Fail(format!("after {} was changed to define no fixture, cycle reports are {:?}; an index that only saw the resulting contents reports {:?}", m.ws.files[fi].loc.rel(), got, want));
        }
    }
    if known.is_empty() {
        Outcome::Ok
    } else {
        info.fail_detail = detail;
        Outcome::Known(known.into_iter().collect())
    }
}

pub fn run(ctx: &Ctx) {
    ctx.run_prop("lib", ctx.tier.pick(60_000, 2_000_000), 16, || workspace(cfg()).prop_map(|ws| Case { ws }), |c, info| check_ws(&c.ws, info));
}

pub fn judge(_ctx: &Ctx, sub: &str, case: &Value) -> Option<Outcome> {
    let mut info = CaseInfo::default();
    match sub {
        "lib" => {
            let c: Case = from_case(case)?;
            Some(check_ws(&c.ws, &mut info))
        }
        _ => None,
    }
}

#[allow(unused)]
fn _u() {
    let _ = norm_cycle(&[]);
}
