//! C06 — index state depends on current contents only, not on edit history.
//! Metamorphic oracle: at every prefix of a generated history, the index reached through the
//! history equals a freshly built index of the latest valid contents.

use crate::db::new_db_for;
use crate::gen::GenCfg;
use crate::hist::*;
use crate::model::Model;
use crate::runner::*;
use crate::snapshot::*;
use pytest_language_server::FixtureDatabase;
use crate::spec::*;
use serde_json::{json, Value};
use std::path::{Path, PathBuf};

pub const RULE: &str = "proptest-generated edit histories (1-10 steps over 2-10 files: remove/insert/rename items, shift all positions, replace, change only imports, break syntax, resend; each optionally preceded by closing the document) on top of a generated workspace; after every prefix the index reached by replaying the prefix on a fresh database is compared (a) exactly with a fresh index that received only each file's latest valid text followed by its current invalid text, in order of last valid analysis, and (b) on all index-derived answers with a fresh index of the latest valid texts only. Server sub-check: histories of <= 6 edits are sent to the real binary as didOpen / didChange / didClose-then-didOpen on a materialised tree; afterwards documentSymbol of every valid document and textDocument/definition at every usage must equal an index that saw only the compressed history. Non-trivial = the history removes or renames a fixture/usage defined earlier, or contains a break followed by a later valid version of the same file; distinct = distinct (workspace, history) values.";
pub const ASSUMPTIONS: &[&str] = &[
    "the prefix is replayed without intermediate queries (cache staleness is C07's business)",
    "the fresh twin analyses files in order of their last valid analysis, so registration order is identical (order sensitivity is C08's business)",
    "invalid versions are invalid by construction (unbalanced bracket / `def (:` / `class :`)",
    "cycle reports are compared as has-cycles + well-formedness only (anchor choice is C16's business)",
];

pub const KF_BROKEN_IMPORTS: &str = "KF-C06-invalid-conftest-loses-imports";

pub fn cfg() -> GenCfg {
    GenCfg { names: 3, max_depth: 2, max_items: 3, allow_dups_in_file: true, ..GenCfg::default() }
}

fn replay_into(db: &FixtureDatabase, it: &Interp, upto: usize) {
    for (i, (fi, text, _)) in it.sent.iter().enumerate().take(upto) {
        let p = PathBuf::from(it.files[*fi].loc.path());
        if it.closed_before.contains(&i) {
            db.cleanup_file_cache(&p);
        }
        db.analyze_file(p, text);
    }
}

pub fn check_history(h: &History, info: &mut CaseInfo) -> Outcome {
    let cfg = cfg();
    let m = Model::new(&h.ws);
    let mut it = Interp::new(&cfg, &h.ws);
    let n0 = it.sent.len();
    let mut removed_something = false;
    let mut broke: Vec<usize> = Vec::new();
    let mut known = false;
    let mut detail = None;
    info.classes.push(format!("steps={}", h.steps.len()));
    for (k, s) in h.steps.iter().enumerate() {
        let before_defs: usize = it.files.iter().map(|f| f.items.len()).sum();
        let fi = it.apply(s);
        let after_defs: usize = it.files.iter().map(|f| f.items.len()).sum();
        match &s.edit {
            Edit::Remove(_) | Edit::Rename(..) | Edit::Replace(_) | Edit::SetImports(_) if before_defs >= after_defs => removed_something = true,
            Edit::Break(_) => broke.push(fi),
            _ => {
                if it.files[fi].valid && broke.contains(&fi) {
                    info.nontrivial = true; // break-and-repair
                }
            }
        }
        info.classes.push(format!("edit={}", edit_name(&s.edit)));
        // live index: whole prefix on a fresh database
        let live = new_db_for(&m);
        replay_into(&live, &it, n0 + k + 1);
        // twin A: latest valid text of every file in order of last valid analysis, then the
        // current invalid texts
        let mut order: Vec<usize> = (0..it.files.len()).collect();
        order.sort_by_key(|i| it.files[*i].last_valid_time);
        let twin_a = new_db_for(&m);
        let twin_b = new_db_for(&m);
        for &i in &order {
            let p = PathBuf::from(it.files[i].loc.path());
            twin_a.analyze_file(p.clone(), &it.files[i].last_valid_text);
            twin_b.analyze_file(p, &it.files[i].last_valid_text);
        }
        for &i in &order {
            if !it.files[i].valid {
                twin_a.analyze_file(PathBuf::from(it.files[i].loc.path()), &it.files[i].text);
            }
        }
        let last = &it.files[fi];
        let undeclared_files = if last.valid { Some(vec![last.loc.path()]) } else { Some(vec![]) };
        // (a) exact equality with the compressed history
        let oa = SnapOpts { root: crate::spec::MEM_ROOT.to_string(), undeclared_files: undeclared_files.clone(), ..SnapOpts::default() };
        let sl = snapshot(&live, &oa);
        let sa = snapshot(&twin_a, &oa);
        info.checks += 1;
        if let Some(d) = first_diff(&sl, &sa) {
            return Outcome::Fail(format!("after step {} ({:?} on {}): history index differs from index of the compressed history: {}", k + 1, s.edit, last.loc.rel(), d));
        }
        if let Some(e) = cycles_wellformed(&live) {
            return Outcome::Fail(format!("after step {}: {}", k + 1, e));
        }
        // (b) the property itself: fresh server on latest valid contents; position queries only
        // from files whose current text is the valid one
        let valid_files: Vec<String> = it.files.iter().filter(|f| f.valid).map(|f| f.loc.path()).collect();
        let ob = SnapOpts { root: crate::spec::MEM_ROOT.to_string(), undeclared_files, query_files: Some(valid_files), ..SnapOpts::default() };
        let slb = snapshot(&live, &ob);
        let sb = snapshot(&twin_b, &ob);
        info.checks += 1;
        if let Some(d) = first_diff(&slb, &sb) {
            // recorded finding: a currently invalid file whose last valid version imports
            // something loses those imports while it is invalid
            let trigger = it.files.iter().any(|f| !f.valid && (f.last_valid_text.contains("\nfrom fx") || f.last_valid_text.contains("\nfrom .") || f.last_valid_text.contains("pytest_plugins")));
            let derived_only = ["goto", "refs", "available", "unused", "scope_mismatch"].iter().any(|k| d.starts_with(&format!("at {}", k)));
            if trigger && derived_only {
                known = true;
                info.known_trigger = true;
                if detail.is_none() {
                    detail = Some(format!("after step {}: {}", k + 1, d));
                }
            } else {
                return Outcome::Fail(format!("after step {} ({:?} on {}): history index differs from a fresh index of the latest valid contents: {}", k + 1, s.edit, last.loc.rel(), d));
            }
        }
    }
    if removed_something {
        info.nontrivial = true;
    }
    if known {
        info.fail_detail = detail;
        Outcome::Known(vec![KF_BROKEN_IMPORTS.to_string()])
    } else {
        Outcome::Ok
    }
}

// ---------------------------------------------------------------------------------------------
// server sub-check: the same histories through didOpen / didChange / didClose of the real binary
// ---------------------------------------------------------------------------------------------

pub fn server_cfg() -> GenCfg {
    GenCfg { names: 3, max_depth: 2, max_items: 3, allow_dups_in_file: true, ..GenCfg::default() }
}

/// After the whole history the server must answer like an index that only ever saw the compressed
/// history (scan of the original tree, initial opens, then per file its last valid version in order
/// of last valid analysis, then the current invalid versions).
pub fn check_server_history(ctx: &Ctx, h: &History, info: &mut CaseInfo) -> Outcome {
    use crate::lsp::LspSession;
    use crate::lspdiff::*;
    let cfg = server_cfg();
    let mut p = match Pair::start(&h.ws, true) {
        Ok(p) => p,
        Err(i) => return infra_outcome(i, &ctx.inconclusive),
    };
    let mut it = Interp::new(&cfg, &h.ws);
    let paths: Vec<String> = (0..it.files.len()).map(|i| p.path(i)).collect();
    let project: Vec<bool> = it.files.iter().map(|f| !(f.loc.is_plugin() || f.loc.is_third_party())).collect();
    let mut version = 1i64;
    let mut open: Vec<bool> = project.clone();
    let mut touched_project = false;
    for s in &h.steps {
        let fi = it.apply(s);
        if !project[fi] {
            continue; // installed packages are not edited through the editor
        }
        touched_project = true;
        info.classes.push(format!("edit={}", edit_name(&s.edit)));
        let text = it.files[fi].text.clone();
        let r = if s.close_first && open[fi] {
            info.classes.push("close-then-reopen".into());
            if p.srv.close(&paths[fi]).is_err() {
                return infra_outcome(Infra::Inconclusive("didClose".into()), &ctx.inconclusive);
            }
            p.srv.open_sync(&paths[fi], &text, 300)
        } else if !open[fi] {
            p.srv.open_sync(&paths[fi], &text, 300)
        } else {
            version += 1;
            p.srv.change_sync(&paths[fi], version, &text, 300)
        };
        open[fi] = true;
        if let Err(e) = r {
            return infra_outcome(classify(e, "didOpen/didChange"), &ctx.inconclusive);
        }
    }
    if !touched_project {
        return Outcome::Ok;
    }
    // the compressed history on a fresh index
    let twin = FixtureDatabase::new();
    twin.scan_workspace(Path::new(&p.disk.root));
    for fi in 0..it.files.len() {
        if project[fi] {
            twin.analyze_file(PathBuf::from(&paths[fi]), &p.m.rendered[fi].text);
        }
    }
    let mut order: Vec<usize> = (0..it.files.len()).filter(|i| project[*i]).collect();
    order.sort_by_key(|i| it.files[*i].last_valid_time);
    let n0 = h.ws.files.len();
    for &i in &order {
        // a valid version was sent during the steps (the initial opens took the times 1..=n0)
        if it.files[i].last_valid_time > n0 {
            twin.analyze_file(PathBuf::from(&paths[i]), &it.files[i].last_valid_text);
        }
    }
    for &i in &order {
        if !it.files[i].valid {
            twin.analyze_file(PathBuf::from(&paths[i]), &it.files[i].text);
        }
    }
    // names whose pick depends on registration order between processes (C08's recorded findings),
    // judged on the final contents
    let final_ws = WorkspaceSpec { files: it.files.iter().map(|f| FileSpec { loc: f.loc.clone(), items: f.items.clone() }).collect(), order_keys: h.ws.order_keys.clone() };
    let fm = Model::new(&final_ws);
    let sens = crate::props::c08::order_sensitive_names(&fm);
    let kf_trigger = it.files.iter().any(|f| !f.valid && (f.last_valid_text.contains("\nfrom fx") || f.last_valid_text.contains("\nfrom .") || f.last_valid_text.contains("pytest_plugins")));
    let mut known = false;
    let mut detail = None;
    let mut removed = false;
    for s in &h.steps {
        if matches!(s.edit, Edit::Remove(_) | Edit::Rename(..) | Edit::Replace(_) | Edit::SetImports(_) | Edit::Retarget(_) | Edit::Break(_)) {
            removed = true;
        }
    }
    for fi in 0..it.files.len() {
        if !project[fi] || !it.files[fi].valid {
            continue;
        }
        let path = &paths[fi];
        // document symbols = the fixtures the twin attributes to the file
        let resp = match p.req("textDocument/documentSymbol", json!({"textDocument": {"uri": crate::lsp::uri_of(path)}})) {
            Ok(v) => v,
            Err(i) => return infra_outcome(i, &ctx.inconclusive),
        };
        let mut got: Vec<(String, u64)> = resp.as_array().into_iter().flatten().map(|s| (s["name"].as_str().unwrap_or("").to_string(), s["selectionRange"]["start"]["line"].as_u64().unwrap_or(0))).collect();
        got.sort();
        let mut exp: Vec<(String, u64)> = all_defs(&twin).into_iter().filter(|d| d.file_path == Path::new(path)).map(|d| (d.name.clone(), (d.line - 1) as u64)).collect();
        exp.sort();
        info.checks += 1;
        if got != exp {
            return Outcome::Fail(format!("after the history, documentSymbol of {} lists {:?}; an index that only saw the latest contents holds {:?}", p.rel(path), got, exp));
        }
        let uses = twin.usages.get(Path::new(path)).map(|u| u.value().clone()).unwrap_or_default();
        for u in &uses {
            if sens.contains(&u.name) {
                info.unjudged += 1;
                continue;
            }
            info.checks += 1;
            let (l, c) = ((u.line.max(1) - 1) as u32, u.start_char as u32);
            let lib = twin.find_fixture_definition(Path::new(path), l, c);
            let resp = match p.req("textDocument/definition", LspSession::pos_params(path, l, c)) {
                Ok(v) => v,
                Err(i) => return infra_outcome(i, &ctx.inconclusive),
            };
            let got = first_location(&resp).map(|(f, l, _)| (f, l));
            let exp = lib.as_ref().map(|d| (d.file_path.to_string_lossy().to_string(), (d.line - 1) as u64));
            if got != exp {
                let msg = format!(
                    "after the history, textDocument/definition of `{}` at {}:{} -> {:?}; an index that only saw the latest contents -> {:?}",
                    u.name,
                    p.rel(path),
                    u.line,
                    got.map(|(f, l)| (p.rel(&f), l)),
                    exp.map(|(f, l)| (p.rel(&f), l))
                );
                if kf_trigger {
                    known = true;
                    info.known_trigger = true;
                    detail.get_or_insert(msg);
                } else {
                    return Outcome::Fail(msg);
                }
            }
        }
    }
    if removed {
        info.nontrivial = true;
    }
    if known {
        info.fail_detail = detail;
        Outcome::Known(vec![KF_BROKEN_IMPORTS.to_string()])
    } else {
        Outcome::Ok
    }
}

fn edit_name(e: &Edit) -> &'static str {
    match e {
        Edit::Remove(_) => "remove",
        Edit::Insert(..) => "insert",
        Edit::Rename(..) => "rename",
        Edit::Shift(_) => "shift",
        Edit::Replace(_) => "replace",
        Edit::SetImports(_) => "imports-only",
        Edit::Break(_) => "break",
        Edit::Resend => "resend",
        Edit::Retarget(_) => "retarget-imports",
        Edit::Blank(_) => "blank",
    }
}

/// every reported cycle refers to names that are currently defined and its anchor is a current definition
pub fn cycles_wellformed(db: &FixtureDatabase) -> Option<String> {
    for c in db.detect_fixture_cycles().iter() {
        for n in &c.cycle_path {
            if !db.definitions.contains_key(n) {
                return Some(format!("cycle {:?} mentions `{}` which is not defined any more", c.cycle_path, n));
            }
        }
        let ok = db.definitions.get(&c.fixture.name).map(|v| v.iter().any(|d| *d == c.fixture)).unwrap_or(false);
        if !ok {
            return Some(format!("cycle {:?} is anchored on a definition that no longer exists ({}:{})", c.cycle_path, c.fixture.file_path.display(), c.fixture.line));
        }
    }
    None
}

pub fn run(ctx: &Ctx) {
    let cases = ctx.tier.pick(6_000, 300_000);
    ctx.run_prop("history", cases, 16, || history(cfg(), 10), |h, info| check_history(h, info));
    ctx.run_prop_shrink("server-history", ctx.tier.pick(150, 4_000), 8, 150, || history(server_cfg(), 6), |h, info| check_server_history(ctx, h, info));
}

pub fn judge(ctx: &Ctx, sub: &str, case: &Value) -> Option<Outcome> {
    match sub {
        "server-history" => {
            let h: History = from_case(case)?;
            let mut info = CaseInfo::default();
            Some(check_server_history(ctx, &h, &mut info))
        }
        "history" => {
            let h: History = from_case(case)?;
            let mut info = CaseInfo::default();
            Some(check_history(&h, &mut info))
        }
        _ => None,
    }
}
