//! C01 — fixture resolution follows pytest's shadowing order.
//! Oracle: reference model (model.rs) vs FixtureDatabase::find_fixture_definition at every column
//! of every usage token.

use crate::db::*;
use crate::gen::{workspace, GenCfg};
use crate::model::{DefId, Model, Res};
use crate::render::UseTok;
use crate::runner::*;
use crate::spec::*;
use serde_json::Value;
use std::collections::BTreeSet;

pub const RULE: &str = "proptest-generated in-memory workspaces (directory chain depth 1-4, sibling dirs, conftests that define/override/star-import/explicitly import/pytest_plugins-declare names from a pool of 4, helper modules up to 3 hops, plugin and site-packages files, random registration order; wrapped signatures and one-line fixture functions); every column of every usage token is queried. A case is non-trivial when some queried name has >=2 definitions in the workspace and the expected answer is outside the using file (or is empty while a same-named invisible definition exists); distinct = distinct workspace specs (hash of canonical JSON).";
pub const ASSUMPTIONS: &[&str] = &[
    "reference model of pytest lookup written from the property text / README (no pytest offline)",
    "in-memory paths: conftest and module existence is decided by the index's file cache",
    "ASCII-only documents, single-line signatures (positions are C15's business)",
    "release profile without debug assertions",
];

pub const KF_IMPORT_FIRST: &str = "KF-C01-import-first-registered";
pub const KF_EXPLICIT: &str = "KF-C01-explicit-import-not-provided";

/// Names the *implementation* considers imported into `file` (used only to recognise the recorded
/// wrong behaviour, never as the oracle): star / pytest_plugins closure over file definitions, plus
/// explicitly imported names that are fixture names anywhere in the workspace.
pub fn impl_imported_names(m: &Model, file: usize, seen: &mut BTreeSet<usize>) -> BTreeSet<String> {
    let mut out = BTreeSet::new();
    if !seen.insert(file) {
        return out;
    }
    let all = m.all_names();
    for (spec, tgt) in &m.import_targets[file] {
        let Some(t) = tgt else { continue };
        match &spec.form {
            ImportForm::Explicit(ns) => {
                for n in ns {
                    if all.contains(NAMES[*n]) {
                        out.insert(NAMES[*n].to_string());
                    }
                }
            }
            _ => {
                for d in &m.rendered[*t].defs {
                    out.insert(d.name.clone());
                }
                out.extend(impl_imported_names(m, *t, seen));
            }
        }
    }
    out
}

/// Names the implementation considers imported by any conftest on the path of `file`.
pub fn impl_imported_names_on_path(m: &Model, file: usize) -> BTreeSet<String> {
    let mut out = BTreeSet::new();
    let loc = &m.ws.files[file].loc;
    if loc.is_plugin() || loc.is_third_party() {
        return out;
    }
    let mut d = Some(loc.dir);
    while let Some(dd) = d {
        if let Some(c) = m.ws.find(&FileLoc { dir: dd, kind: FileKind::Conftest }) {
            out.extend(impl_imported_names(m, c, &mut BTreeSet::new()));
        }
        d = dir_parent(dd);
    }
    out
}

/// The recorded wrong behaviour: same as the model, except that in the "conftest imports the
/// name" step the first-registered definition of that name anywhere is returned, and an explicit
/// import counts as providing the name whenever it is a fixture name anywhere.
/// Returns (answer, went_through_import_branch, model_says_imported).
pub fn variant_resolve(m: &Model, order: &[usize], file: usize, name: &str, exclude: Option<DefId>) -> (Option<DefId>, bool, bool) {
    let loc = &m.ws.files[file].loc;
    let mut own: Vec<DefId> = m.all_defs_of(file, name).into_iter().filter(|d| Some(*d) != exclude).collect();
    own.sort();
    if let Some(d) = own.last() {
        return (Some(*d), false, false);
    }
    if !(loc.is_plugin() || loc.is_third_party()) {
        let mut d = Some(loc.dir);
        while let Some(dd) = d {
            if let Some(c) = m.ws.find(&FileLoc { dir: dd, kind: FileKind::Conftest }) {
                let mut own: Vec<DefId> = m.all_defs_of(c, name).into_iter().filter(|d| Some(*d) != exclude).collect();
                own.sort();
                if let Some(dfn) = own.last() {
                    return (Some(*dfn), false, false);
                }
                let names = impl_imported_names(m, c, &mut BTreeSet::new());
                if names.contains(name) {
                    // first registered definition of the name passing the filter
                    for &fi in order {
                        let mut defs = m.all_defs_of(fi, name);
                        defs.sort();
                        for df in defs {
                            if Some(df) != exclude {
                                return (Some(df), true, m.imported[c].contains_key(name));
                            }
                        }
                    }
                }
            }
            d = dir_parent(dd);
        }
    }
    (None, false, false)
}

#[derive(Clone, Debug, serde::Serialize, serde::Deserialize)]
pub struct Case {
    pub ws: WorkspaceSpec,
}

pub fn check_case(ws: &WorkspaceSpec, info: &mut CaseInfo) -> Outcome {
    let m = Model::new(ws);
    let order = ws.order();
    let db = build_db(&m, &order);
    let mut known: BTreeSet<String> = BTreeSet::new();
    let mut detail: Option<String> = None;
    let depth = ws.files.iter().filter(|f| f.loc.dir < 4).map(|f| f.loc.dir).max().unwrap_or(0) + 1;
    info.classes.push(format!("depth={}", depth));
    for (fi, r) in m.rendered.iter().enumerate() {
        let path = m.path(fi);
        for u in &r.uses {
            let exp = m.usage_target(fi, u);
            info.classes.push(format!("usage={:?}", u.kind));
            let ndefs = m.count_defs(&u.name);
            match &exp {
                Res::Unjudged(_) => {
                    info.unjudged += 1;
                    continue;
                }
                Res::One(d) if d.file != fi && ndefs >= 2 => info.nontrivial = true,
                Res::AnyOf(_) if ndefs >= 2 => info.nontrivial = true,
                Res::None if ndefs >= 1 => info.nontrivial = true,
                _ => {}
            }
            classify_expected(&m, fi, &exp, info);
            for col in u.start..u.end {
                info.checks += 1;
                let got = goto(&db, &path, u.line, col).and_then(|d| def_id(&m, &d).or(Some(DefId { file: usize::MAX, line: d.line })));
                let ok = match &exp {
                    Res::None => got.is_none(),
                    Res::One(d) => got == Some(*d),
                    Res::AnyOf(s) => got.map(|g| s.contains(&g)).unwrap_or(false),
                    Res::Unjudged(_) => true,
                };
                if ok {
                    continue;
                }
                // attribution to a recorded finding: the implementation's answer must equal the
                // defect variant's answer, and the variant must have gone through the import branch
                let (var, via_import, model_imported) = variant_resolve(&m, &order, fi, &u.name, m.self_def(fi, u));
                let msg = format!(
                    "usage `{}` ({:?}) at {}:{}:{} (token cols {}..{}): expected {}, got {}",
                    u.name,
                    u.kind,
                    m.ws.files[fi].loc.rel(),
                    u.line,
                    col,
                    u.start,
                    u.end,
                    show_res(&m, &exp),
                    show_def(&m, got.filter(|g| g.file != usize::MAX))
                );
                if via_import && got == var {
                    info.known_trigger = true;
                    known.insert(if model_imported { KF_IMPORT_FIRST.to_string() } else { KF_EXPLICIT.to_string() });
                    if detail.is_none() {
                        detail = Some(msg);
                    }
                    continue;
                }
                return Outcome::Fail(msg);
            }
            // the column just before the token must not resolve this usage
            if u.start > 0 {
                info.checks += 1;
                if let Some(d) = goto(&db, &path, u.line, u.start - 1) {
                    return Outcome::Fail(format!(
                        "column {} just before usage `{}` at {}:{} resolves to {}:{}",
                        u.start - 1,
                        u.name,
                        m.ws.files[fi].loc.rel(),
                        u.line,
                        d.file_path.display(),
                        d.line
                    ));
                }
            }
        }
    }
    if known.is_empty() {
        Outcome::Ok
    } else {
        info.fail_detail = detail;
        Outcome::Known(known.into_iter().collect())
    }
}

fn classify_expected(m: &Model, fi: usize, exp: &Res, info: &mut CaseInfo) {
    let c = match exp {
        Res::None => "expect=none".to_string(),
        Res::AnyOf(_) => "expect=any-of-several".to_string(),
        Res::Unjudged(_) => "expect=unjudged".to_string(),
        Res::One(d) => {
            let loc = &m.ws.files[d.file].loc;
            if d.file == fi {
                "expect=same-file".to_string()
            } else if loc.is_conftest() {
                "expect=conftest-own".to_string()
            } else if loc.is_plugin() {
                "expect=plugin".to_string()
            } else if loc.is_third_party() {
                "expect=third-party".to_string()
            } else {
                "expect=conftest-imported".to_string()
            }
        }
    };
    info.classes.push(c);
}

pub fn show_res(m: &Model, r: &Res) -> String {
    match r {
        Res::None => "none".to_string(),
        Res::One(d) => show_def(m, Some(*d)),
        Res::AnyOf(s) => format!("any of {:?}", s.iter().map(|d| show_def(m, Some(*d))).collect::<Vec<_>>()),
        Res::Unjudged(w) => format!("unjudged ({})", w),
    }
}

pub fn cfg() -> GenCfg {
    GenCfg { names: 4, allow_dups_in_file: true, oneline_fixtures: true, ..GenCfg::default() }
}

pub fn run(ctx: &Ctx) {
    let cases = ctx.tier.pick(24_000, 1_200_000);
    ctx.run_prop("lib", cases, 16, || workspace(cfg()).prop_map(|ws| Case { ws }), |c, info| check_case(&c.ws, info));
    // bounded-exhaustive: every assignment of one name to the 8 provider slots, two analysis orders
    let all = crate::exh::all_plain();
    ctx.set_extra("exhaustive_subcheck", serde_json::json!(format!("slots: all {} (assignment of one fixture name to 8 provider slots x 2 analysis orders) enumerated", all.len())));
    ctx.run_enum("slots", all, 16, |c, info| {
        info.classes.push(format!("slots: {} providers", c.mask.count_ones()));
        check_case(&crate::exh::slot_workspace(&cfg(), c), info)
    });
    ctx.run_prop_shrink("lsp", ctx.tier.pick(120, 3000), 8, 150, || workspace(lsp_cfg()).prop_map(|ws| Case { ws }), |c, info| {
        crate::props::lsp_tiers::c01_definition(ctx, &c.ws, info)
    });
}

pub fn lsp_cfg() -> GenCfg {
    GenCfg { names: 3, max_depth: 3, max_items: 3, allow_dups_in_file: true, oneline_fixtures: true, ..GenCfg::default() }
}

pub fn judge(ctx: &Ctx, sub: &str, case: &Value) -> Option<Outcome> {
    match sub {
        "lsp" => {
            let c: Case = from_case(case)?;
            let mut info = CaseInfo::default();
            Some(crate::props::lsp_tiers::c01_definition(ctx, &c.ws, &mut info))
        }
        "lib" => {
            let c: Case = from_case(case)?;
            let mut info = CaseInfo::default();
            Some(check_case(&c.ws, &mut info))
        }
        "slots" => {
            let c: crate::exh::SlotCase = from_case(case)?;
            let mut info = CaseInfo::default();
            Some(check_case(&crate::exh::slot_workspace(&cfg(), &c), &mut info))
        }
        _ => None,
    }
}

use proptest::strategy::Strategy;
#[allow(unused)]
fn _unused(_: &UseTok) {}
