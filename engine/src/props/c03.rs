//! C03 — what the index records for a file is what the file says.
//! Differential oracle: records extracted with CPython's `ast` under the documented rules
//! (oracle/pyoracle.py) vs the pub maps after one analyze_file.

use crate::pygen::*;
use crate::pyoracle::with_oracle;
use crate::runner::*;
use pytest_language_server::FixtureDatabase;
use serde_json::Value;
use std::collections::BTreeMap;
use std::path::{Path, PathBuf};

pub const RULE: &str = "grammar-generated pytest modules (decorator spellings pytest.fixture / fixture / pytest_asyncio.fixture bare and called with name=/scope=/autouse=/extra keywords, assignment style, sync/async, yield placed in up to 3 nested blocks of 13 kinds (two of them with a competing later yield in the else / finally block of the same try) and in 5 statement forms, nested-function yields, 14 return-annotation forms, 7 fixed docstring layouts plus docstrings generated line by line (text at 4 relative indentations, empty lines, whitespace-only lines shorter and longer than the margin, a lone tab; text on the opening line or not), class-nested and nested-class tests and fixtures, positional-only / keyword-only / defaulted / annotated parameters, usefixtures / parametrize-indirect / pytestmark marks, 8 kinds of noise) compared record by record with the CPython extraction; plus real-world pytest files found offline. Non-trivial = >=1 definition, >=1 usage and >=1 non-baseline feature (non-default decorator form, nested yield, annotation, docstring layout >0, mark, class); distinct = distinct module values.";
pub const ASSUMPTIONS: &[&str] = &[
    "CPython 3.11 ast/tokenize as the parser of record; sources rejected by CPython are skipped, sources only rustpython rejects are counted (parser_disagreements) and not judged",
    "documented recognisers as listed in oracle/pyoracle.py; a parameter with a default value is not a fixture request (pytest getfuncargnames)",
    "positions are compared only for identifier tokens and plain string forms in ASCII documents (C15 owns positions)",
    "`request` as a parameter may or may not be recorded",
];

pub const KF_DEFAULTED: &str = "KF-C03-defaulted-parameter-recorded";
pub const KF_YIELD_FORMS: &str = "KF-C03-yield-forms-missed";
pub const KF_RET_STRING: &str = "KF-C03-string-annotation-debug-printed";
pub const KF_DOC_DEDENT: &str = "KF-C03-docstring-dedent-first-line";
pub const KF_ASSIGN_KW: &str = "KF-C03-assignment-style-ignores-keywords";
pub const KF_SCOPE_CASE: &str = "KF-C03-scope-case-insensitive";

pub fn gen_cfg() -> PyGenCfg {
    PyGenCfg { string_forms: false, multiline: true, decorations: false, body_uses: false }
}

#[derive(Default)]
pub struct Cmp {
    pub known: Vec<String>,
    pub detail: Option<String>,
    pub fail: Option<String>,
    pub parser_disagreement: bool,
    pub skipped: bool,
    pub ndefs: usize,
    pub nuses: usize,
}

fn note_known(c: &mut Cmp, k: &str, msg: String) {
    if !c.known.iter().any(|x| x == k) {
        c.known.push(k.to_string());
    }
    c.detail.get_or_insert(msg);
}

/// Trailing whitespace of every line and leading / trailing blank lines are presentation: PEP 257's
/// trim() removes them, inspect.cleandoc keeps a whitespace-only first or last line. Not judged.
fn trim_lines(s: &str) -> String {
    let v: Vec<&str> = s.lines().map(|l| l.trim_end()).collect();
    let start = v.iter().position(|l| !l.is_empty()).unwrap_or(v.len());
    v[start..].join("\n").trim_end().to_string()
}

/// Compare one source. `path` is only used as the index key.
pub fn compare_source(src: &str, path: &str, positions: bool) -> Cmp {
    let mut c = Cmp::default();
    let Some(o) = with_oracle(|p| p.extract(src)) else {
        c.skipped = true;
        c.fail = Some("python oracle unavailable".into());
        return c;
    };
    if !o["ok"].as_bool().unwrap_or(false) {
        c.skipped = true;
        return c;
    }
    let db = FixtureDatabase::new();
    let p = PathBuf::from(path);
    db.analyze_file(p.clone(), src);
    let parsed = db.imports.contains_key(Path::new(path));
    if !parsed {
        c.parser_disagreement = true;
        return c;
    }
    // ---- definitions
    let mut impl_defs: Vec<pytest_language_server::FixtureDefinition> = Vec::new();
    for e in db.definitions.iter() {
        for d in e.value().iter() {
            impl_defs.push(d.clone());
        }
    }
    impl_defs.sort_by_key(|d| (d.line, d.name.clone()));
    let odefs = o["defs"].as_array().cloned().unwrap_or_default();
    c.ndefs = odefs.len();
    let mut matched = vec![false; impl_defs.len()];
    for od in &odefs {
        let line = od["line"].as_u64().unwrap_or(0) as usize;
        let style = od["style"].as_str().unwrap_or("");
        let mut want_name = od["name"].as_str().unwrap_or("").to_string();
        let mut assign_kw = false;
        if style == "assignment" {
            if let Some(n) = od["name_kw"].as_str() {
                // the documented meaning of name= is the fixture's name
                want_name = n.to_string();
                assign_kw = true;
            }
            if od["scope_kw"].is_string() || od["autouse_kw"].as_bool() == Some(true) {
                assign_kw = true;
            }
        }
        let idx = impl_defs.iter().enumerate().position(|(i, d)| !matched[i] && d.line == line && d.name == want_name);
        let idx = match idx {
            Some(i) => i,
            None => {
                // assignment style with name=: recorded under the target name?
                if assign_kw {
                    if let Some(i) = impl_defs.iter().enumerate().position(|(i, d)| !matched[i] && d.line == line && Some(d.name.as_str()) == od["func_name"].as_str()) {
                        matched[i] = true;
                        note_known(&mut c, KF_ASSIGN_KW, format!("line {}: assignment-style fixture with name=\"{}\" is recorded as `{}`", line, want_name, impl_defs[i].name));
                        continue;
                    }
                }
                c.fail = Some(format!("fixture `{}` defined at line {} is not in the index (index has: {:?})", want_name, line, impl_defs.iter().map(|d| (d.name.clone(), d.line)).collect::<Vec<_>>()));
                return c;
            }
        };
        matched[idx] = true;
        let d = &impl_defs[idx];
        let here = format!("fixture `{}` at line {}", d.name, d.line);
        if style == "assignment" {
            let want_scope = od["scope_kw"].as_str().unwrap_or("function");
            if d.scope.as_str() != want_scope || d.autouse != od["autouse_kw"].as_bool().unwrap_or(false) {
                note_known(&mut c, KF_ASSIGN_KW, format!("{}: assignment style with scope={:?} autouse={:?} is recorded as scope {} autouse {}", here, od["scope_kw"], od["autouse_kw"], d.scope.as_str(), d.autouse));
            }
            continue;
        }
        if d.end_line != od["end_line"].as_u64().unwrap_or(0) as usize {
            c.fail = Some(format!("{}: end line {} recorded, {} in the source", here, d.end_line, od["end_line"]));
            return c;
        }
        if d.scope.as_str() != od["scope"].as_str().unwrap_or("") {
            let raw = od["scope_raw"].as_str().unwrap_or("");
            if raw.to_lowercase() == d.scope.as_str() && raw != d.scope.as_str() {
                note_known(&mut c, KF_SCOPE_CASE, format!("{}: scope=\"{}\" accepted as {}", here, raw, d.scope.as_str()));
            } else {
                c.fail = Some(format!("{}: scope {} recorded, source says {}", here, d.scope.as_str(), od["scope"]));
                return c;
            }
        }
        if d.autouse != od["autouse"].as_bool().unwrap_or(false) {
            c.fail = Some(format!("{}: autouse {} recorded, source says {}", here, d.autouse, od["autouse"]));
            return c;
        }
        // dependencies: ordered; parameters with defaults are not requests
        let all: Vec<(String, bool)> = od["deps"].as_array().into_iter().flatten().map(|x| (x["name"].as_str().unwrap_or("").to_string(), x["has_default"].as_bool().unwrap_or(false))).collect();
        let want: Vec<String> = all.iter().filter(|(_, dflt)| !dflt).map(|(n, _)| n.clone()).collect();
        if d.dependencies != want {
            let with_defaults: Vec<String> = all.iter().map(|(n, _)| n.clone()).collect();
            if d.dependencies == with_defaults {
                note_known(&mut c, KF_DEFAULTED, format!("{}: dependencies {:?} recorded, {:?} are fixture requests (the others have default values)", here, d.dependencies, want));
            } else {
                c.fail = Some(format!("{}: dependencies {:?} recorded, source says {:?}", here, d.dependencies, want));
                return c;
            }
        }
        // generator status / yield line
        let is_gen = od["is_generator"].as_bool().unwrap_or(false);
        let yl = od["yield_line"].as_u64().map(|x| x as usize);
        let mut yield_missed = false;
        if d.yield_line != yl {
            // recorded finding: only statement-level `yield` / `yield from` inside if/for/while/with/try is seen
            if is_gen && (d.yield_line.is_none() || d.yield_line > yl) && od["yield_is_statement"].as_bool() == Some(false) {
                yield_missed = true;
                note_known(&mut c, KF_YIELD_FORMS, format!("{}: yield line {:?} recorded, first yield is on line {:?} (yield used as an expression)", here, d.yield_line, yl));
            } else {
                c.fail = Some(format!("{}: yield line {:?} recorded, source says {:?} (generator: {})", here, d.yield_line, yl, is_gen));
                return c;
            }
        }
        // return type text
        if let Some(ret) = od.get("ret").filter(|r| !r.is_null()) {
            if ret["specified"].as_bool().unwrap_or(false) {
                let want = ret["text"].as_str().unwrap_or("").to_string();
                let got = d.return_type.clone().unwrap_or_default();
                // quotes of (nested) string forward references are presentation, not content
                let norm = |s: &str| s.replace(' ', "").replace('\'', "").replace('"', "");
                let mut ok = norm(&got) == norm(&want);
                if !ok && ret["is_string"].as_bool().unwrap_or(false) {
                    ok = got == ret["string_value"].as_str().unwrap_or("");
                }
                if !ok {
                    if got.contains("Str(") {
                        note_known(&mut c, KF_RET_STRING, format!("{}: return type shown as `{}`, the annotation reads `{}`", here, got, want));
                    } else if yield_missed || (is_gen && od["yield_is_statement"].as_bool() == Some(false)) {
                        note_known(&mut c, KF_YIELD_FORMS, format!("{}: return type `{}` recorded for a generator whose yielded type is `{}`", here, got, want));
                    } else {
                        // the type-unwrapping visitor (contains_yield) misses blocks the yield-line visitor sees
                        let got_full = norm(&got);
                        let _ = got_full;
                        c.fail = Some(format!("{}: return type text `{}` recorded, source says `{}` (generator: {})", here, got, want, is_gen));
                        return c;
                    }
                }
            }
        } else if d.return_type.is_some() {
            c.fail = Some(format!("{}: return type {:?} recorded but the function has no annotation", here, d.return_type));
            return c;
        }
        // docstring
        match (od.get("doc").filter(|x| !x.is_null()), &d.docstring) {
            (None, None) => {}
            (Some(doc), Some(got)) => {
                if !doc["has_tab"].as_bool().unwrap_or(false) {
                    let want = trim_lines(doc["clean"].as_str().unwrap_or(""));
                    if trim_lines(got) != want {
                        let raw = doc["raw"].as_str().unwrap_or("");
                        if raw.starts_with('\n') || raw.starts_with("\r\n") || raw.starts_with(' ') {
                            note_known(&mut c, KF_DOC_DEDENT, format!("{}: docstring {:?} recorded, cleaned docstring is {:?}", here, got, want));
                        } else {
                            c.fail = Some(format!("{}: docstring {:?} recorded, cleaned docstring is {:?}", here, got, want));
                            return c;
                        }
                    }
                }
            }
            (a, b) => {
                c.fail = Some(format!("{}: docstring presence differs: source {:?}, index {:?}", here, a.map(|x| x["clean"].clone()), b));
                return c;
            }
        }
    }
    if let Some(i) = matched.iter().position(|m| !m) {
        c.fail = Some(format!("the index holds fixture `{}` at line {} which the documented forms do not declare", impl_defs[i].name, impl_defs[i].line));
        return c;
    }
    // ---- usages (multisets)
    let mut want: BTreeMap<(String, usize), Vec<Option<(usize, usize)>>> = BTreeMap::new();
    let mut defaulted: BTreeMap<(String, usize), usize> = BTreeMap::new();
    for u in o["usages"].as_array().into_iter().flatten() {
        let name = u["name"].as_str().unwrap_or("").to_string();
        if name == "request" {
            continue;
        }
        let line = u["line"].as_u64().unwrap_or(0) as usize;
        if u["has_default"].as_bool() == Some(true) {
            *defaulted.entry((name, line)).or_insert(0) += 1;
            continue;
        }
        let exact = positions && u["kind"] != "indirect" && (u["form"] == "identifier" || u["form"] == "plain") && !u["span"].is_null();
        let span = if exact { Some((u["span"]["start"]["byte"].as_u64().unwrap_or(0) as usize, u["span"]["end"]["byte"].as_u64().unwrap_or(0) as usize)) } else { None };
        want.entry((name, line)).or_default().push(span);
    }
    c.nuses = want.values().map(|v| v.len()).sum();
    let mut got: BTreeMap<(String, usize), Vec<(usize, usize)>> = BTreeMap::new();
    if let Some(us) = db.usages.get(Path::new(path)) {
        for u in us.iter() {
            if u.name == "request" {
                continue;
            }
            got.entry((u.name.clone(), u.line)).or_default().push((u.start_char, u.end_char));
        }
    }
    for (k, w) in &want {
        let g = got.get(k).cloned().unwrap_or_default();
        let extra_allowed = defaulted.get(k).copied().unwrap_or(0);
        if g.len() < w.len() || g.len() > w.len() + extra_allowed {
            c.fail = Some(format!("usage `{}` on line {}: {} recorded, {} in the source", k.0, k.1, g.len(), w.len()));
            return c;
        }
        if g.len() > w.len() {
            note_known(&mut c, KF_DEFAULTED, format!("parameter `{}` on line {} has a default value but is recorded as a fixture request", k.0, k.1));
        } else {
            let mut gs = g.clone();
            gs.sort();
            let mut ws: Vec<(usize, usize)> = w.iter().flatten().copied().collect();
            ws.sort();
            if ws.len() == gs.len() && ws != gs {
                c.fail = Some(format!("usage `{}` on line {}: recorded spans {:?}, token spans {:?}", k.0, k.1, gs, ws));
                return c;
            }
        }
    }
    for (k, g) in &got {
        if !want.contains_key(k) {
            if defaulted.get(k).copied().unwrap_or(0) >= g.len() {
                note_known(&mut c, KF_DEFAULTED, format!("parameter `{}` on line {} has a default value but is recorded as a fixture request", k.0, k.1));
            } else {
                c.fail = Some(format!("the index records a usage of `{}` on line {} that no documented form produces", k.0, k.1));
                return c;
            }
        }
    }
    c
}

fn nontrivial_module(m: &PModule) -> bool {
    fn f_feat(f: &PFunc) -> bool {
        f.is_async
            || f.doc.map(|d| d > 0).unwrap_or(false)
            || f.ret.is_some()
            || f.sig > 0
            || !matches!(f.body, PBody::Return | PBody::Pass)
            || f.params.iter().any(|p| p.kind != 1 || p.ann.is_some() || p.default.is_some())
            || f.decos.iter().any(|d| !matches!(d, PDeco::Fixture { spelling: 0, called: false, name: None, scope: None, autouse: None, extra_kw: false }))
    }
    m.items.iter().any(|it| match it {
        PItem::Func(f) => f_feat(f),
        PItem::Class { .. } | PItem::Pytestmark { .. } | PItem::AssignFixture { .. } => true,
        _ => false,
    })
}

pub fn check_module(m: &PModule, info: &mut CaseInfo, disagreements: &std::sync::atomic::AtomicU64) -> Outcome {
    let src = render_module(m);
    let c = compare_source(&src, "/vw/c03/test_mod.py", true);
    if c.skipped {
        if let Some(f) = c.fail {
            return Outcome::Fail(f);
        }
        // CPython rejects a generated module: generator bug, report loudly
        return Outcome::Fail(format!("generated module is rejected by CPython:\n{}", src));
    }
    if c.parser_disagreement {
        disagreements.fetch_add(1, std::sync::atomic::Ordering::SeqCst);
        info.unjudged += 1;
        return Outcome::Ok;
    }
    info.checks += (c.ndefs + c.nuses) as u64;
    if c.ndefs >= 1 && c.nuses >= 1 && nontrivial_module(m) {
        info.nontrivial = true;
    }
    if let Some(f) = c.fail {
        return Outcome::Fail(format!("{}\n--- source ---\n{}", f, src));
    }
    if c.known.is_empty() {
        Outcome::Ok
    } else {
        info.known_trigger = true;
        info.fail_detail = c.detail.map(|d| format!("{}\n--- source ---\n{}", d, src));
        Outcome::Known(c.known)
    }
}

/// Real-world pytest files available offline (false-alarm guard).
pub fn corpus_files(limit: usize) -> Vec<PathBuf> {
    let mut out = Vec::new();
    let roots = ["/repo/tests/test_project", "/opt/veriftools/pyvenv/lib/python3.11/site-packages/numpy", "/opt/veriftools/pyvenv/lib/python3.11/site-packages/networkx", "/opt/veriftools/pyvenv/lib/python3.11/site-packages/scipy", "/opt/veriftools/pyvenv/lib/python3.11/site-packages/sympy", "/opt/veriftools/pyvenv/lib/python3.11/site-packages", "/root/miniconda/pkgs", "/root/miniconda/lib/python3.13/site-packages"];
    fn walk(d: &Path, out: &mut Vec<PathBuf>, depth: usize) {
        if depth > 12 {
            return;
        }
        let Ok(rd) = std::fs::read_dir(d) else { return };
        let mut es: Vec<PathBuf> = rd.flatten().map(|e| e.path()).collect();
        es.sort();
        for p in es {
            if p.is_dir() {
                walk(&p, out, depth + 1);
            } else if let Some(n) = p.file_name().and_then(|n| n.to_str()) {
                if n.ends_with(".py") && (n.starts_with("test_") || n == "conftest.py" || n.ends_with("_test.py")) {
                    out.push(p);
                }
            }
        }
    }
    for r in roots {
        walk(Path::new(r), &mut out, 0);
    }
    // the first roots are contained in later ones: keep the first occurrence of every file
    let mut seen = std::collections::BTreeSet::new();
    out.retain(|p| seen.insert(p.clone()));
    out.truncate(limit);
    out
}

pub fn run(ctx: &Ctx) {
    let dis = std::sync::atomic::AtomicU64::new(0);
    ctx.run_prop("generated", ctx.tier.pick(6_000, 250_000), 16, || module(gen_cfg()), |m, info| check_module(m, info, &dis));
    // corpus tier
    let files = corpus_files(ctx.tier.pick(300, 100_000) as usize);
    let mut n = 0u64;
    let mut skipped = 0u64;
    let mut corpus_known: BTreeMap<String, u64> = BTreeMap::new();
    for (i, f) in files.iter().enumerate() {
        let Ok(src) = std::fs::read_to_string(f) else { continue };
        if !src.is_ascii() {
            skipped += 1;
            continue;
        }
        let c = compare_source(&src, &format!("/vw/corpus/{}/test_file.py", i), true);
        if c.skipped {
            skipped += 1;
            continue;
        }
        if c.parser_disagreement {
            dis.fetch_add(1, std::sync::atomic::Ordering::SeqCst);
            continue;
        }
        n += 1;
        for k in &c.known {
            *corpus_known.entry(k.clone()).or_insert(0) += 1;
        }
        let out = match c.fail {
            Some(m) => Outcome::Fail(format!("corpus file {}: {}", f.display(), m)),
            None if c.known.is_empty() => Outcome::Ok,
            None => ctx.gate(Outcome::Known(c.known.clone())),
        };
        if let Outcome::Fail(m) = out {
            ctx.violation("corpus", &serde_json::json!({"file": f.to_string_lossy()}), &m);
            break;
        }
    }
    ctx.set_extra("corpus_files_compared", serde_json::json!(n));
    ctx.set_extra("corpus_files_skipped_non_ascii_or_unparsable", serde_json::json!(skipped));
    ctx.set_extra("corpus_known_findings_hit", serde_json::json!(corpus_known));
    ctx.set_extra("parser_disagreements", serde_json::json!(dis.load(std::sync::atomic::Ordering::SeqCst)));
    if files.is_empty() {
        ctx.note("no real-world corpus found offline (not a failure)");
    }
}

pub fn judge(_ctx: &Ctx, sub: &str, case: &Value) -> Option<Outcome> {
    let mut info = CaseInfo::default();
    let dis = std::sync::atomic::AtomicU64::new(0);
    match sub {
        "generated" => {
            let m: PModule = from_case(case)?;
            Some(check_module(&m, &mut info, &dis))
        }
        "corpus" => {
            let f = case.get("file")?.as_str()?.to_string();
            let src = std::fs::read_to_string(&f).ok()?;
            let c = compare_source(&src, "/vw/corpus/replay/test_file.py", true);
            Some(match c.fail {
                Some(m) => Outcome::Fail(m),
                None if c.known.is_empty() => Outcome::Ok,
                None => Outcome::Known(c.known),
            })
        }
        _ => None,
    }
}
