//! C08 — answers do not depend on scan order, thread schedule or process run (library tier:
//! analysis-order permutations, the only effect the parallel scan's schedule has on the index).
//! Metamorphic oracle: snapshot(order A) == snapshot(order B) on fresh indexes.

use crate::db::*;
use crate::gen::{workspace, GenCfg};
use crate::model::Model;
use crate::props::c01::impl_imported_names;
use crate::runner::*;
use crate::snapshot::*;
use crate::spec::*;
use proptest::strategy::Strategy;
use serde_json::Value;
use std::collections::BTreeSet;

pub const RULE: &str = "proptest-generated in-memory workspaces biased to colliding names (pool of 3; same name in several conftests, imported modules, plugin and third-party files; override patterns; cycles; scope chains). The observable snapshot (go-to at every usage, references per definition, available fixtures per file, scope mismatches, full normalised cycle list with anchors, unused list) after analysing the files in path order is compared with the snapshot after 3 generated permutations; in a second sub-check small workspaces (<= 6 files) are compared under ALL their analysis orders (up to 720). Scan tier: the same kind of workspace widened by up to 40 extra test modules is materialised on disk and scanned by the real parallel scan in this process and in 5 child processes with RAYON_NUM_THREADS 1/2/3/5/8; snapshots and the sets of indexed files must agree, and every test module / conftest.py of the tree must be indexed. Real-world tier: installed packages' test suites are scanned in place by child processes with 1, 3 and 8 workers; observations must be identical. Non-trivial = some name has >=2 definitions (scan tier: and >=9 scanned files); distinct = distinct workspace specs. One scan case in eight is flooded: 2001 fixture-free test modules are added, so the scan caches more than 2000 files and the cache limit evicts a quarter of the entries (which ones depends on hash seed and schedule); the cached-file set is then left out of the observation and the queried files are listed from the disk.";
pub const ASSUMPTIONS: &[&str] = &[
    "the parallel scan affects the index only through the order in which per-file analyses append to the per-name vectors (interleavings inside one analysis are C09's business)",
    "undeclared-fixture findings are excluded (the statement does not list them; they depend on what was indexed at analysis time by design)",
    "process and worker-count tiers run in the `scan` sub-check on materialised trees",
];

pub const KF_PICK: &str = "KF-C08-first-registered-pick";
pub const KF_DIAG: &str = "KF-C08-first-definition-diagnostics";
pub const KF_EVICT: &str = "KF-C08-import-scan-starts-from-evictable-cache";

pub fn cfg() -> GenCfg {
    GenCfg { names: 3, self_dep_bias: 2, allow_dups_in_file: false, ..GenCfg::default() }
}

#[derive(Clone, Debug, serde::Serialize, serde::Deserialize)]
pub struct Case {
    pub ws: WorkspaceSpec,
    pub perm_keys: Vec<Vec<u16>>,
    /// compare with EVERY analysis order instead of the generated ones (workspaces of <= 6 files)
    #[serde(default)]
    pub all_orders: bool,
}

fn permutations(n: usize) -> Vec<Vec<usize>> {
    fn go(cur: &mut Vec<usize>, used: &mut Vec<bool>, n: usize, out: &mut Vec<Vec<usize>>) {
        if cur.len() == n {
            out.push(cur.clone());
            return;
        }
        for i in 0..n {
            if !used[i] {
                used[i] = true;
                cur.push(i);
                go(cur, used, n, out);
                cur.pop();
                used[i] = false;
            }
        }
    }
    let mut out = vec![];
    go(&mut vec![], &mut vec![false; n], n, &mut out);
    out
}

fn last_seg(k: &str) -> String {
    k.rsplit(':').next().unwrap_or("").to_string()
}

/// flatten a snapshot into (section, names involved, entry)
pub fn flatten(s: &Value) -> BTreeSet<(String, Vec<String>, String)> {
    let mut out = BTreeSet::new();
    if let Some(g) = s.get("goto").and_then(|v| v.as_object()) {
        for (f, arr) in g {
            for e in arr.as_array().into_iter().flatten() {
                let name = e[2].as_str().unwrap_or("").to_string();
                out.insert(("goto".to_string(), vec![name], format!("{} {}", f, e)));
            }
        }
    }
    if let Some(g) = s.get("refs").and_then(|v| v.as_object()) {
        for (k, arr) in g {
            out.insert(("refs".to_string(), vec![last_seg(k)], format!("{} {}", k, arr)));
        }
    }
    if let Some(g) = s.get("available").and_then(|v| v.as_object()) {
        for (f, arr) in g {
            for e in arr.as_array().into_iter().flatten() {
                let name = e[0].as_str().unwrap_or("").to_string();
                out.insert(("available".to_string(), vec![name], format!("{} {}", f, e)));
            }
        }
    }
    if let Some(arr) = s.get("unused").and_then(|v| v.as_array()) {
        for e in arr {
            out.insert(("unused".to_string(), vec![e[1].as_str().unwrap_or("").to_string()], e.to_string()));
        }
    }
    if let Some(g) = s.get("scope_mismatch").and_then(|v| v.as_object()) {
        for (f, arr) in g {
            for e in arr.as_array().into_iter().flatten() {
                let a = last_seg(e[0].as_str().unwrap_or(""));
                let b = last_seg(e[1].as_str().unwrap_or(""));
                out.insert(("scope".to_string(), vec![a, b], format!("{} {}", f, e)));
            }
        }
    }
    if let Some(arr) = s.get("cycles").and_then(|v| v.as_array()) {
        for e in arr {
            let names: Vec<String> = e["path"].as_array().into_iter().flatten().map(|x| x.as_str().unwrap_or("").to_string()).collect();
            out.insert(("cycles".to_string(), names, e.to_string()));
        }
    }
    out
}

/// Names whose navigation answers are known to depend on registration order (recorded findings
/// KF-C08-first-registered-pick / KF-C01-import-first-registered): imported by some conftest (in the
/// implementation's sense) while having >=2 definitions, or defined by >=2 plugin / >=2 third-party files.
pub fn order_sensitive_names(m: &Model) -> BTreeSet<String> {
    let ws = &m.ws;
    let mut s_pick: BTreeSet<String> = BTreeSet::new();
    for (fi, f) in ws.files.iter().enumerate() {
        if f.loc.is_conftest() {
            for n in impl_imported_names(m, fi, &mut BTreeSet::new()) {
                if m.count_defs(&n) >= 2 {
                    s_pick.insert(n);
                }
            }
        }
    }
    for n in m.all_names() {
        let plug: usize = ws.files.iter().enumerate().filter(|(_, f)| f.loc.is_plugin()).map(|(i, _)| m.all_defs_of(i, &n).len()).sum();
        let tp: usize = ws.files.iter().enumerate().filter(|(_, f)| f.loc.is_third_party()).map(|(i, _)| m.all_defs_of(i, &n).len()).sum();
        if plug >= 2 || tp >= 2 {
            s_pick.insert(n);
        }
    }
    s_pick
}

pub fn snap_opts() -> SnapOpts {
    SnapOpts { root: MEM_ROOT.to_string(), raw_maps: false, cycles: 2, undeclared_files: Some(vec![]), ..SnapOpts::default() }
}

pub fn check_case(c: &Case, info: &mut CaseInfo) -> Outcome {
    let ws = &c.ws;
    let m = Model::new(ws);
    let mut canon: Vec<usize> = (0..ws.files.len()).collect();
    canon.sort_by_key(|i| ws.files[*i].loc.path());
    let base = snapshot(&build_db(&m, &canon), &snap_opts());
    let fb = flatten(&base);
    if m.all_names().iter().any(|n| m.count_defs(n) >= 2) {
        info.nontrivial = true;
    }
    let s_pick = order_sensitive_names(&m);
    let s_diag: BTreeSet<String> = m.all_names().into_iter().filter(|n| m.count_defs(n) >= 2).collect();
    let mut known: BTreeSet<String> = BTreeSet::new();
    let mut detail = None;
    let orders: Vec<Vec<usize>> = if c.all_orders && ws.files.len() <= 6 {
        info.classes.push(format!("all {} analysis orders of {} files", (1..=ws.files.len()).product::<usize>(), ws.files.len()));
        permutations(ws.files.len())
    } else {
        c.perm_keys
            .iter()
            .map(|keys| {
                let mut order: Vec<usize> = (0..ws.files.len()).collect();
                order.sort_by_key(|&i| (keys.get(i).copied().unwrap_or(0), i));
                order
            })
            .collect()
    };
    for order in orders {
        if order == canon {
            continue;
        }
        info.checks += 1;
        let other = snapshot(&build_db(&m, &order), &snap_opts());
        if other == base {
            continue;
        }
        let fo = flatten(&other);
        let what = format!("analysis order {:?} vs path order", order.iter().map(|i| ws.files[*i].loc.rel()).collect::<Vec<_>>());
        if let Some(fail) = attribute_diff(&m, &s_pick, &s_diag, &fb, &fo, &what, &mut known, &mut detail, info) {
            return fail;
        }
    }
    if known.is_empty() {
        Outcome::Ok
    } else {
        info.fail_detail = detail;
        Outcome::Known(known.into_iter().collect())
    }
}

type Flat = BTreeSet<(String, Vec<String>, String)>;

/// Every differing entry of two flattened snapshots must carry the signature of one of the two
/// recorded registration-order findings; anything else is returned as a failure.
#[allow(clippy::too_many_arguments)]
fn attribute_diff(m: &Model, s_pick: &BTreeSet<String>, s_diag: &BTreeSet<String>, fb: &Flat, fo: &Flat, what: &str, known: &mut BTreeSet<String>, detail: &mut Option<String>, info: &mut CaseInfo) -> Option<Outcome> {
    // cycle reports whose paths agree and only the anchoring fixture differs: the DFS entered the
    // cycle from another root because a name with several definitions registered differently
    let paths = |f: &Flat| -> BTreeSet<Vec<String>> { f.iter().filter(|e| e.0 == "cycles").map(|e| e.1.clone()).collect() };
    let only_anchor_moved = paths(fb) == paths(fo) && !s_diag.is_empty();
    for (sec, names, entry) in fb.symmetric_difference(fo) {
        let (set, kf) = if sec == "scope" || sec == "cycles" { (s_diag, KF_DIAG) } else { (s_pick, KF_PICK) };
        let msg = format!("{}: `{}` answer differs: {}", what, sec, entry);
        if sec == "files" {
            return Some(Outcome::Fail(msg));
        }
        let connected_to_multi = (sec == "cycles" || sec == "scope") && {
            // names with several definitions that are connected (through any definition's
            // parameters) to the names of this report can steer the name-level DFS
            let mut comp: BTreeSet<String> = names.iter().cloned().collect();
            loop {
                let mut grew = false;
                for d in m.all_defs() {
                    let t = m.def_tok(d);
                    let touches = comp.contains(&t.name) || t.deps.iter().any(|x| comp.contains(x));
                    if touches {
                        if comp.insert(t.name.clone()) {
                            grew = true;
                        }
                        for x in &t.deps {
                            if comp.insert(x.clone()) {
                                grew = true;
                            }
                        }
                    }
                }
                if !grew {
                    break;
                }
            }
            comp.iter().any(|n| s_diag.contains(n))
        };
        if names.iter().any(|n| set.contains(n)) || (sec == "cycles" && only_anchor_moved) || connected_to_multi {
            info.known_trigger = true;
            known.insert(kf.to_string());
            detail.get_or_insert(msg);
        } else {
            return Some(Outcome::Fail(msg));
        }
    }
    None
}

// ---------------------------------------------------------------------------------------------
// scan tier: the real parallel scan, in separate processes, with different worker counts
// ---------------------------------------------------------------------------------------------

#[derive(Clone, Debug, serde::Serialize, serde::Deserialize)]
pub struct ScanCase {
    pub ws: WorkspaceSpec,
    /// extra test modules (directory pick, items): the scan's work list gets long enough for every
    /// worker count to split it differently
    pub extra: Vec<(u8, Vec<Item>)>,
    /// 2001 fixture-free test modules are added under `zz_fill/`: the scan caches more than 2000 files, so the
    /// cache limit evicts a quarter of the entries - which ones depends on hash seed and worker schedule
    #[serde(default)]
    pub flood: bool,
}

fn flood_dir(root: &str) -> String {
    format!("{}/zz_fill", root)
}

/// every .py file of the materialised workspace (scratch base of `root`) outside the filler directory
fn py_files_outside_fill(root: &str) -> Vec<String> {
    fn walk(d: &std::path::Path, out: &mut Vec<String>) {
        let Ok(rd) = std::fs::read_dir(d) else { return };
        for e in rd.flatten() {
            let p = e.path();
            if p.is_dir() {
                if p.file_name().map(|n| n != "zz_fill").unwrap_or(true) {
                    walk(&p, out);
                }
            } else if p.extension().map(|x| x == "py").unwrap_or(false) {
                out.push(p.to_string_lossy().to_string());
            }
        }
    }
    let mut out = vec![];
    walk(std::path::Path::new(root), &mut out);
    out.sort();
    out
}

pub fn widen(c: &ScanCase) -> WorkspaceSpec {
    let mut ws = c.ws.clone();
    let mut dirs: Vec<usize> = ws.files.iter().filter(|f| f.loc.is_test() || f.loc.is_conftest()).map(|f| f.loc.dir).collect();
    dirs.sort();
    dirs.dedup();
    if dirs.is_empty() {
        dirs.push(0);
    }
    for (i, (pick, items)) in c.extra.iter().enumerate() {
        let dir = dirs[(*pick as usize * dirs.len()) >> 8];
        let loc = FileLoc { dir, kind: FileKind::Test(10 + i as u8) };
        if ws.find(&loc).is_none() {
            ws.files.push(FileSpec { loc, items: items.clone() });
        }
    }
    crate::gen::normalise(&cfg(), &mut ws);
    ws
}

fn scan_snap_opts(root: &str) -> SnapOpts {
    SnapOpts { root: root.to_string(), raw_maps: false, cycles: 2, undeclared_files: Some(vec![]), ..SnapOpts::default() }
}

/// what one process sees after scanning `root`: observable snapshot + the set of indexed files
pub fn scan_observation(root: &str) -> Value {
    let db = pytest_language_server::FixtureDatabase::new();
    db.scan_workspace(std::path::Path::new(root));
    // a flooded workspace: which files are still cached is not an observable (any quarter may have been
    // evicted), so the queried files are listed from the disk and the cached set is left out
    let flooded = std::path::Path::new(&flood_dir(root)).is_dir();
    let mut opts = scan_snap_opts(root);
    if flooded {
        opts.query_files = Some(py_files_outside_fill(root));
    }
    let mut s = snapshot(&db, &opts);
    let files: Vec<String> = if flooded { vec![] } else { cached_files(&db).iter().map(|p| rel(root, p)).collect() };
    s["files"] = serde_json::json!(files);
    s
}

/// child entry point (`vengine scan-snapshot <root>`), worker count through RAYON_NUM_THREADS
pub fn scan_snapshot_main(root: &str) {
    println!("{}", scan_observation(root));
}

fn flatten_obs(s: &Value) -> Flat {
    let mut f = flatten(s);
    for p in s.get("files").and_then(|v| v.as_array()).into_iter().flatten() {
        f.insert(("files".to_string(), vec![], format!("indexed file {}", p)));
    }
    f
}

pub fn check_scan(c: &ScanCase, info: &mut CaseInfo) -> Outcome {
    let ws = widen(c);
    let m = Model::new(&ws);
    let disk = match crate::fsws::DiskWs::create(&ws, "", None) {
        Ok(d) => d,
        Err(e) => return Outcome::Fail(format!("cannot materialise: {}", e)),
    };
    if c.flood {
        let d = flood_dir(&disk.root);
        if std::fs::create_dir_all(&d).is_err() {
            return Outcome::Fail("cannot materialise the filler directory".into());
        }
        for i in 0..2001 {
            let _ = std::fs::write(format!("{}/test_fill_{:04}.py", d, i), "def test_fill():\n    pass\n");
        }
        info.classes.push("flooded scan (> 2000 files, cache eviction)".into());
    }
    let scanned: Vec<String> = if c.flood { vec![] } else { ws.files.iter().filter(|f| f.loc.is_test() || f.loc.is_conftest()).map(|f| f.loc.rel()).collect() };
    let n = ws.files.iter().filter(|f| f.loc.is_test() || f.loc.is_conftest()).count();
    info.classes.push(format!("scan files {}", if n < 9 { "<9" } else if n < 17 { "9-16" } else if n < 33 { "17-32" } else { ">=33" }));
    if n >= 9 && m.all_names().iter().any(|x| m.count_defs(x) >= 2) {
        info.nontrivial = true;
    }
    let s_pick = order_sensitive_names(&m);
    let s_diag: BTreeSet<String> = m.all_names().into_iter().filter(|n| m.count_defs(n) >= 2).collect();
    let mut known: BTreeSet<String> = BTreeSet::new();
    let mut detail = None;
    let base = scan_observation(&disk.root);
    let fb = flatten_obs(&base);
    // by construction: every test module and conftest.py of the tree is indexed
    let have: BTreeSet<String> = base["files"].as_array().into_iter().flatten().filter_map(|v| v.as_str().map(|s| s.to_string())).collect();
    for f in &scanned {
        info.checks += 1;
        if !have.contains(f) {
            return Outcome::Fail(format!("in-process scan of {} scannable files did not index {}", n, f));
        }
    }
    let exe = std::env::current_exe().unwrap_or_else(|_| std::path::PathBuf::from("/verif/target/release/vengine"));
    for workers in [1usize, 2, 3, 5, 8] {
        let out = std::process::Command::new(&exe).args(["scan-snapshot", &disk.root]).env("RAYON_NUM_THREADS", workers.to_string()).output();
        let Ok(out) = out else { continue };
        if !out.status.success() {
            let err = String::from_utf8_lossy(&out.stderr);
            return Outcome::Fail(format!("scanning in a separate process with {} worker(s) ended with {:?}: {}", workers, out.status.code(), err.chars().take(400).collect::<String>()));
        }
        let Ok(other) = serde_json::from_slice::<Value>(&out.stdout) else { return Outcome::Fail(format!("child with {} workers printed no snapshot", workers)) };
        info.checks += 1;
        if other == base {
            continue;
        }
        let fo = flatten_obs(&other);
        let what = format!("scan with {} worker thread(s) in a separate process vs in-process scan ({} scannable files)", workers, n);
        if c.flood {
            // recorded finding: the import-following phase of the scan starts from the entries of file_cache, of
            // which a quarter (any quarter) was evicted during the main phase; modules reached only through the
            // imports / pytest_plugins of an evicted file are then not analysed. Signature: every differing entry
            // concerns a name defined in a module that is neither a test module nor a conftest
            let reached: BTreeSet<String> = m.all_defs().into_iter().filter(|d| !(m.ws.files[d.file].loc.is_test() || m.ws.files[d.file].loc.is_conftest())).map(|d| m.def_tok(d).name.clone()).collect();
            // ... or sits inside such a module (its usages are recorded in one run only)
            let reached_files: BTreeSet<String> = m.ws.files.iter().filter(|f| !(f.loc.is_test() || f.loc.is_conftest())).map(|f| f.loc.rel()).collect();
            let hit = |e: &(String, Vec<String>, String)| -> bool {
                let (sec, names, entry) = e;
                sec != "files" && (names.iter().any(|x| reached.contains(x)) || reached.iter().any(|x| entry.contains(x.as_str())) || reached_files.iter().any(|x| entry.contains(x.as_str())) || names.iter().any(|x| reached_files.contains(x)))
            };
            let attributed: Vec<(String, Vec<String>, String)> = fb.symmetric_difference(&fo).filter(|e| hit(e)).cloned().collect();
            if !attributed.is_empty() {
                known.insert(KF_EVICT.to_string());
                info.known_trigger = true;
                detail.get_or_insert(format!("{}: `{}` answer differs: {}", what, attributed[0].0, attributed[0].2));
                // the rest of the difference is judged as on any other tree
                let fb2: Flat = fb.iter().filter(|e| !attributed.contains(e)).cloned().collect();
                let fo2: Flat = fo.iter().filter(|e| !attributed.contains(e)).cloned().collect();
                if fb2 != fo2 {
                    if let Some(fail) = attribute_diff(&m, &s_pick, &s_diag, &fb2, &fo2, &what, &mut known, &mut detail, info) {
                        return fail;
                    }
                }
                continue;
            }
        }
        if let Some(fail) = attribute_diff(&m, &s_pick, &s_diag, &fb, &fo, &what, &mut known, &mut detail, info) {
            return fail;
        }
    }
    if known.is_empty() {
        Outcome::Ok
    } else {
        info.fail_detail = detail;
        Outcome::Known(known.into_iter().collect())
    }
}

/// Real-world workspaces (the test suites of installed packages, scanned in place): the
/// observations of child processes with 1, 3 and 8 workers must be identical. Without a model a
/// difference is admitted only if every name it involves has several definitions in the index (the
/// signature shared by the two recorded findings).
pub fn check_corpus_scan(dir: &str, info: &mut CaseInfo) -> Outcome {
    let exe = std::env::current_exe().unwrap_or_else(|_| std::path::PathBuf::from("/verif/target/release/vengine"));
    let mut obs: Vec<(usize, Value)> = Vec::new();
    for workers in [1usize, 3, 8] {
        let Ok(out) = std::process::Command::new(&exe).args(["scan-snapshot", dir]).env("RAYON_NUM_THREADS", workers.to_string()).output() else { continue };
        if !out.status.success() {
            return Outcome::Fail(format!("scanning {} in a separate process with {} worker(s) ended with {:?}", dir, workers, out.status.code()));
        }
        let Ok(v) = serde_json::from_slice::<Value>(&out.stdout) else { return Outcome::Fail(format!("child with {} workers printed no snapshot for {}", workers, dir)) };
        obs.push((workers, v));
    }
    if obs.len() < 2 {
        return Outcome::Ok;
    }
    let files = obs[0].1["files"].as_array().map(|a| a.len()).unwrap_or(0);
    info.classes.push(format!("corpus scan: {} files", if files < 10 { "<10" } else if files < 100 { "10-99" } else { ">=100" }));
    if files >= 9 {
        info.nontrivial = true;
    }
    let f0 = flatten_obs(&obs[0].1);
    let mut defs_per_name: std::collections::BTreeMap<String, usize> = std::collections::BTreeMap::new();
    for (sec, names, _) in &f0 {
        if sec == "refs" {
            *defs_per_name.entry(names[0].clone()).or_insert(0) += 1;
        }
    }
    let mut known = false;
    let mut detail = None;
    for (w, o) in obs.iter().skip(1) {
        info.checks += 1;
        if *o == obs[0].1 {
            continue;
        }
        let fo = flatten_obs(o);
        for (sec, names, entry) in f0.symmetric_difference(&fo) {
            let msg = format!("{}: scan with {} worker(s) vs scan with {} worker(s): `{}` answer differs: {}", dir, w, obs[0].0, sec, entry);
            if sec != "files" && !names.is_empty() && names.iter().all(|n| defs_per_name.get(n).copied().unwrap_or(0) >= 2) {
                known = true;
                info.known_trigger = true;
                detail.get_or_insert(msg);
            } else {
                return Outcome::Fail(msg);
            }
        }
    }
    if known {
        info.fail_detail = detail;
        Outcome::Known(vec![KF_PICK.to_string()])
    } else {
        Outcome::Ok
    }
}

pub fn scan_case() -> impl Strategy<Value = ScanCase> {
    use proptest::collection::vec;
    (workspace(cfg()), vec((proptest::num::u8::ANY, crate::gen::items(&GenCfg { max_items: 2, ..cfg() }, crate::gen::FileRole::Test)), 0..=40), proptest::prop_oneof![7 => proptest::strategy::Just(false), 1 => proptest::strategy::Just(true)]).prop_map(|(ws, extra, flood)| ScanCase { ws, extra, flood })
}

pub fn run(ctx: &Ctx) {
    use proptest::collection::vec;
    ctx.run_prop(
        "perm",
        ctx.tier.pick(10_000, 400_000),
        16,
        || (workspace(cfg()), vec(vec(0u16..1000, 24), 3)).prop_map(|(ws, perm_keys)| Case { ws, perm_keys, all_orders: false }),
        |c, info| check_case(c, info),
    );
    // small workspaces (no sibling directories, depth <= 2): every analysis order
    let small = GenCfg { max_depth: 2, siblings: false, max_items: 3, ..cfg() };
    ctx.run_prop(
        "perm-all",
        ctx.tier.pick(500, 25_000),
        16,
        move || workspace(small.clone()).prop_map(|ws| Case { ws, perm_keys: vec![], all_orders: true }),
        |c, info| check_case(c, info),
    );
    ctx.run_prop_shrink("scan", ctx.tier.pick(120, 6_000), 8, 120, scan_case, |c, info| check_scan(c, info));
    let dirs: Vec<String> = crate::props::c04::corpus_workspaces(ctx.tier.pick(2, 10_000) as usize).iter().map(|d| d.to_string_lossy().to_string()).collect();
    ctx.run_enum("corpus-scan", dirs, 4, |d, info| check_corpus_scan(d, info));
}

pub fn judge(_ctx: &Ctx, sub: &str, case: &Value) -> Option<Outcome> {
    let mut info = CaseInfo::default();
    match sub {
        "perm" | "perm-all" => {
            let c: Case = from_case(case)?;
            Some(check_case(&c, &mut info))
        }
        "corpus-scan" => {
            let d: String = from_case(case)?;
            Some(check_corpus_scan(&d, &mut info))
        }
        "scan" => {
            let c: ScanCase = from_case(case)?;
            Some(check_scan(&c, &mut info))
        }
        _ => None,
    }
}
