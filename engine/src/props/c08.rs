//! C08 — answers do not depend on scan order, thread schedule or process run (library tier:
//! analysis-order permutations, the only effect the parallel scan's schedule has on the index).
//! Metamorphic oracle: snapshot(order A) == snapshot(order B) on fresh indexes.

use crate::db::*;
use crate::gen::{workspace, GenCfg};
use crate::model::Model;
use crate::props::c01::impl_imported_names;
use crate::runner::*;
use crate::snapshot::*;
use crate::spec::*;
use proptest::strategy::Strategy;
use serde_json::Value;
use std::collections::BTreeSet;

pub const RULE: &str = "proptest-generated in-memory workspaces biased to colliding names (pool of 3; same name in several conftests, imported modules, plugin and third-party files; override patterns; cycles; scope chains). The observable snapshot (go-to at every usage, references per definition, available fixtures per file, scope mismatches, full normalised cycle list with anchors, unused list) after analysing the files in path order is compared with the snapshot after 3 generated permutations (thorough: all permutations for <=6 files). Non-trivial = some name has >=2 definitions; distinct = distinct workspace specs.";
pub const ASSUMPTIONS: &[&str] = &[
    "the parallel scan affects the index only through the order in which per-file analyses append to the per-name vectors (interleavings inside one analysis are C09's business)",
    "undeclared-fixture findings are excluded (the statement does not list them; they depend on what was indexed at analysis time by design)",
    "process and worker-count tiers run in the `scan` sub-check on materialised trees",
];

pub const KF_PICK: &str = "KF-C08-first-registered-pick";
pub const KF_DIAG: &str = "KF-C08-first-definition-diagnostics";

pub fn cfg() -> GenCfg {
    GenCfg { names: 3, self_dep_bias: 2, allow_dups_in_file: false, ..GenCfg::default() }
}

#[derive(Clone, Debug, serde::Serialize, serde::Deserialize)]
pub struct Case {
    pub ws: WorkspaceSpec,
    pub perm_keys: Vec<Vec<u16>>,
}

fn last_seg(k: &str) -> String {
    k.rsplit(':').next().unwrap_or("").to_string()
}

/// flatten a snapshot into (section, names involved, entry)
pub fn flatten(s: &Value) -> BTreeSet<(String, Vec<String>, String)> {
    let mut out = BTreeSet::new();
    if let Some(g) = s.get("goto").and_then(|v| v.as_object()) {
        for (f, arr) in g {
            for e in arr.as_array().into_iter().flatten() {
                let name = e[2].as_str().unwrap_or("").to_string();
                out.insert(("goto".to_string(), vec![name], format!("{} {}", f, e)));
            }
        }
    }
    if let Some(g) = s.get("refs").and_then(|v| v.as_object()) {
        for (k, arr) in g {
            out.insert(("refs".to_string(), vec![last_seg(k)], format!("{} {}", k, arr)));
        }
    }
    if let Some(g) = s.get("available").and_then(|v| v.as_object()) {
        for (f, arr) in g {
            for e in arr.as_array().into_iter().flatten() {
                let name = e[0].as_str().unwrap_or("").to_string();
                out.insert(("available".to_string(), vec![name], format!("{} {}", f, e)));
            }
        }
    }
    if let Some(arr) = s.get("unused").and_then(|v| v.as_array()) {
        for e in arr {
            out.insert(("unused".to_string(), vec![e[1].as_str().unwrap_or("").to_string()], e.to_string()));
        }
    }
    if let Some(g) = s.get("scope_mismatch").and_then(|v| v.as_object()) {
        for (f, arr) in g {
            for e in arr.as_array().into_iter().flatten() {
                let a = last_seg(e[0].as_str().unwrap_or(""));
                let b = last_seg(e[1].as_str().unwrap_or(""));
                out.insert(("scope".to_string(), vec![a, b], format!("{} {}", f, e)));
            }
        }
    }
    if let Some(arr) = s.get("cycles").and_then(|v| v.as_array()) {
        for e in arr {
            let names: Vec<String> = e["path"].as_array().into_iter().flatten().map(|x| x.as_str().unwrap_or("").to_string()).collect();
            out.insert(("cycles".to_string(), names, e.to_string()));
        }
    }
    out
}

/// Names whose navigation answers are known to depend on registration order (recorded findings
/// KF-C08-first-registered-pick / KF-C01-import-first-registered): imported by some conftest (in the
/// implementation's sense) while having >=2 definitions, or defined by >=2 plugin / >=2 third-party files.
pub fn order_sensitive_names(m: &Model) -> BTreeSet<String> {
    let ws = &m.ws;
    let mut s_pick: BTreeSet<String> = BTreeSet::new();
    for (fi, f) in ws.files.iter().enumerate() {
        if f.loc.is_conftest() {
            for n in impl_imported_names(m, fi, &mut BTreeSet::new()) {
                if m.count_defs(&n) >= 2 {
                    s_pick.insert(n);
                }
            }
        }
    }
    for n in m.all_names() {
        let plug: usize = ws.files.iter().enumerate().filter(|(_, f)| f.loc.is_plugin()).map(|(i, _)| m.all_defs_of(i, &n).len()).sum();
        let tp: usize = ws.files.iter().enumerate().filter(|(_, f)| f.loc.is_third_party()).map(|(i, _)| m.all_defs_of(i, &n).len()).sum();
        if plug >= 2 || tp >= 2 {
            s_pick.insert(n);
        }
    }
    s_pick
}

pub fn snap_opts() -> SnapOpts {
    SnapOpts { root: MEM_ROOT.to_string(), raw_maps: false, cycles: 2, undeclared_files: Some(vec![]), ..SnapOpts::default() }
}

pub fn check_case(c: &Case, info: &mut CaseInfo) -> Outcome {
    let ws = &c.ws;
    let m = Model::new(ws);
    let mut canon: Vec<usize> = (0..ws.files.len()).collect();
    canon.sort_by_key(|i| ws.files[*i].loc.path());
    let base = snapshot(&build_db(&m, &canon), &snap_opts());
    let fb = flatten(&base);
    if m.all_names().iter().any(|n| m.count_defs(n) >= 2) {
        info.nontrivial = true;
    }
    let s_pick = order_sensitive_names(&m);
    let s_diag: BTreeSet<String> = m.all_names().into_iter().filter(|n| m.count_defs(n) >= 2).collect();
    let mut known: BTreeSet<String> = BTreeSet::new();
    let mut detail = None;
    for keys in &c.perm_keys {
        let mut order: Vec<usize> = (0..ws.files.len()).collect();
        order.sort_by_key(|&i| (keys.get(i).copied().unwrap_or(0), i));
        if order == canon {
            continue;
        }
        info.checks += 1;
        let other = snapshot(&build_db(&m, &order), &snap_opts());
        if other == base {
            continue;
        }
        let fo = flatten(&other);
        // cycle reports whose paths agree and only the anchoring fixture differs: the DFS entered the
        // cycle from another root because a name with several definitions registered differently
        let paths = |f: &BTreeSet<(String, Vec<String>, String)>| -> BTreeSet<Vec<String>> { f.iter().filter(|e| e.0 == "cycles").map(|e| e.1.clone()).collect() };
        let only_anchor_moved = paths(&fb) == paths(&fo) && !s_diag.is_empty();
        for (sec, names, entry) in fb.symmetric_difference(&fo) {
            let (set, kf) = if sec == "scope" || sec == "cycles" { (&s_diag, KF_DIAG) } else { (&s_pick, KF_PICK) };
            let msg = format!(
                "analysis order {:?} vs path order: `{}` answer differs: {}",
                order.iter().map(|i| ws.files[*i].loc.rel()).collect::<Vec<_>>(),
                sec,
                entry
            );
            let connected_to_multi = (sec == "cycles" || sec == "scope") && {
                // names with several definitions that are connected (through any definition's
                // parameters) to the names of this report can steer the name-level DFS
                let mut comp: BTreeSet<String> = names.iter().cloned().collect();
                loop {
                    let mut grew = false;
                    for d in m.all_defs() {
                        let t = m.def_tok(d);
                        let touches = comp.contains(&t.name) || t.deps.iter().any(|x| comp.contains(x));
                        if touches {
                            if comp.insert(t.name.clone()) {
                                grew = true;
                            }
                            for x in &t.deps {
                                if comp.insert(x.clone()) {
                                    grew = true;
                                }
                            }
                        }
                    }
                    if !grew {
                        break;
                    }
                }
                comp.iter().any(|n| s_diag.contains(n))
            };
            if names.iter().any(|n| set.contains(n)) || (sec == "cycles" && only_anchor_moved) || connected_to_multi {
                info.known_trigger = true;
                known.insert(kf.to_string());
                detail.get_or_insert(msg);
            } else {
                return Outcome::Fail(msg);
            }
        }
    }
    if known.is_empty() {
        Outcome::Ok
    } else {
        info.fail_detail = detail;
        Outcome::Known(known.into_iter().collect())
    }
}

pub fn run(ctx: &Ctx) {
    use proptest::collection::vec;
    ctx.run_prop(
        "perm",
        ctx.tier.pick(10_000, 400_000),
        16,
        || (workspace(cfg()), vec(vec(0u16..1000, 24), 3)).prop_map(|(ws, perm_keys)| Case { ws, perm_keys }),
        |c, info| check_case(c, info),
    );
}

pub fn judge(_ctx: &Ctx, sub: &str, case: &Value) -> Option<Outcome> {
    let mut info = CaseInfo::default();
    match sub {
        "perm" => {
            let c: Case = from_case(case)?;
            Some(check_case(&c, &mut info))
        }
        _ => None,
    }
}
