//! C19 — published diagnostics track the latest content and the configuration.
//! Oracle: the last publishDiagnostics per document from the real server vs an in-process twin that
//! received the same scan and the same texts, filtered by the configuration the generator built.

use crate::lsp::*;
use crate::lspdiff::{classify, infra_outcome, Infra};
use crate::runner::*;
use proptest::collection::vec;
use proptest::prelude::*;
use pytest_language_server::FixtureDatabase;
use serde::{Deserialize, Serialize};
use serde_json::{json, Value};
use std::collections::BTreeSet;
use std::path::{Path, PathBuf};
use std::sync::atomic::{AtomicUsize, Ordering};

pub const RULE: &str = "proptest-generated sessions: a 3-level workspace (conftest.py, a/conftest.py that an exclude pattern may hide from the scan, a/test_doc.py) whose fixtures carry file-unique names, scopes, dependencies (cycles inside one file, unknown names) and whose tests/fixtures use visible fixtures in their bodies; a pyproject.toml built from a structure (any subset of the three codes plus unknown codes, valid and invalid globs, unrelated tables; malformed variants; absent); histories of 1-6 didOpen/didChange steps over the three documents that raise and clear each kind of diagnostic. After every step the diagnostics just published for the changed document must equal undeclared + cycle + scope findings of a twin index minus the disabled codes. Non-trivial = >=1 code disabled or >=1 invalid entry, and the history both raises and clears a diagnostic; distinct = distinct sessions.";
pub const ASSUMPTIONS: &[&str] = &[
    "fixture names are unique across files so that registration-order findings (C08/C16) cannot leak in",
    "the expected findings come from the library on a FRESH index per step (scan + the latest text of every opened document in order of last analysis): handler, configuration and history-independence are under test; for a document whose latest version does not parse the fresh index receives its last valid version followed by the unparsable one",
];

pub const CODES: [&str; 3] = ["undeclared-fixture", "circular-dependency", "scope-mismatch"];

#[derive(Clone, Debug, Serialize, Deserialize, PartialEq)]
pub struct Fx {
    pub k: u8,
    pub scope: u8,
    /// dependencies: (file level 0 root conftest / 1 sub conftest / 2 doc / 3 unknown, index)
    pub deps: Vec<(u8, u8)>,
    pub body: Vec<(u8, u8)>,
}

#[derive(Clone, Debug, Serialize, Deserialize, PartialEq)]
pub struct Tst {
    pub k: u8,
    pub params: Vec<(u8, u8)>,
    pub body: Vec<(u8, u8)>,
}

#[derive(Clone, Debug, Serialize, Deserialize, PartialEq)]
pub struct DocV {
    pub fixtures: Vec<Fx>,
    pub tests: Vec<Tst>,
    pub broken: bool,
    /// as a history step: send didClose for the document (if open) instead of a new version
    #[serde(default)]
    pub close: bool,
    /// render fixtures that repeat a name of this document too (e.g. the same fixture name in two
    /// places of one module) instead of dropping the repetition
    #[serde(default)]
    pub dups: bool,
    /// as a history step: send the document's CURRENT text again (didChange with identical text)
    #[serde(default)]
    pub resend: bool,
    /// module-level assignments `NAME = 0` of (visible) fixture names (level, index) at the top of this version
    #[serde(default)]
    pub shadows: Vec<(u8, u8)>,
}

#[derive(Clone, Debug, Serialize, Deserialize)]
pub enum Conf {
    Absent,
    /// disabled mask over CODES, unknown codes, exclude entries (0 valid hiding skipme, 1 valid unrelated, 2 invalid `[`, 3 invalid `a**b`), extras
    Valid { disabled: u8, unknown: u8, excludes: Vec<u8>, extra_tables: bool, wrong_types: u8 },
    /// 0 truncated, 1 unbalanced bracket, 2 binary junk, 3 wrong type for the whole table
    Malformed(u8, u8),
}

#[derive(Clone, Debug, Serialize, Deserialize)]
pub struct Session {
    pub conf: Conf,
    pub initial: [DocV; 3],
    pub skipme: DocV,
    /// (file level, new version); a version with `close == true` closes the document instead
    pub steps: Vec<(u8, DocV)>,
}

const PFX: [&str; 4] = ["r", "c", "t", "s"];

fn name_of(level: u8, idx: u8) -> String {
    match level % 4 {
        3 => format!("unknown_{}", idx % 3),
        l => format!("{}{}", PFX[l as usize], idx % 3),
    }
}

pub fn render(level: u8, d: &DocV) -> String {
    let mut s = String::from("import pytest\n\n");
    for (l, i) in &d.shadows {
        // only names of other levels: a module-level name equal to one of the document's own fixtures would be a redefinition
        if l % 4 != level % 4 {
            s.push_str(&format!("{} = 0\n", name_of(*l, *i)));
        }
    }
    // a dependency / body name is only meaningful when visible: own file or an ancestor level
    let visible = |l: u8| l % 4 == 3 || l % 4 <= level;
    let mut seen = BTreeSet::new();
    for f in &d.fixtures {
        if !seen.insert(f.k % 3) && !d.dups {
            continue;
        }
        let scope = crate::spec::SCOPES[f.scope as usize % 5];
        if f.scope % 5 == 0 {
            s.push_str("@pytest.fixture\n");
        } else {
            s.push_str(&format!("@pytest.fixture(scope=\"{}\")\n", scope));
        }
        let mut deps: Vec<String> = vec![];
        for (l, i) in &f.deps {
            let n = name_of(if visible(*l) { *l } else { level }, *i);
            if !deps.contains(&n) {
                deps.push(n);
            }
        }
        s.push_str(&format!("def {}({}):\n", name_of(level, f.k), deps.join(", ")));
        for (l, i) in &f.body {
            s.push_str(&format!("    helper({})\n", name_of(if visible(*l) { *l } else { level }, *i)));
        }
        s.push_str("    return 1\n\n");
    }
    let mut seen = BTreeSet::new();
    for t in &d.tests {
        if !seen.insert(t.k % 3) {
            continue;
        }
        let mut ps: Vec<String> = vec![];
        for (l, i) in &t.params {
            let n = name_of(if visible(*l) { *l } else { level }, *i);
            if !ps.contains(&n) {
                ps.push(n);
            }
        }
        s.push_str(&format!("def test_{}{}({}):\n", PFX[level as usize % 4], t.k % 3, ps.join(", ")));
        for (l, i) in &t.body {
            s.push_str(&format!("    check({}.value)\n", name_of(if visible(*l) { *l } else { level }, *i)));
        }
        s.push_str("    pass\n\n");
    }
    if d.broken {
        s.push_str("def broken(:\n");
    }
    s
}

pub fn conf_text(c: &Conf) -> Option<Vec<u8>> {
    match c {
        Conf::Absent => None,
        Conf::Valid { disabled, unknown, excludes, extra_tables, wrong_types } => {
            let mut s = String::new();
            if *extra_tables {
                s.push_str("[project]\nname = \"demo\"\nversion = \"0.1\"\n\n[tool.other]\nkey = [1, 2]\n\n");
            }
            s.push_str("[tool.pytest-language-server]\n");
            let mut codes: Vec<String> = vec![];
            for (i, c) in CODES.iter().enumerate() {
                if unknown & 1 == 1 && i == 1 {
                    codes.push("\"no-such-code\"".into());
                }
                if (disabled >> i) & 1 == 1 {
                    codes.push(format!("\"{}\"", c));
                }
            }
            if unknown & 2 == 2 {
                codes.push("\"Undeclared-Fixture\"".into());
            }
            // a disabled code may be listed more than once (bits 1..=3 of `wrong_types`): a list, not a set
            for (i, c) in CODES.iter().enumerate() {
                if (disabled >> i) & 1 == 1 && (wrong_types >> (1 + i)) & 1 == 1 {
                    codes.push(format!("\"{}\"", c));
                }
            }
            s.push_str(&format!("disabled_diagnostics = [{}]\n", codes.join(", ")));
            let ex: Vec<String> = excludes
                .iter()
                .map(|e| match e % 4 {
                    0 => "\"a/conftest.py\"".to_string(),
                    1 => "\"**/nothing_here.py\"".to_string(),
                    2 => "\"[\"".to_string(),
                    _ => "\"a**b\"".to_string(),
                })
                .collect();
            s.push_str(&format!("exclude = [{}]\n", ex.join(", ")));
            if wrong_types & 1 == 1 {
                s.push_str("fixture_paths = [\"fixtures/\"]\nskip_plugins = [\"pytest-x\"]\n");
            }
            Some(s.into_bytes())
        }
        Conf::Malformed(k, b) => Some(match k % 4 {
            0 => b"[tool.pytest-language-server]\ndisabled_diagnostics = [\"undeclared-fixture\", \"sco".to_vec(),
            1 => b"[tool.pytest-language-server\ndisabled_diagnostics = [\"undeclared-fixture\"]\n".to_vec(),
            2 => vec![0xff, 0xfe, *b, 0x00, b'[', b'[', 0xc3, 0x28],
            _ => b"[tool]\npytest-language-server = \"disabled_diagnostics\"\n".to_vec(),
        }),
    }
}

/// (disabled codes, exclude hides skipme)
pub fn conf_meaning(c: &Conf) -> (BTreeSet<&'static str>, bool) {
    match c {
        Conf::Valid { disabled, excludes, .. } => {
            let d = CODES.iter().enumerate().filter(|(i, _)| (disabled >> i) & 1 == 1).map(|(_, c)| *c).collect();
            (d, excludes.iter().any(|e| e % 4 == 0))
        }
        _ => (BTreeSet::new(), false),
    }
}

fn docv(level: u8) -> impl Strategy<Value = DocV> {
    let dep = (prop_oneof![3 => 0u8..3, 1 => Just(3u8)], 0u8..3);
    let fx = (0u8..3, prop_oneof![3 => Just(0u8), 1 => 1u8..5], vec(dep.clone(), 0..=2), prop_oneof![3 => Just(vec![]), 1 => vec(dep.clone(), 1..=2)]).prop_map(|(k, scope, deps, body)| Fx { k, scope, deps, body });
    let ts = (0u8..3, vec(dep.clone(), 0..=2), prop_oneof![1 => Just(vec![]), 2 => vec(dep, 1..=3)]).prop_map(|(k, params, body)| Tst { k, params, body });
    let nt = if level == 2 { 1..=3usize } else { 0..=1usize };
    (vec(fx, 0..=3), vec(ts, nt), prop_oneof![9 => Just(false), 1 => Just(true)], prop_oneof![6 => Just(false), 1 => Just(true)], prop_oneof![2 => Just(false), 1 => Just(true)])
        .prop_map(|(fixtures, tests, broken, close, dups)| DocV { fixtures, tests, broken, close, dups, resend: false, shadows: vec![] })
}

fn conf() -> impl Strategy<Value = Conf> {
    prop_oneof![
        1 => Just(Conf::Absent),
        6 => (0u8..8, 0u8..4, vec(0u8..4, 0..=3), any::<bool>(), 0u8..16).prop_map(|(disabled, unknown, excludes, extra_tables, wrong_types)| Conf::Valid { disabled, unknown, excludes, extra_tables, wrong_types }),
        2 => (0u8..4, any::<u8>()).prop_map(|(k, b)| Conf::Malformed(k, b)),
    ]
}

pub fn session() -> impl Strategy<Value = Session> {
    (conf(), docv(0), docv(1), docv(2), docv(1), vec((0u8..3, prop_oneof![docv(0), docv(1), docv(2)], prop_oneof![5 => Just(false), 1 => Just(true)]).prop_map(|(l, mut d, resend)| {
        d.resend = resend;
        (l, d)
    }), 1..=6)
        .prop_flat_map(|steps| (Just(steps), vec(prop_oneof![3 => Just(vec![]), 1 => vec((0u8..3, 0u8..3), 1..=2)], 8)))
        .prop_map(|(mut steps, sh)| {
            for (k, st) in steps.iter_mut().enumerate() {
                st.1.shadows = sh[k % sh.len()].clone();
            }
            steps
        })).prop_map(|(conf, a, b, c, skipme, steps)| {
        let mut a = a;
        let mut b = b;
        let mut c = c;
        a.broken = false;
        b.broken = false;
        c.broken = false;
        let mut skipme = skipme;
        skipme.broken = false;
        Session { conf, initial: [a, b, c], skipme, steps }
    })
}

static COUNTER: AtomicUsize = AtomicUsize::new(0);

fn norm_diag(d: &Value) -> Value {
    json!([d["code"], d["range"]["start"]["line"], d["range"]["start"]["character"], d["range"]["end"]["line"], d["range"]["end"]["character"], d["severity"], d["message"]])
}

fn expected_diags(db: &FixtureDatabase, p: &Path, disabled: &BTreeSet<&'static str>) -> Vec<Value> {
    let mut out = vec![];
    if !disabled.contains("undeclared-fixture") {
        for u in db.get_undeclared_fixtures(p) {
            out.push(json!(["undeclared-fixture", u.line - 1, u.start_char, u.line - 1, u.end_char, 2, format!("Fixture '{}' is used but not declared as a parameter", u.name)]));
        }
    }
    if !disabled.contains("circular-dependency") {
        for c in db.detect_fixture_cycles_in_file(p) {
            out.push(json!(["circular-dependency", c.fixture.line - 1, c.fixture.start_char, c.fixture.line - 1, c.fixture.end_char, 1, format!("Circular fixture dependency detected: {}", c.cycle_path.join(" \u{2192} "))]));
        }
    }
    if !disabled.contains("scope-mismatch") {
        for m in db.detect_scope_mismatches_in_file(p) {
            out.push(json!([
                "scope-mismatch",
                m.fixture.line - 1,
                m.fixture.start_char,
                m.fixture.line - 1,
                m.fixture.end_char,
                2,
                format!("{}-scoped fixture '{}' depends on {}-scoped fixture '{}'", m.fixture.scope.as_str(), m.fixture.name, m.dependency.scope.as_str(), m.dependency.name)
            ]));
        }
    }
    out.sort_by_key(|v| v.to_string());
    out
}

pub fn check_session(ctx: &Ctx, s: &Session, info: &mut CaseInfo) -> Outcome {
    let n = COUNTER.fetch_add(1, Ordering::SeqCst);
    let base = format!("/dev/shm/verif-{}-c19-{}", std::process::id(), n);
    let root = format!("{}/proj", base);
    struct Rm(String);
    impl Drop for Rm {
        fn drop(&mut self) {
            let _ = std::fs::remove_dir_all(&self.0);
        }
    }
    let _rm = Rm(base.clone());
    let paths = [format!("{}/conftest.py", root), format!("{}/a/conftest.py", root), format!("{}/a/test_doc.py", root)];
    if std::fs::create_dir_all(format!("{}/a", root)).is_err() {
        return Outcome::Fail("cannot create scratch tree".into());
    }
    for l in 0..3 {
        let _ = std::fs::write(&paths[l], render(l as u8, &s.initial[l]));
    }
    let _ = &s.skipme;
    if let Some(t) = conf_text(&s.conf) {
        let _ = std::fs::write(format!("{}/pyproject.toml", root), t);
    }
    let (disabled, hide) = conf_meaning(&s.conf);
    let mut srv = match LspSession::start(Some(&root), &[]) {
        Ok(x) => x,
        Err(e) => {
            return match classify(e, "initialize") {
                Infra::Crash(m) => Outcome::Fail(format!("server did not survive initialize with this pyproject.toml: {}", m)),
                i => infra_outcome(i, &ctx.inconclusive),
            }
        }
    };
    if let Err(e) = srv.wait_scan_complete() {
        return match classify(e, "scan") {
            Infra::Crash(m) => Outcome::Fail(m),
            i => infra_outcome(i, &ctx.inconclusive),
        };
    }
    let pats: Vec<glob::Pattern> = if hide { vec![glob::Pattern::new("a/conftest.py").unwrap()] } else { vec![] };
    // latest text per document in order of last analysis; the expected findings are computed on a
    // FRESH index (scan + these texts), so history-dependent state inside the library shows too
    // (document, last valid text, current unparsable text if the latest version does not parse)
    let mut latest: Vec<(usize, Option<String>, Option<String>)> = Vec::new();
    let mut opened = [false; 3];
    let mut version = 1;
    let mut raised = false;
    let mut cleared = false;
    let mut last_nonempty = [false; 3];
    // undeclared-fixture findings expected (and confirmed) at the last VALID version of each document
    let mut last_valid_undeclared: [Option<Vec<Value>>; 3] = [None, None, None];
    let invalid_entry = matches!(&s.conf, Conf::Valid { unknown, excludes, .. } if *unknown != 0 || excludes.iter().any(|e| e % 4 >= 2)) || matches!(s.conf, Conf::Malformed(..));
    // every document is first opened with its on-disk (valid) text, outermost first, so that all
    // later findings stem from editor analyses in a known order (what the parallel scan flagged as
    // undeclared depends on its file order, which no two processes share)
    let mut all_steps: Vec<(u8, DocV)> = (0..3u8).map(|l| (l, s.initial[l as usize].clone())).collect();
    for st in all_steps.iter_mut() {
        st.1.close = false;
    }
    all_steps.extend(s.steps.iter().cloned());
    // resend steps: replace the generated version by the document's current one
    let mut last_dv: [Option<DocV>; 3] = [None, None, None];
    for st in all_steps.iter_mut() {
        let l = (st.0 % 3) as usize;
        if st.1.resend && !st.1.close {
            if let Some(prev) = &last_dv[l] {
                let mut same = prev.clone();
                same.resend = true;
                st.1 = same;
            }
        }
        if !st.1.close {
            last_dv[l] = Some(st.1.clone());
        }
    }
    for (k, (lvl, dv)) in all_steps.iter().enumerate() {
        let l = (*lvl % 3) as usize;
        if dv.resend {
            info.classes.push("step=resend of identical text".into());
        }
        if dv.close {
            if opened[l] {
                opened[l] = false;
                if let Err(e) = srv.close(&paths[l]) {
                    return match classify(e, "didClose") {
                        Infra::Crash(m) => Outcome::Fail(m),
                        i => infra_outcome(i, &ctx.inconclusive),
                    };
                }
                // didClose has no reply: make sure it was processed before going on
                if srv.request("workspace/symbol", json!({"query": "sync"})).is_err() {
                    return Outcome::Fail(format!("server stopped answering after didClose: {}", srv.stderr_tail()));
                }
                info.classes.push("step=close".into());
            }
            continue;
        }
        let text = render(l as u8, dv);
        let res = if !opened[l] {
            opened[l] = true;
            srv.open_sync(&paths[l], &text, 1500)
        } else {
            version += 1;
            srv.change_sync(&paths[l], version, &text, 1500)
        };
        let got = match res {
            Ok(Some(d)) => d,
            Ok(None) => return Outcome::Fail(format!("step {}: nothing was ever published for {}", k, paths[l])),
            Err(e) => {
                return match classify(e, "didOpen/didChange") {
                    Infra::Crash(m) => Outcome::Fail(format!("step {}: {}", k, m)),
                    i => infra_outcome(i, &ctx.inconclusive),
                }
            }
        };
        if dv.broken {
            // an unparsable version leaves the last valid analysis in force; its position in the
            // analysis order does not change
            match latest.iter_mut().find(|(x, _, _)| *x == l) {
                Some(e) => e.2 = Some(text.clone()),
                None => latest.push((l, None, Some(text.clone()))),
            }
        } else {
            latest.retain(|(x, _, _)| *x != l);
            latest.push((l, Some(text.clone()), None));
        }
        let twin = FixtureDatabase::new();
        twin.scan_workspace_with_excludes(Path::new(&root), &pats);
        for (x, valid, _) in &latest {
            if let Some(t) = valid {
                twin.analyze_file(PathBuf::from(&paths[*x]), t);
            }
        }
        for (x, _, broken) in &latest {
            if let Some(t) = broken {
                twin.analyze_file(PathBuf::from(&paths[*x]), t);
            }
        }
        let mut got_n: Vec<Value> = got.as_array().into_iter().flatten().map(norm_diag).collect();
        got_n.sort_by_key(|v| v.to_string());
        let exp = expected_diags(&twin, Path::new(&paths[l]), &disabled);
        info.checks += 1;
        if !exp.is_empty() {
            raised = true;
        }
        if exp.is_empty() && last_nonempty[l] {
            cleared = true;
        }
        last_nonempty[l] = !exp.is_empty();
        let is_undeclared = |v: &Value| v.get(0).and_then(|c| c.as_str()) == Some("undeclared-fixture");
        // An unparsable version has no findings of its own: the server documents that it keeps the
        // data of the last valid analysis. Undeclared-fixture findings are computed at analysis time,
        // so for an unparsable version both readings of "the last valid analysis" are accepted: as it
        // would come out now (exp) and as it came out when that version was analysed (alt).
        let alt: Option<Vec<Value>> = if dv.broken {
            last_valid_undeclared[l].as_ref().map(|u| {
                let mut v: Vec<Value> = exp.iter().filter(|d| !is_undeclared(d)).cloned().collect();
                v.extend(u.iter().cloned());
                v.sort_by_key(|x| x.to_string());
                v
            })
        } else {
            last_valid_undeclared[l] = Some(exp.iter().filter(|d| is_undeclared(d)).cloned().collect());
            None
        };
        if dv.broken {
            info.classes.push(if alt.as_ref().map(|a| *a != exp).unwrap_or(false) { "broken step: two admissible undeclared sets".into() } else { "broken step: one admissible set".into() });
        }
        if got_n != exp && alt.as_ref().map(|a| got_n != *a).unwrap_or(true) {
            return Outcome::Fail(format!(
                "step {} ({} of {}): published diagnostics differ from the findings for the latest content (disabled: {:?}, config: {:?})\n published: {}\n expected:  {}\n--- text ---\n{}",
                k,
                if version == 1 { "didOpen" } else { "didOpen/didChange" },
                paths[l].strip_prefix(&format!("{}/", root)).unwrap_or(&paths[l]),
                disabled,
                s.conf,
                json!(got_n),
                json!(exp),
                text
            ));
        }
    }
    if (!disabled.is_empty() || invalid_entry) && raised && cleared {
        info.nontrivial = true;
    }
    // the server must still be serving
    if srv.request("workspace/symbol", json!({"query": ""})).is_err() {
        return Outcome::Fail(format!("server stopped answering at the end of the session: {}", srv.stderr_tail()));
    }
    srv.shutdown();
    Outcome::Ok
}

pub fn run(ctx: &Ctx) {
    ctx.run_prop_shrink("sessions", ctx.tier.pick(1_500, 60_000), 16, 300, session, |s, info| check_session(ctx, s, info));
}

pub fn judge(ctx: &Ctx, sub: &str, case: &Value) -> Option<Outcome> {
    let mut info = CaseInfo::default();
    match sub {
        "sessions" => {
            let s: Session = from_case(case)?;
            Some(check_session(ctx, &s, &mut info))
        }
        _ => None,
    }
}
