pub mod c01;
pub mod c02;
pub mod c03;
pub mod c04;
pub mod c05;
pub mod c06;
pub mod c07;
pub mod c08;
pub mod c11;
pub mod c13;
pub mod c14;
pub mod c15;
pub mod c16;
pub mod c17;
pub mod c18;
pub mod c19;
pub mod c20;
pub mod lsp_tiers;

use crate::runner::{load_replay, run_replay_tier, Ctx, Outcome};
use serde_json::Value;

type Judge = fn(&Ctx, &str, &Value) -> Option<Outcome>;
type Run = fn(&Ctx);

fn table(id: &str) -> Option<(Run, Judge, &'static str, &'static [&'static str])> {
    match id {
        "C01" => Some((c01::run, c01::judge, c01::RULE, c01::ASSUMPTIONS)),
        "C02" => Some((c02::run, c02::judge, c02::RULE, c02::ASSUMPTIONS)),
        "C03" => Some((c03::run, c03::judge, c03::RULE, c03::ASSUMPTIONS)),
        "C04" => Some((c04::run, c04::judge, c04::RULE, c04::ASSUMPTIONS)),
        "C05" => Some((c05::run, c05::judge, c05::RULE, c05::ASSUMPTIONS)),
        "C07" => Some((c07::run, c07::judge, c07::RULE, c07::ASSUMPTIONS)),
        "C08" => Some((c08::run, c08::judge, c08::RULE, c08::ASSUMPTIONS)),
        "C11" => Some((c11::run, c11::judge, c11::RULE, c11::ASSUMPTIONS)),
        "C13" => Some((c13::run, c13::judge, c13::RULE, c13::ASSUMPTIONS)),
        "C14" => Some((c14::run, c14::judge, c14::RULE, c14::ASSUMPTIONS)),
        "C15" => Some((c15::run, c15::judge, c15::RULE, c15::ASSUMPTIONS)),
        "C17" => Some((c17::run, c17::judge, c17::RULE, c17::ASSUMPTIONS)),
        "C18" => Some((c18::run, c18::judge_replay, c18::RULE, c18::ASSUMPTIONS)),
        "C19" => Some((c19::run, c19::judge, c19::RULE, c19::ASSUMPTIONS)),
        "C20" => Some((c20::run, c20::judge, c20::RULE, c20::ASSUMPTIONS)),
        "C16" => Some((c16::run, c16::judge, c16::RULE, c16::ASSUMPTIONS)),
        "C06" => Some((c06::run, c06::judge, c06::RULE, c06::ASSUMPTIONS)),
        _ => None,
    }
}

pub fn dispatch(ctx: &Ctx, replay: Option<&str>) -> i32 {
    let Some((run, judge, rule, assumptions)) = table(&ctx.id) else {
        eprintln!("unknown property id {}", ctx.id);
        return 2;
    };
    if let Some(path) = replay {
        let Some(r) = load_replay(path) else {
            eprintln!("cannot read replay file {}", path);
            return 2;
        };
        return match judge(ctx, &r.sub, &r.case) {
            None => {
                eprintln!("replay names unknown sub-check {}", r.sub);
                2
            }
            Some(Outcome::Ok) => {
                println!("replay passed: {}", path);
                0
            }
            Some(Outcome::Known(ks)) => {
                let listed: Vec<&String> = ks.iter().filter(|k| crate::runner::is_listed_known(&ctx.known, k)).collect();
                if listed.len() == ks.len() {
                    for k in &ks {
                        if let Some(kf) = ctx.known.iter().find(|x| &x.id == k) {
                            ctx.known_line(&kf.what);
                        }
                    }
                    0
                } else {
                    println!("VIOLATION property={} replay={}", ctx.id, path);
                    println!("  reproduces deviation(s) {:?} not listed as known", ks);
                    1
                }
            }
            Some(Outcome::Fail(m)) => {
                println!("VIOLATION property={} replay={}", ctx.id, path);
                for l in m.lines().take(40) {
                    println!("  {}", l);
                }
                1
            }
        };
    }
    run_replay_tier(ctx, &|sub, case| judge(ctx, sub, case));
    run(ctx);
    ctx.finish(rule, assumptions)
}

pub fn render_case(case: &Value) {
    if let Ok(sp) = serde_json::from_value::<crate::props::c17::Spec>(case.clone()) {
        print!("{}", crate::props::c17::render(&sp).text);
        return;
    }
    if let Ok(m) = serde_json::from_value::<crate::pygen::PModule>(case.clone()) {
        print!("{}", crate::pygen::render_module(&m));
        return;
    }
    if let Ok(h) = serde_json::from_value::<crate::hist::History>(case.clone()) {
        let cfg = crate::props::c06::cfg();
        let mut it = crate::hist::Interp::new(&cfg, &h.ws);
        for s in &h.steps {
            it.apply(s);
        }
        for (k, (fi, text, valid)) in it.sent.iter().enumerate() {
            println!("==== send #{} {} valid={}", k, it.files[*fi].loc.rel(), valid);
            print!("{}", text);
        }
        println!("steps: {:?}", h.steps);
        return;
    }
    if let Ok(c) = serde_json::from_value::<crate::props::c14::Case>(case.clone()) {
        let ws = crate::props::c14::effective_ws(&c);
        for f in &ws.files {
            println!("==== {}", f.loc.rel());
            print!("{}", crate::render::render(f).text);
        }
        println!("layouts: tp={:?} plug={:?} outside_mask={} _pytest={}", c.tp_layout, c.plug_layout, c.outside_mask, c.with_pytest_internal);
        return;
    }
    if let Ok(ws) = serde_json::from_value::<crate::spec::WorkspaceSpec>(case.get("ws").cloned().unwrap_or(case.clone())) {
        for f in &ws.files {
            println!("==== {} ({})", f.loc.rel(), f.loc.path());
            print!("{}", crate::render::render(f).text);
        }
        println!("order: {:?}", ws.order().iter().map(|i| ws.files[*i].loc.rel()).collect::<Vec<_>>());
    } else {
        println!("{}", serde_json::to_string_pretty(case).unwrap());
    }
}
