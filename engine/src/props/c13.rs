//! C13 — discovery covers exactly pytest's files, wherever the workspace lives.
//! Oracle: model of file selection + import closure; per-file records vs stand-alone analysis;
//! relocation metamorphic relation (root-relative results identical under every absolute placement).

use crate::runner::*;
use proptest::collection::vec;
use proptest::prelude::*;
use pytest_language_server::FixtureDatabase;
use serde::{Deserialize, Serialize};
use serde_json::{json, Value};
use std::collections::{BTreeMap, BTreeSet};
use std::path::{Path, PathBuf};
use std::sync::atomic::{AtomicUsize, Ordering};

pub const RULE: &str = "proptest-generated directory trees (depth <= 3; directory names from normal / documented-ignored / near-miss pools, file names at and near the collection patterns, helper modules and packages, import statements of 3 kinds and relative levels 0-2, exclude pattern sets from the algebra {dir/**, **/name.py, exact path}, non-UTF-8 files) materialised under /dev/shm below 6 different absolute prefixes (plain, build/, env/, node_modules/, site-packages/, venv/lib/) and, for two of them, named through a symlink. Oracles: indexed file set == selected files + import closure - unreadable (model); every indexed file's records == its stand-alone analysis; root-relative records, classification flags and CLI output identical across placements. Non-trivial = the tree has an ignored directory containing a would-match file, a fault, an exclude that hits, or an import that resolves; distinct = distinct tree specs.";
pub const ASSUMPTIONS: &[&str] = &[
    "the documented ignore list (scanner.rs SKIP_DIRECTORIES + *.egg-info) and pytest's default python_files patterns",
    "exclude patterns restricted to an algebra whose meaning does not depend on glob corner cases",
    "permission faults cannot be injected (root): non-UTF-8 content stands in for unreadable files",
];

pub const KF_ANCESTOR_IGNORED: &str = "KF-C13-ancestor-named-like-ignored-dir";
pub const KF_SITE_PACKAGES_PREFIX: &str = "KF-C13-site-packages-in-workspace-path";

pub const DIR_NORMAL: [&str; 4] = ["pkg", "tests", "sub", "unit"];
pub const DIR_IGNORED: [&str; 15] = [".git", "venv", "env", ".venv", "build", "dist", "node_modules", "__pycache__", ".tox", "target", "vendor", "site-packages", ".eggs", "proj.egg-info", ".mypy_cache"];
pub const DIR_NEAR: [&str; 7] = ["builds", ".venvs", "environment", "dists", "egg-info", "my.egg-infos", "Build"];
pub const FILE_SELECTED: [&str; 6] = ["conftest.py", "test_a.py", "test_.py", "b_test.py", "_test.py", "test_c.py"];
pub const FILE_OTHER: [&str; 11] = ["test.py", "conftest.pyc", "Test_x.py", "test_x.txt", "mytest.py", "tests.py", "helper_1.py", "helper_2.py", "util.py", "__init__.py", "types.py"];
/// `types` is a project module named like a standard-library module: only a relative import means it
pub const IMPORT_TARGETS: [&str; 8] = ["helper_1", "helper_2", "util", "pkg.helper_1", "sub.util", "tests.helper_2", "pkg", "types"];
/// a prefix starting with `@link:` places the tree under the rest of the prefix and hands the scan a
/// symlink to it (the client names the workspace through a non-canonical path)
/// a prefix starting with `@root:` makes the workspace folder itself carry that name
pub const PREFIXES: [&str; 10] = ["", "build/x", "env", "node_modules/n", "site-packages/p", "venv/lib", "@link:plain", "@link:build/x", "@root:build", "@root:x/node_modules"];

#[derive(Clone, Debug, Serialize, Deserialize, PartialEq)]
pub struct Imp {
    /// 0 star, 1 explicit, 2 pytest_plugins
    pub kind: u8,
    pub level: u8,
    pub target: u8,
}

#[derive(Clone, Debug, Serialize, Deserialize)]
pub struct TFile {
    /// index into `dirs` (+1), 0 = root
    pub dir: u8,
    /// < 6: FILE_SELECTED, else FILE_OTHER[n-6]
    pub name: u8,
    pub imports: Vec<Imp>,
    pub bad_utf8: bool,
}

#[derive(Clone, Debug, Serialize, Deserialize)]
pub struct TDir {
    /// 0 = root, else index+1 of parent in dirs (must be smaller)
    pub parent: u8,
    /// 0..4 normal, 4..19 ignored, 19..26 near-miss
    pub name: u8,
}

#[derive(Clone, Debug, Serialize, Deserialize)]
pub enum Ex {
    DirAll(u8),
    AnyNamed(u8),
    Exact(u8),
    /// the root-relative path of a directory of the tree, without wildcard: it names the directory
    /// entry itself and no file below it
    DirPath(u8),
    /// `**/<dirname>`: again only directory entries can match
    AnyDir(u8),
}

#[derive(Clone, Debug, Serialize, Deserialize)]
pub struct Tree {
    pub dirs: Vec<TDir>,
    pub files: Vec<TFile>,
    pub excludes: Vec<Ex>,
}

fn dir_name(n: u8) -> &'static str {
    let n = n as usize % 26;
    if n < 4 {
        DIR_NORMAL[n]
    } else if n < 19 {
        DIR_IGNORED[n - 4]
    } else {
        DIR_NEAR[n - 19]
    }
}

fn file_name(n: u8) -> &'static str {
    let n = n as usize % 17;
    if n < 6 {
        FILE_SELECTED[n]
    } else {
        FILE_OTHER[n - 6]
    }
}

pub fn should_skip_dir(name: &str) -> bool {
    DIR_IGNORED[..13].contains(&name) || [".hg", ".svn", ".env", ".pytest_cache", ".ruff_cache", ".nox", "bower_components", ".idea", ".vscode", ".cache", ".local", ".mypy_cache"].contains(&name) || name.ends_with(".egg-info")
}

pub fn is_collected_name(n: &str) -> bool {
    n == "conftest.py" || (n.starts_with("test_") && n.ends_with(".py")) || n.ends_with("_test.py")
}

impl Tree {
    /// relative directory path of dir index (0 = root -> "")
    pub fn dir_rel(&self, d: u8) -> String {
        if d == 0 {
            return String::new();
        }
        let td = &self.dirs[(d - 1) as usize];
        let p = self.dir_rel(td.parent);
        if p.is_empty() {
            dir_name(td.name).to_string()
        } else {
            format!("{}/{}", p, dir_name(td.name))
        }
    }
    pub fn file_rel(&self, f: &TFile) -> String {
        let d = self.dir_rel(f.dir);
        if d.is_empty() {
            file_name(f.name).to_string()
        } else {
            format!("{}/{}", d, file_name(f.name))
        }
    }
    /// unique files by relative path (first wins), with ids
    pub fn files_by_rel(&self) -> BTreeMap<String, (usize, &TFile)> {
        let mut m = BTreeMap::new();
        for (i, f) in self.files.iter().enumerate() {
            m.entry(self.file_rel(f)).or_insert((i, f));
        }
        m
    }
    pub fn all_dirs(&self) -> BTreeSet<String> {
        let mut s = BTreeSet::new();
        s.insert(String::new());
        for i in 0..self.dirs.len() {
            s.insert(self.dir_rel((i + 1) as u8));
        }
        s
    }
}

pub fn content_of(id: usize, f: &TFile) -> Vec<u8> {
    let mut s = String::from("import pytest\n");
    let mut plugins: Vec<String> = vec![];
    for im in &f.imports {
        let dots = ".".repeat(im.level as usize % 3);
        let t = IMPORT_TARGETS[im.target as usize % IMPORT_TARGETS.len()];
        match im.kind % 3 {
            0 => s.push_str(&format!("from {}{} import *\n", dots, t)),
            1 => s.push_str(&format!("from {}{} import some_name\n", dots, t)),
            _ => plugins.push(format!("\"{}\"", t)),
        }
    }
    if !plugins.is_empty() {
        s.push_str(&format!("pytest_plugins = [{}]\n", plugins.join(", ")));
    }
    s.push_str(&format!("\n@pytest.fixture\ndef fx_{}():\n    return {}\n\ndef test_{}(fx_{}):\n    pass\n", id, id, id, id));
    let mut b = s.into_bytes();
    if f.bad_utf8 {
        b.extend_from_slice(b"# \xff\xfe\xc3\x28\n");
    }
    b
}

fn tree() -> impl Strategy<Value = Tree> {
    let d = (0u8..6, prop_oneof![4 => 0u8..4, 4 => 4u8..19, 2 => 19u8..26]).prop_map(|(parent, name)| TDir { parent, name });
    let imp = (0u8..3, prop_oneof![2 => Just(0u8), 3 => Just(1u8), 1 => Just(2u8)], 0u8..8).prop_map(|(kind, level, target)| Imp { kind, level, target });
    let f = (0u8..7, prop_oneof![6 => 0u8..6, 3 => 6u8..12, 5 => 12u8..17], vec(imp, 0..=2), prop_oneof![12 => Just(false), 1 => Just(true)])
        .prop_map(|(dir, name, imports, bad_utf8)| TFile { dir, name, imports, bad_utf8 });
    let ex = prop_oneof![3 => (0u8..26).prop_map(Ex::DirAll), 3 => (0u8..16).prop_map(Ex::AnyNamed), 3 => (0u8..12).prop_map(Ex::Exact), 2 => (0u8..8).prop_map(Ex::DirPath), 1 => (0u8..26).prop_map(Ex::AnyDir)];
    (vec(d, 0..=6), vec(f, 1..=10), prop_oneof![2 => Just(vec![]), 1 => vec(ex, 1..=2)]).prop_map(|(mut dirs, mut files, excludes)| {
        for (i, d) in dirs.iter_mut().enumerate() {
            d.parent = if i == 0 { 0 } else { d.parent % (i as u8 + 1) };
        }
        let nd = dirs.len() as u8;
        for f in files.iter_mut() {
            f.dir %= nd + 1;
            // the stdlib-named project module is only ever imported relatively (an absolute
            // `import types` / pytest_plugins = ["types"] means the standard library in Python)
            for im in f.imports.iter_mut() {
                if im.target as usize % IMPORT_TARGETS.len() == 7 {
                    if im.kind % 3 == 2 {
                        im.kind = 0;
                    }
                    if im.level % 3 == 0 {
                        im.level = 1;
                    }
                }
            }
        }
        Tree { dirs, files, excludes }
    })
}

pub fn exclude_strings(t: &Tree) -> Vec<String> {
    let files: Vec<String> = t.files_by_rel().keys().cloned().collect();
    let dirs: Vec<String> = t.all_dirs().into_iter().filter(|d| !d.is_empty()).collect();
    t.excludes
        .iter()
        .map(|e| match e {
            Ex::DirAll(n) => format!("{}/**", dir_name(*n)),
            Ex::AnyNamed(n) => format!("**/{}", file_name(*n)),
            Ex::Exact(k) => files.get(*k as usize % files.len().max(1)).cloned().unwrap_or_else(|| "nothing.py".to_string()),
            Ex::DirPath(k) => dirs.get(*k as usize % dirs.len().max(1)).cloned().unwrap_or_else(|| "nothing".to_string()),
            Ex::AnyDir(n) => format!("**/{}", dir_name(*n)),
        })
        .collect()
}

fn excluded(rel: &str, pats: &[String]) -> bool {
    pats.iter().any(|p| {
        if let Some(d) = p.strip_suffix("/**") {
            rel.starts_with(&format!("{}/", d))
        } else if let Some(n) = p.strip_prefix("**/") {
            rel.rsplit('/').next() == Some(n)
        } else {
            rel == p
        }
    })
}

/// model of import resolution on the virtual tree; returns the relative path of the target file
fn resolve_import(t: &Tree, files: &BTreeMap<String, (usize, &TFile)>, from_rel: &str, im: &Imp) -> Option<String> {
    let dirs = t.all_dirs();
    let from_dir: String = match from_rel.rfind('/') {
        Some(i) => from_rel[..i].to_string(),
        None => String::new(),
    };
    let target = IMPORT_TARGETS[im.target as usize % IMPORT_TARGETS.len()];
    let parts: Vec<&str> = target.split('.').collect();
    let find_in = |base: &str| -> Option<String> {
        let mut cur = base.to_string();
        for (i, p) in parts.iter().enumerate() {
            let join = |a: &str, b: &str| if a.is_empty() { b.to_string() } else { format!("{}/{}", a, b) };
            if i + 1 == parts.len() {
                let py = join(&cur, &format!("{}.py", p));
                if files.contains_key(&py) {
                    return Some(py);
                }
                let init = join(&join(&cur, p), "__init__.py");
                if files.contains_key(&init) {
                    return Some(init);
                }
                return None;
            } else {
                cur = join(&cur, p);
                if !dirs.contains(&cur) {
                    return None;
                }
            }
        }
        None
    };
    let parent = |d: &str| -> Option<String> {
        if d.is_empty() {
            None
        } else {
            Some(match d.rfind('/') {
                Some(i) => d[..i].to_string(),
                None => String::new(),
            })
        }
    };
    let level = if im.kind % 3 == 2 { 0 } else { im.level % 3 };
    if level == 0 && target == "types" {
        return None; // the absolute name is the standard-library module
    }
    if level >= 1 {
        let mut base = from_dir.clone();
        for _ in 1..level {
            base = parent(&base)?; // above the root: nothing of ours lives there
        }
        find_in(&base)
    } else {
        let mut base = Some(from_dir);
        while let Some(b) = base {
            if let Some(r) = find_in(&b) {
                return Some(r);
            }
            base = parent(&b);
        }
        None
    }
}

/// model: which files (relative) end up indexed
pub fn model_indexed(t: &Tree, info: &mut CaseInfo) -> BTreeSet<String> {
    let files = t.files_by_rel();
    let pats = exclude_strings(t);
    let mut out: BTreeSet<String> = BTreeSet::new();
    for (rel, (_, f)) in &files {
        let comps: Vec<&str> = rel.split('/').collect();
        let (dirs, name) = comps.split_at(comps.len() - 1);
        let in_ignored = dirs.iter().any(|d| should_skip_dir(d));
        if is_collected_name(name[0]) {
            if in_ignored {
                info.nontrivial = true;
                continue;
            }
            if excluded(rel, &pats) {
                info.nontrivial = true;
                continue;
            }
            if f.bad_utf8 {
                info.nontrivial = true;
                continue;
            }
            out.insert(rel.clone());
        }
    }
    // import closure
    let mut frontier: Vec<String> = out.iter().cloned().collect();
    while let Some(cur) = frontier.pop() {
        let (_, f) = files[&cur];
        for im in &f.imports {
            if let Some(tgt) = resolve_import(t, &files, &cur, im) {
                info.nontrivial = true;
                let (_, tf) = files[&tgt];
                if tf.bad_utf8 {
                    continue;
                }
                if out.insert(tgt.clone()) {
                    frontier.push(tgt);
                }
            }
        }
    }
    out
}

static COUNTER: AtomicUsize = AtomicUsize::new(0);

pub struct Placed {
    pub base: String,
    pub root: String,
}

impl Drop for Placed {
    fn drop(&mut self) {
        let _ = std::fs::remove_dir_all(&self.base);
    }
}

pub fn materialise(t: &Tree, prefix: &str) -> std::io::Result<Placed> {
    let n = COUNTER.fetch_add(1, Ordering::SeqCst);
    let base = format!("/dev/shm/verif-{}-c13-{}", std::process::id(), n);
    let root = if let Some(r) = prefix.strip_prefix("@root:") {
        format!("{}/{}", base, r)
    } else if prefix.is_empty() {
        format!("{}/proj", base)
    } else {
        format!("{}/{}/proj", base, prefix)
    };
    std::fs::create_dir_all(&root)?;
    for d in t.all_dirs() {
        if !d.is_empty() {
            std::fs::create_dir_all(format!("{}/{}", root, d))?;
        }
    }
    for (rel, (id, f)) in t.files_by_rel() {
        std::fs::write(format!("{}/{}", root, rel), content_of(id, f))?;
    }
    Ok(Placed { base, root })
}

fn per_file(db: &FixtureDatabase, root: &str) -> BTreeMap<String, Value> {
    let mut out = BTreeMap::new();
    for f in crate::snapshot::cached_files(db) {
        let rel = crate::snapshot::rel(root, &f);
        let mut defs: Vec<Value> = crate::snapshot::all_defs(db).iter().filter(|d| d.file_path == f).map(|d| crate::snapshot::def_full(root, d)).collect();
        defs.sort_by_key(|v| v.to_string());
        let mut us: Vec<Value> = db.usages.get(&f).map(|u| u.iter().map(|u| json!([u.name, u.line, u.start_char, u.end_char])).collect()).unwrap_or_default();
        us.sort_by_key(|v| v.to_string());
        out.insert(rel, json!({"defs": defs, "usages": us}));
    }
    out
}

pub fn check_tree(t: &Tree, info: &mut CaseInfo) -> Outcome {
    let exp = model_indexed(t, info);
    let pats: Vec<glob::Pattern> = exclude_strings(t).iter().filter_map(|p| glob::Pattern::new(p).ok()).collect();
    let mut base_records: Option<(BTreeMap<String, Value>, String)> = None;
    let mut known: BTreeSet<String> = BTreeSet::new();
    let mut detail = None;
    for (pi, prefix) in PREFIXES.iter().enumerate() {
        let real_prefix = prefix.strip_prefix("@link:").unwrap_or(prefix);
        let placed = match materialise(t, real_prefix) {
            Ok(p) => p,
            Err(e) => return Outcome::Fail(format!("cannot materialise: {}", e)),
        };
        let db = FixtureDatabase::new();
        let scan_root = if prefix.starts_with("@link:") {
            let link = format!("{}/lnk", placed.base);
            if std::os::unix::fs::symlink(&placed.root, &link).is_err() {
                continue;
            }
            link
        } else {
            placed.root.clone()
        };
        db.scan_workspace_with_excludes(Path::new(&scan_root), &pats);
        let recs = per_file(&db, &placed.root);
        info.checks += 1;
        if pi == 0 {
            // (A) selection model
            let got: BTreeSet<String> = recs.keys().cloned().collect();
            if got != exp {
                let missing: Vec<&String> = exp.difference(&got).collect();
                let extra: Vec<&String> = got.difference(&exp).collect();
                return Outcome::Fail(format!("indexed file set differs from the selection model: not indexed {:?}, unexpectedly indexed {:?} (excludes {:?})", missing, extra, exclude_strings(t)));
            }
            // (B) every indexed file's records equal its stand-alone analysis
            for (rel, rec) in &recs {
                let p = PathBuf::from(format!("{}/{}", placed.root, rel));
                let Ok(text) = std::fs::read_to_string(&p) else { continue };
                let solo = FixtureDatabase::new();
                solo.analyze_file(p, &text);
                let srec = per_file(&solo, &placed.root);
                info.checks += 1;
                if srec.get(rel) != Some(rec) {
                    return Outcome::Fail(format!("{}: records after the scan {} differ from a stand-alone analysis {:?}", rel, rec, srec.get(rel)));
                }
            }
            let cli = crate::cli::run_cli(&["fixtures", "list", &placed.root], 4);
            let cli_rel: String = cli.stdout.lines().skip(1).collect::<Vec<_>>().join("\n");
            base_records = Some((recs, cli_rel));
        } else {
            // (C) relocation
            let (base, base_cli) = base_records.as_ref().unwrap();
            if &recs != base {
                let msg = format!(
                    "workspace placed under `{}/`: root-relative index differs from the plain placement: {}",
                    prefix,
                    crate::snapshot::first_diff(&json!(base), &json!(recs)).unwrap_or_default()
                );
                let ancestor_ignored = real_prefix.split('/').any(should_skip_dir);
                if ancestor_ignored && recs.is_empty() && !base.is_empty() {
                    info.known_trigger = true;
                    known.insert(KF_ANCESTOR_IGNORED.to_string());
                    detail.get_or_insert(msg);
                    continue;
                }
                return Outcome::Fail(msg);
            }
            let cli = crate::cli::run_cli(&["fixtures", "list", &scan_root], 4);
            let cli_rel: String = cli.stdout.lines().skip(1).collect::<Vec<_>>().join("\n");
            if &cli_rel != base_cli {
                return Outcome::Fail(format!("workspace placed under `{}/`: `fixtures list` output differs from the plain placement:\n{}\n--- vs ---\n{}", prefix, cli_rel, base_cli));
            }
        }
    }
    if known.is_empty() {
        Outcome::Ok
    } else {
        info.fail_detail = detail;
        Outcome::Known(known.into_iter().collect())
    }
}

pub fn run(ctx: &Ctx) {
    ctx.run_prop_shrink("trees", ctx.tier.pick(1_500, 60_000), 16, 400, tree, |t, info| check_tree(t, info));
}

pub fn judge(_ctx: &Ctx, sub: &str, case: &Value) -> Option<Outcome> {
    let mut info = CaseInfo::default();
    match sub {
        "trees" => {
            let t: Tree = from_case(case)?;
            Some(check_tree(&t, &mut info))
        }
        _ => None,
    }
}

#[allow(unused)]
fn _k() {
    let _ = KF_SITE_PACKAGES_PREFIX;
}
