//! C20 — CLI reports agree with the language server and are reproducible.
//! Oracle: stdout / exit status of the real binary vs reference sets computed with the library on an
//! in-process scan of the same tree; text == JSON; filters partition; reruns byte-identical.

use crate::cli::run_cli;
use crate::fsws::DiskWs;
use crate::gen::{workspace, GenCfg};
use crate::model::Model;
use crate::props::lsp_tiers::parse_cli_list;
use crate::runner::*;
use crate::spec::*;
use proptest::prelude::*;
use pytest_language_server::FixtureDatabase;
use serde_json::Value;
use std::collections::{BTreeMap, BTreeSet};
use std::path::Path;

pub const RULE: &str = "proptest-generated workspaces (shadowing, overrides with self-named parameters, conftest-imported, autouse, workspace-plugin and third-party fixtures through a synthetic venv, occasionally two same-named definitions in one file) materialised on disk; 9 invocations of the real binary per tree (`fixtures unused` text/json, `fixtures list` plain/--skip-unused/--only-unused, reruns with RAYON_NUM_THREADS 1/4/16) judged against find_references_for_definition on an in-process scan. Non-trivial = the tree has >=1 unused, >=1 autouse and >=1 shadowed fixture; distinct = distinct workspace specs.";
pub const ASSUMPTIONS: &[&str] = &[
    "NO_COLOR=1 output format as printed by main.rs / cli.rs",
    "fixtures whose reference sets depend on registration order (recorded C08 findings) are not compared across processes",
];

pub const KF_DUP: &str = "KF-C20-same-file-duplicates-share-a-count";
pub const KF_ORDER: &str = "KF-C20-output-depends-on-registration-order";

pub fn cfg() -> GenCfg {
    GenCfg { names: 4, max_depth: 3, max_items: 4, allow_dups_in_file: true, ..GenCfg::default() }
}

#[derive(Clone, Debug, serde::Serialize, serde::Deserialize)]
pub struct Case {
    pub ws: WorkspaceSpec,
    /// workspace plugin n (bit n mod 3) is an editable install whose sources live OUTSIDE the workspace
    #[serde(default)]
    pub outside_mask: u8,
    /// the CLI is pointed at the sub-folder `a/` of the tree; helper modules above it stay reachable
    /// through imports (only the `fixtures unused` reports are judged then)
    #[serde(default)]
    pub at_sub: bool,
}

fn runs_at_sub(c: &Case) -> bool {
    c.at_sub && c.ws.files.iter().any(|f| f.loc.dir == 1 && (f.loc.is_conftest() || f.loc.is_test()))
}

fn effective_ws(c: &Case) -> WorkspaceSpec {
    let mut ws = c.ws.clone();
    if runs_at_sub(c) {
        ws.files.retain(|f| match f.loc.kind {
            FileKind::Plugin(_) | FileKind::ThirdParty(_) => false,
            FileKind::Helper(_) => f.loc.dir != 4,
            _ => f.loc.dir != 0 && f.loc.dir != 4,
        });
        return ws;
    }
    for f in ws.files.iter_mut() {
        if let FileKind::Plugin(n) = f.loc.kind {
            if (c.outside_mask >> (n % 3)) & 1 == 1 {
                f.loc.kind = FileKind::ThirdParty(10 + n);
            }
        }
    }
    ws
}

fn parse_unused_text(out: &str) -> Option<Vec<(String, String)>> {
    if out.contains("No unused fixtures found.") {
        return Some(vec![]);
    }
    let mut v = vec![];
    for l in out.lines() {
        let t = l.trim();
        if let Some(rest) = t.strip_prefix("• ") {
            let (name, file) = rest.split_once(" in ")?;
            v.push((file.trim().to_string(), name.trim().to_string()));
        }
    }
    Some(v)
}

pub fn check_case(c: &Case, info: &mut CaseInfo) -> Outcome {
    let ws = &effective_ws(c);
    let m = Model::new(ws);
    let disk = match DiskWs::create(ws, "", None) {
        Ok(d) => d,
        Err(e) => return Outcome::Fail(format!("cannot materialise: {}", e)),
    };
    let db = FixtureDatabase::new();
    let at_sub = runs_at_sub(c);
    let cli_root = if at_sub { format!("{}/a", disk.root) } else { disk.root.clone() };
    if at_sub {
        info.classes.push("CLI pointed at a sub-folder".into());
    }
    db.scan_workspace(Path::new(&cli_root));
    // the CLI shows the files of an editable install that lives outside the workspace under a virtual
    // site-packages path of the workspace's virtualenv
    let outside = format!("{}/outside/", disk.base);
    let rel = |p: &Path| -> String {
        let s = p.to_string_lossy().to_string();
        if let Some(r) = s.strip_prefix(&outside) {
            return format!(".venv/lib/python3.11/site-packages/{}", r);
        }
        s.strip_prefix(&format!("{}/", cli_root)).unwrap_or(&s).to_string()
    };
    let sens = crate::props::c08::order_sensitive_names(&m);
    let any_sens = !sens.is_empty();
    let defs = crate::snapshot::all_defs(&db);
    // files that define some name twice (recorded finding: counts are keyed by (file, name))
    let mut per_file_name: BTreeMap<(String, String), usize> = BTreeMap::new();
    for d in &defs {
        *per_file_name.entry((rel(&d.file_path), d.name.clone())).or_insert(0) += 1;
    }
    let dup = |f: &str, n: &str| per_file_name.get(&(f.to_string(), n.to_string())).copied().unwrap_or(0) >= 2;
    let mut exp_unused: BTreeSet<(String, String)> = BTreeSet::new();
    let mut exp_counts: BTreeMap<(String, String), usize> = BTreeMap::new();
    let (mut has_unused, mut has_autouse, mut has_shadow) = (false, false, false);
    for d in &defs {
        let n = db.find_references_for_definition(d).len();
        exp_counts.insert((rel(&d.file_path), d.name.clone()), n);
        if d.autouse {
            has_autouse = true;
        }
        if m.count_defs(&d.name) >= 2 {
            has_shadow = true;
        }
        if !d.is_third_party && !d.autouse && n == 0 {
            has_unused = true;
            exp_unused.insert((rel(&d.file_path), d.name.clone()));
        }
    }
    if has_unused && has_autouse && has_shadow {
        info.nontrivial = true;
    }
    let mut known: BTreeSet<String> = BTreeSet::new();
    let mut detail = None;
    let root = cli_root.as_str();
    // ---- fixtures unused (text)
    let ut = run_cli(&["fixtures", "unused", root], 1);
    let uj = run_cli(&["fixtures", "unused", root, "--format", "json"], 4);
    info.checks += 2;
    for (what, o) in [("unused", &ut), ("unused --format json", &uj)] {
        if !matches!(o.code, Some(0) | Some(1)) {
            return Outcome::Fail(format!("`fixtures {}` ended with status {:?}: {}", what, o.code, o.stderr.chars().take(500).collect::<String>()));
        }
    }
    let Some(text_entries) = parse_unused_text(&ut.stdout) else { return Outcome::Fail(format!("cannot parse `fixtures unused` output:\n{}", ut.stdout)) };
    let json_entries: Vec<(String, String)> = match serde_json::from_str::<Value>(&uj.stdout) {
        Ok(Value::Array(a)) => a.iter().map(|e| (e["file"].as_str().unwrap_or("?").to_string(), e["fixture"].as_str().unwrap_or("?").to_string())).collect(),
        _ => return Outcome::Fail(format!("`fixtures unused --format json` does not print a JSON array:\n{}", uj.stdout)),
    };
    // exit status <=> non-empty
    if (ut.code == Some(1)) != !text_entries.is_empty() {
        return Outcome::Fail(format!("`fixtures unused` exits with {:?} but lists {} fixture(s)", ut.code, text_entries.len()));
    }
    if (uj.code == Some(1)) != !json_entries.is_empty() {
        return Outcome::Fail(format!("`fixtures unused --format json` exits with {:?} but lists {} fixture(s)", uj.code, json_entries.len()));
    }
    // membership (names whose references depend on registration order are compared within one process only)
    let filt = |v: &Vec<(String, String)>| -> Vec<(String, String)> { v.iter().filter(|(_, n)| !sens.contains(n)).cloned().collect() };
    let got_set: BTreeSet<(String, String)> = filt(&text_entries).into_iter().collect();
    let exp_set: BTreeSet<(String, String)> = exp_unused.iter().filter(|(_, n)| !sens.contains(n)).cloned().collect();
    for e in got_set.symmetric_difference(&exp_set) {
        let msg = format!("`fixtures unused` {} `{}` in {}, but the reference set of that definition is {}", if got_set.contains(e) { "lists" } else { "does not list" }, e.1, e.0, if exp_set.contains(e) { "empty" } else { "not empty (or it is autouse / third-party)" });
        if dup(&e.0, &e.1) {
            info.known_trigger = true;
            known.insert(KF_DUP.to_string());
            detail.get_or_insert(msg);
        } else {
            return Outcome::Fail(format!("{}\n{}", msg, ut.stdout));
        }
    }
    // no duplicates, unless the file defines the name twice
    let mut seen = BTreeSet::new();
    for e in &text_entries {
        if !seen.insert(e.clone()) {
            if dup(&e.0, &e.1) {
                known.insert(KF_DUP.to_string());
                detail.get_or_insert(format!("`fixtures unused` lists `{}` in {} twice", e.1, e.0));
            } else {
                return Outcome::Fail(format!("`fixtures unused` lists `{}` in {} twice", e.1, e.0));
            }
        }
    }
    // text vs json: same entries, same order (they come from two processes: order-sensitive names excluded)
    if filt(&text_entries) != filt(&json_entries) {
        return Outcome::Fail(format!("text and JSON outputs of `fixtures unused` list different entries: text {:?} json {:?}", filt(&text_entries), filt(&json_entries)));
    }
    if at_sub {
        // the tree layout `fixtures list` prints for files above the scanned folder is not judged
        return if known.is_empty() {
            Outcome::Ok
        } else {
            info.fail_detail = detail;
            Outcome::Known(known.into_iter().collect())
        };
    }
    // ---- fixtures list: counts and partition
    let l_all = run_cli(&["fixtures", "list", root], 16);
    let l_skip = run_cli(&["fixtures", "list", root, "--skip-unused"], 4);
    let l_only = run_cli(&["fixtures", "list", root, "--only-unused"], 1);
    info.checks += 3;
    for (what, o) in [("list", &l_all), ("list --skip-unused", &l_skip), ("list --only-unused", &l_only)] {
        if o.code != Some(0) {
            return Outcome::Fail(format!("`fixtures {}` ended with status {:?}: {}", what, o.code, o.stderr.chars().take(500).collect::<String>()));
        }
    }
    let c_all = parse_cli_list(&l_all.stdout);
    let c_skip = parse_cli_list(&l_skip.stdout);
    let c_only = parse_cli_list(&l_only.stdout);
    for (k, n) in &exp_counts {
        if sens.contains(&k.1) {
            info.unjudged += 1;
            continue;
        }
        info.checks += 1;
        match c_all.get(k) {
            Some(c) if c == n => {}
            other => {
                let msg = format!("`fixtures list` prints {:?} usage(s) for `{}` in {}, the server's reference set has {}", other, k.1, k.0, n);
                if dup(&k.0, &k.1) {
                    info.known_trigger = true;
                    known.insert(KF_DUP.to_string());
                    detail.get_or_insert(msg);
                } else {
                    return Outcome::Fail(format!("{}\n{}", msg, l_all.stdout));
                }
            }
        }
    }
    let ks = |m: &BTreeMap<(String, String), usize>| -> BTreeSet<(String, String)> { m.keys().filter(|(_, n)| !sens.contains(n)).cloned().collect() };
    let (a, s, o) = (ks(&c_all), ks(&c_skip), ks(&c_only));
    if !s.is_disjoint(&o) || s.union(&o).cloned().collect::<BTreeSet<_>>() != a {
        return Outcome::Fail(format!("--skip-unused and --only-unused do not partition the plain listing: all={:?} skip={:?} only={:?}", a, s, o));
    }
    // ---- reproducibility: byte-identical reruns with other worker counts
    for (args, first) in [(vec!["fixtures", "unused", root], &ut), (vec!["fixtures", "list", root], &l_all)] {
        for t in [1usize, 4, 16] {
            let again = run_cli(&args, t);
            info.checks += 1;
            if again.stdout != first.stdout || again.code != first.code {
                let msg = format!("`{}` printed different output on a rerun with {} worker thread(s)", args[..2].join(" "), t);
                if any_sens {
                    info.known_trigger = true;
                    known.insert(KF_ORDER.to_string());
                    detail.get_or_insert(msg);
                } else {
                    return Outcome::Fail(format!("{}:\n{}\n--- vs ---\n{}", msg, first.stdout, again.stdout));
                }
            }
        }
    }
    if known.is_empty() {
        Outcome::Ok
    } else {
        info.fail_detail = detail;
        Outcome::Known(known.into_iter().collect())
    }
}

pub fn run(ctx: &Ctx) {
    ctx.run_prop_shrink("cli", ctx.tier.pick(500, 15_000), 8, 200, || (workspace(cfg()), prop_oneof![2 => Just(0u8), 1 => 1u8..8], prop_oneof![4 => Just(false), 1 => Just(true)]).prop_map(|(ws, outside_mask, at_sub)| Case { ws, outside_mask, at_sub }), |c, info| check_case(c, info));
}

pub fn judge(_ctx: &Ctx, sub: &str, case: &Value) -> Option<Outcome> {
    let mut info = CaseInfo::default();
    match sub {
        "cli" => {
            let c: Case = from_case(case)?;
            Some(check_case(&c, &mut info))
        }
        _ => None,
    }
}
