//! C15 — reported positions identify exactly the right tokens.
//! Differential oracle: every Location / Range the real server returns vs token positions computed
//! independently with CPython's ast / tokenize (oracle/pyoracle.py), in UTF-16 units.

use crate::lsp::*;
use crate::lspdiff::{classify, infra_outcome, Infra};
use crate::pygen::*;
use crate::pyoracle::with_oracle;
use crate::runner::*;
use serde_json::{json, Value};
use std::collections::BTreeSet;

pub const RULE: &str = "the document is opened once, or (4 cases in 7) its final text arrives as a didChange of an earlier version under the same path: a blank line moved to the other side of the module, the same inside a document of more than 4 KiB whose length and first and last 2.5 KiB do not change, or an unrelated earlier text; the oracle only sees the final text. Documents: grammar-generated pytest modules with position-stressing decorations (multi-line / hanging-indent / annotated signatures, positional-only and keyword-only markers, single / double / triple-quoted / prefixed / implicitly concatenated strings in usefixtures and parametrize, indirect=True with several names, tabs, CRLF, a non-ASCII identifier before other tokens, one-line and assignment-style fixtures), opened in the real server; every range of documentSymbol, workspace/symbol, references, definition, implementation, publishDiagnostics, inlayHint, prepareCallHierarchy, incomingCalls, outgoingCalls and codeLens is checked: inside the document, start <= end, selectionRange inside range, name-marking ranges equal a CPython NAME token / string content span in UTF-16 units with the right text, navigation targets on the def / yield line, no duplicates. Non-trivial = the document has a multi-line signature, a non-plain string form or non-ASCII text before a token; distinct = distinct module values.";
pub const ASSUMPTIONS: &[&str] = &[
    "CPython 3.11 tokenize/ast as the position oracle; documents only rustpython rejects are skipped and counted",
    "single-document sessions: cross-file ranges are covered through C01/C04's server tiers",
];

pub const KF_BYTES: &str = "KF-C15-byte-columns-instead-of-utf16";
pub const KF_STRFORM: &str = "KF-C15-string-literal-forms";
pub const KF_INDIRECT_TRUE: &str = "KF-C15-indirect-true-marks-whole-string";
pub const KF_CH_RANGE: &str = "KF-C15-call-hierarchy-range-is-a-point";
pub const KF_SYM_RANGE: &str = "KF-C15-one-line-symbol-range";
pub const KF_PARAM_RANGE: &str = "KF-C15-outgoing-from-range-first-occurrence";

pub fn pycfg() -> PyGenCfg {
    PyGenCfg { string_forms: true, multiline: true, decorations: true, body_uses: true }
}

struct Doc {
    o: Value,
    lens16: Vec<u64>,
    ascii: bool,
}

type R4 = (u64, u64, u64, u64);

fn r4(v: &Value) -> Option<R4> {
    Some((v["start"]["line"].as_u64()?, v["start"]["character"].as_u64()?, v["end"]["line"].as_u64()?, v["end"]["character"].as_u64()?))
}

impl Doc {
    fn inside(&self, r: R4) -> Result<(), String> {
        let n = self.lens16.len() as u64;
        let ok_pos = |l: u64, c: u64| l < n && c <= self.lens16[l as usize];
        if !(ok_pos(r.0, r.1) && ok_pos(r.2, r.3)) {
            // the position just past the last line break is still "in" the document
            let past_end = |l: u64, c: u64| l == n && c == 0;
            if !((ok_pos(r.0, r.1) || past_end(r.0, r.1)) && (ok_pos(r.2, r.3) || past_end(r.2, r.3))) {
                return Err(format!("range {:?} lies outside the document ({} lines)", r, n));
            }
        }
        if (r.0, r.1) > (r.2, r.3) {
            return Err(format!("range {:?} starts after its end", r));
        }
        Ok(())
    }
    /// NAME token exactly at (line0, s16, e16)?
    fn name_tok(&self, line0: u64, s: u64, e: u64) -> Option<String> {
        for t in self.o["name_tokens"].as_array().into_iter().flatten() {
            if t[0].as_u64() == Some(line0 + 1) && t[1].as_u64() == Some(s) && t[2].as_u64() == Some(e) {
                return t[3].as_str().map(|x| x.to_string());
            }
        }
        None
    }
    /// is the range the byte-column rendering of a NAME token with this text?
    fn name_tok_bytes(&self, line0: u64, s: u64, e: u64, text: &str) -> bool {
        self.o["name_tokens"].as_array().into_iter().flatten().any(|t| t[0].as_u64() == Some(line0 + 1) && t[4].as_u64() == Some(s) && t[5].as_u64() == Some(e) && t[3].as_str() == Some(text) && (t[1] != t[4] || t[2] != t[5]))
    }
    fn usages_named(&self, name: &str) -> Vec<&Value> {
        self.o["usages"].as_array().into_iter().flatten().filter(|u| u["name"].as_str() == Some(name)).collect()
    }
}

#[derive(Default)]
struct Acc {
    known: BTreeSet<String>,
    detail: Option<String>,
}

impl Acc {
    fn known(&mut self, k: &str, msg: String) {
        self.known.insert(k.to_string());
        self.detail.get_or_insert(msg);
    }
}

/// Judge a range that must mark exactly the token denoting fixture `name`.
/// `what` describes the feature for messages. Returns Err on an unattributed deviation.
fn judge_name_range(doc: &Doc, acc: &mut Acc, r: R4, name: &str, what: &str) -> Result<(), String> {
    doc.inside(r).map_err(|e| format!("{}: {}", what, e))?;
    if r.0 != r.2 {
        return Err(format!("{}: name range {:?} spans lines", what, r));
    }
    if doc.name_tok(r.0, r.1, r.3).as_deref() == Some(name) {
        return Ok(());
    }
    // string usage?
    for u in doc.usages_named(name) {
        if u["line"].as_u64() != Some(r.0 + 1) || u["form"] == "identifier" {
            continue;
        }
        let form = u["form"].as_str().unwrap_or("");
        let sp = &u["span"];
        let whole = u["whole_string"].as_str();
        if let Some(w) = whole {
            // indirect=True: the name is one of the comma separated names inside the argnames string
            if w.contains(',') {
                acc.known(KF_INDIRECT_TRUE, format!("{}: `{}` comes from indirect=True over \"{}\": range {:?} cannot single out the name", what, name, w, r));
                return Ok(());
            }
        }
        if !sp.is_null() {
            let exact = (sp["start"]["utf16"].as_u64() == Some(r.1)) && (sp["end"]["utf16"].as_u64() == Some(r.3));
            if exact {
                return Ok(());
            }
            let bytes = sp["start"]["byte"].as_u64() == Some(r.1) && sp["end"]["byte"].as_u64() == Some(r.3);
            if bytes && !doc.ascii {
                acc.known(KF_BYTES, format!("{}: `{}` reported at byte columns {:?}, UTF-16 columns are {}..{}", what, name, r, sp["start"]["utf16"], sp["end"]["utf16"]));
                return Ok(());
            }
        }
        if form != "plain" {
            acc.known(KF_STRFORM, format!("{}: `{}` in a {} string literal: reported {:?}, content span {}", what, name, form, r, sp));
            return Ok(());
        }
    }
    if !doc.ascii && doc.name_tok_bytes(r.0, r.1, r.3, name) {
        acc.known(KF_BYTES, format!("{}: `{}` reported at byte columns {:?}", what, name, r));
        return Ok(());
    }
    Err(format!("{}: range {:?} does not cover exactly the token `{}` (token there: {:?})", what, r, name, doc.name_tok(r.0, r.1, r.3)))
}

/// final text of the document and, for `prior != 0`, the earlier version the server saw first under the same path
pub fn versions(m: &PModule) -> (String, Option<String>) {
    let body = render_module(m);
    let nl = if m.deco_bits & 1 != 0 { "\r\n" } else { "\n" };
    let pad = |tag: &str| -> String { (0..40).map(|i| format!("# {} {:02} {}{}", tag, i, "-".repeat(52), nl)).collect() };
    match m.prior % 4 {
        0 => (body, None),
        1 => (format!("{}{}", nl, body), Some(format!("{}{}", body, nl))),
        2 => (format!("{}{}{}{}", pad("head"), nl, body, pad("tail")), Some(format!("{}{}{}{}", pad("head"), body, nl, pad("tail")))),
        _ => {
            let fin = format!("{}{}{}", pad("head"), body, pad("tail"));
            let other: String = format!("{}import pytest{}{}@pytest.fixture{}def zulu_{}():{}    return 1{}", pad("head"), nl, nl, nl, m.items.len(), nl, nl);
            (fin, Some(other))
        }
    }
}

pub fn check_doc(ctx: &Ctx, m: &PModule, info: &mut CaseInfo, disagreements: &std::sync::atomic::AtomicU64) -> Outcome {
    let (src, prev) = versions(m);
    let Some(o) = with_oracle(|p| p.extract(&src)) else { return Outcome::Fail("python oracle unavailable".into()) };
    if !o["ok"].as_bool().unwrap_or(false) {
        return Outcome::Fail(format!("generated module is rejected by CPython: {}\n{}", o["error"], src));
    }
    let lens16: Vec<u64> = o["line_lens16"].as_array().into_iter().flatten().map(|x| x.as_u64().unwrap_or(0)).collect();
    let doc = Doc { o, lens16, ascii: src.is_ascii() };
    let path = "/dev/shm/verif-c15-absent/test_doc.py";
    let uri = uri_of(path);
    let mut srv = match LspSession::start(None, &[]) {
        Ok(s) => s,
        Err(e) => return infra_outcome(classify(e, "initialize"), &ctx.inconclusive),
    };
    macro_rules! rq {
        ($m:expr, $p:expr) => {
            match srv.request($m, $p) {
                Ok(v) => v,
                Err(e) => {
                    return match classify(e, $m) {
                        Infra::Crash(msg) => Outcome::Fail(format!("{}\n--- source ---\n{}", msg, src)),
                        i => infra_outcome(i, &ctx.inconclusive),
                    }
                }
            }
        };
    }
    if let Some(prev) = &prev {
        // the final text arrives as a change of an earlier version: positions must be those of the final text
        info.classes.push(format!("earlier-version-kind-{}", m.prior % 4));
        if let Err(e) = srv.open(path, prev) {
            return match classify(e, "didOpen (earlier version)") {
                Infra::Crash(msg) => Outcome::Fail(format!("{}\n--- earlier version ---\n{}", msg, prev)),
                i => infra_outcome(i, &ctx.inconclusive),
            };
        }
    }
    let sent = if prev.is_some() { srv.change(path, 2, &src) } else { srv.open(path, &src) };
    let diags = match sent {
        Ok(d) => d,
        Err(e) => {
            return match classify(e, "didOpen") {
                Infra::Crash(msg) => Outcome::Fail(format!("{}\n--- source ---\n{}", msg, src)),
                i => infra_outcome(i, &ctx.inconclusive),
            }
        }
    };
    let syms = rq!("textDocument/documentSymbol", json!({"textDocument": {"uri": uri}}));
    let mut odefs: Vec<Value> = doc.o["defs"].as_array().cloned().unwrap_or_default();
    for d in odefs.iter_mut() {
        // assignment style: name= gives the fixture its name, the assignment target is the token
        if d["style"] == "assignment" {
            if let Some(n) = d["name_kw"].as_str().map(|x| x.to_string()) {
                d["name"] = json!(n);
            }
        }
    }
    if !odefs.is_empty() && syms.is_null() {
        // rustpython rejected a document CPython accepts: nothing was indexed
        disagreements.fetch_add(1, std::sync::atomic::Ordering::SeqCst);
        info.unjudged += 1;
        srv.shutdown();
        return Outcome::Ok;
    }
    let fail = |m: String| Outcome::Fail(format!("{}\n--- source ---\n{}", m, src));
    let mut acc = Acc::default();
    let nontrivial_doc = !doc.ascii
        || doc.o["usages"].as_array().into_iter().flatten().any(|u| u["form"] != "identifier" && u["form"] != "plain")
        || doc.o["funcs"].as_array().into_iter().flatten().any(|f| f["body_first_line"].as_u64().unwrap_or(0) > f["line"].as_u64().unwrap_or(0) + 1 && f["sig_end_line"].as_u64() > f["line"].as_u64());
    if nontrivial_doc {
        info.nontrivial = true;
    }
    // expected definition of a name for go-to: last definition by line (single file), for judging target lines
    let def_lines_of = |name: &str| -> Vec<u64> { odefs.iter().filter(|d| d["name"].as_str() == Some(name)).map(|d| d["line"].as_u64().unwrap_or(0)).collect() };
    let yield_or_def_lines_of = |name: &str| -> Vec<u64> { odefs.iter().filter(|d| d["name"].as_str() == Some(name)).map(|d| d["yield_line"].as_u64().unwrap_or(d["line"].as_u64().unwrap_or(0))).collect() };

    // ---- document symbols
    let mut seen: BTreeSet<String> = BTreeSet::new();
    for s in syms.as_array().into_iter().flatten() {
        info.checks += 1;
        let name = s["name"].as_str().unwrap_or("").to_string();
        let (Some(range), Some(sel)) = (r4(&s["range"]), r4(&s["selectionRange"])) else { return fail(format!("documentSymbol `{}` lacks ranges", name)) };
        if !seen.insert(s.to_string()) {
            return fail(format!("documentSymbol lists `{}` twice: {}", name, s));
        }
        if let Err(e) = doc.inside(range) {
            return fail(format!("documentSymbol `{}`: {}", name, e));
        }
        let od = odefs.iter().find(|d| d["name"].as_str() == Some(name.as_str()) && d["line"].as_u64() == Some(sel.0 + 1));
        let Some(od) = od else { return fail(format!("documentSymbol `{}` selection {:?} is not on a line that defines it", name, sel)) };
        // the selection range marks the function name (for name= aliases: the function's name token)
        let tok = od["func_name"].as_str().unwrap_or("");
        if let Err(e) = judge_name_range(&doc, &mut acc, sel, tok, &format!("documentSymbol `{}` selectionRange", name)) {
            return fail(e);
        }
        let contains = (range.0, range.1) <= (sel.0, sel.1) && (sel.2, sel.3) <= (range.2, range.3);
        if !contains {
            if range.0 == range.2 || od["style"] == "assignment" {
                acc.known(KF_SYM_RANGE, format!("documentSymbol `{}`: range {:?} does not contain selectionRange {:?} (one-line definition)", name, range, sel));
            } else {
                return fail(format!("documentSymbol `{}`: range {:?} does not contain selectionRange {:?}", name, range, sel));
            }
        }
        // the full range starts on the def line and ends on the function's last line, or (exclusive
        // end) at column 0 of the line after it
        let end_ok = range.2 + 1 == od["end_line"].as_u64().unwrap_or(0) || (range.2 == od["end_line"].as_u64().unwrap_or(0) && range.3 == 0);
        if od["style"] == "decorator" && (range.0 + 1 != od["line"].as_u64().unwrap_or(0) || !end_ok) {
            return fail(format!("documentSymbol `{}`: range lines {}..{} but the function spans lines {}..{}", name, range.0 + 1, range.2 + 1, od["line"], od["end_line"]));
        }
    }
    // ---- workspace symbols
    let ws = rq!("workspace/symbol", json!({"query": ""}));
    let mut seen: BTreeSet<String> = BTreeSet::new();
    for s in ws.as_array().into_iter().flatten() {
        info.checks += 1;
        let name = s["name"].as_str().unwrap_or("").to_string();
        if !seen.insert(s.to_string()) {
            return fail(format!("workspace/symbol lists `{}` twice", name));
        }
        let Some(r) = r4(&s["location"]["range"]) else { continue };
        let od = odefs.iter().find(|d| d["name"].as_str() == Some(name.as_str()) && d["line"].as_u64() == Some(r.0 + 1));
        let Some(od) = od else { return fail(format!("workspace/symbol `{}` at {:?} is not on a line that defines it", name, r)) };
        if let Err(e) = judge_name_range(&doc, &mut acc, r, od["func_name"].as_str().unwrap_or(""), &format!("workspace/symbol `{}`", name)) {
            return fail(e);
        }
    }
    // ---- diagnostics
    let mut seen: BTreeSet<String> = BTreeSet::new();
    for d in diags.as_array().into_iter().flatten() {
        info.checks += 1;
        let Some(r) = r4(&d["range"]) else { continue };
        if !seen.insert(d.to_string()) {
            return fail(format!("publishDiagnostics contains a duplicate: {}", d));
        }
        let code = d["code"].as_str().unwrap_or("");
        let msg = d["message"].as_str().unwrap_or("");
        let name = msg.split('\'').nth(1).unwrap_or("").to_string();
        if code == "undeclared-fixture" {
            if let Err(e) = judge_name_range(&doc, &mut acc, r, &name, &format!("diagnostic {} `{}`", code, name)) {
                return fail(e);
            }
        } else if let Err(e) = doc.inside(r) {
            return fail(format!("diagnostic {}: {}", code, e));
        }
    }
    // ---- inlay hints
    let hints = rq!("textDocument/inlayHint", json!({"textDocument": {"uri": uri}, "range": {"start": {"line": 0, "character": 0}, "end": {"line": doc.lens16.len(), "character": 0}}}));
    let mut seen: BTreeSet<String> = BTreeSet::new();
    for h in hints.as_array().into_iter().flatten() {
        info.checks += 1;
        if !seen.insert(h.to_string()) {
            return fail(format!("inlayHint contains a duplicate: {}", h));
        }
        let (l, c) = (h["position"]["line"].as_u64().unwrap_or(u64::MAX), h["position"]["character"].as_u64().unwrap_or(u64::MAX));
        if let Err(e) = doc.inside((l, c, l, c)) {
            return fail(format!("inlayHint: {}", e));
        }
        let tip = h["tooltip"].as_str().unwrap_or("");
        let name = tip.split('\'').nth(1).unwrap_or("").to_string();
        // the anchor is the end of a token denoting `name` on that line
        let ends_token = doc.o["name_tokens"].as_array().into_iter().flatten().any(|t| t[0].as_u64() == Some(l + 1) && t[2].as_u64() == Some(c) && t[3].as_str() == Some(name.as_str()));
        let ends_string = doc.usages_named(&name).iter().any(|u| u["line"].as_u64() == Some(l + 1) && u["span"]["end"]["utf16"].as_u64() == Some(c));
        if !(ends_token || ends_string) {
            let byte_tok = doc.o["name_tokens"].as_array().into_iter().flatten().any(|t| t[0].as_u64() == Some(l + 1) && t[5].as_u64() == Some(c) && t[3].as_str() == Some(name.as_str()));
            let byte_str = doc.usages_named(&name).iter().any(|u| u["line"].as_u64() == Some(l + 1) && u["span"]["end"]["byte"].as_u64() == Some(c));
            let nonplain = doc.usages_named(&name).iter().any(|u| u["line"].as_u64() == Some(l + 1) && u["form"] != "identifier" && u["form"] != "plain");
            let indirect_whole = doc.usages_named(&name).iter().any(|u| u["line"].as_u64() == Some(l + 1) && u["whole_string"].as_str().map(|w| w.contains(',')).unwrap_or(false));
            if indirect_whole {
                acc.known(KF_INDIRECT_TRUE, format!("inlayHint for `{}` at {}:{} anchored at the end of the whole argnames string", name, l, c));
            } else if !doc.ascii && (byte_tok || byte_str) {
                acc.known(KF_BYTES, format!("inlayHint for `{}` anchored at byte column {}:{}", name, l, c));
            } else if nonplain {
                acc.known(KF_STRFORM, format!("inlayHint for `{}` at {}:{} on a non-plain string literal", name, l, c));
            } else {
                return fail(format!("inlayHint for `{}` at {}:{} is not at the end of a token denoting it", name, l, c));
            }
        }
    }
    // ---- code lenses
    let lens = rq!("textDocument/codeLens", json!({"textDocument": {"uri": uri}}));
    let mut seen: BTreeSet<String> = BTreeSet::new();
    for l in lens.as_array().into_iter().flatten() {
        info.checks += 1;
        if !seen.insert(l.to_string()) {
            return fail(format!("codeLens contains a duplicate: {}", l));
        }
        let Some(r) = r4(&l["range"]) else { continue };
        if let Err(e) = doc.inside(r) {
            return fail(format!("codeLens: {}", e));
        }
        if !odefs.iter().any(|d| d["line"].as_u64() == Some(r.0 + 1)) {
            return fail(format!("codeLens at line {} is not on a fixture definition line", r.0 + 1));
        }
    }
    // ---- per usage: definition / implementation / prepareCallHierarchy
    let usages: Vec<Value> = doc.o["usages"].as_array().cloned().unwrap_or_default();
    for u in usages.iter().filter(|u| !u["span"].is_null() && u["has_default"].as_bool() != Some(true)) {
        let name = u["name"].as_str().unwrap_or("").to_string();
        if name == "request" {
            continue;
        }
        let l0 = u["line"].as_u64().unwrap_or(1) - 1;
        let c = u["span"]["start"]["utf16"].as_u64().unwrap_or(0);
        let pp = json!({"textDocument": {"uri": uri}, "position": {"line": l0, "character": c}});
        info.checks += 1;
        let d = rq!("textDocument/definition", pp.clone());
        if let Some((f, l, ch)) = crate::lspdiff::first_location(&d) {
            if f != path || ch != 0 || !def_lines_of(&name).contains(&(l + 1)) {
                return fail(format!("definition from `{}` at {}:{} -> {}:{}:{} which is not the start of a line defining it (definition lines: {:?})", name, l0, c, f, l, ch, def_lines_of(&name)));
            }
            let imp = rq!("textDocument/implementation", pp.clone());
            if let Some((f2, l2, ch2)) = crate::lspdiff::first_location(&imp) {
                if f2 != path || ch2 != 0 || !yield_or_def_lines_of(&name).contains(&(l2 + 1)) {
                    return fail(format!("implementation from `{}` at {}:{} -> line {} col {}, expected a yield (or def) line of it: {:?}", name, l0, c, l2 + 1, ch2, yield_or_def_lines_of(&name)));
                }
            }
        }
        let prep = rq!("textDocument/prepareCallHierarchy", pp.clone());
        if let Some(item) = prep.get(0) {
            let (Some(range), Some(sel)) = (r4(&item["range"]), r4(&item["selectionRange"])) else { return fail("call hierarchy item lacks ranges".into()) };
            let target = item["name"].as_str().unwrap_or("").to_string();
            let od = odefs.iter().find(|d| d["name"].as_str() == Some(target.as_str()) && d["line"].as_u64() == Some(sel.0 + 1));
            let Some(od) = od else { return fail(format!("prepareCallHierarchy from `{}`: item `{}` selection {:?} is not on a definition line", name, target, sel)) };
            if let Err(e) = judge_name_range(&doc, &mut acc, sel, od["func_name"].as_str().unwrap_or(""), &format!("prepareCallHierarchy `{}` selectionRange", target)) {
                return fail(e);
            }
            if let Err(e) = doc.inside(range) {
                return fail(format!("prepareCallHierarchy `{}`: {}", target, e));
            }
            let contains = (range.0, range.1) <= (sel.0, sel.1) && (sel.2, sel.3) <= (range.2, range.3);
            if !contains {
                if range.0 == range.2 && range.1 == range.3 {
                    acc.known(KF_CH_RANGE, format!("prepareCallHierarchy `{}`: range {:?} is a point and does not contain selectionRange {:?}", target, range, sel));
                } else {
                    return fail(format!("prepareCallHierarchy `{}`: range {:?} does not contain selectionRange {:?}", target, range, sel));
                }
            }
        }
    }
    // ---- per definition: references, incoming / outgoing calls
    for od in odefs.iter().filter(|d| d["style"] == "decorator" && d["func_name"] == d["name"] && !d["name_span"].is_null()) {
        let name = od["name"].as_str().unwrap_or("").to_string();
        // the handlers identify a fixture by (name, file): skip names defined twice in this document
        if def_lines_of(&name).len() > 1 {
            continue;
        }
        let l0 = od["line"].as_u64().unwrap_or(1) - 1;
        let c = od["name_span"]["start"]["utf16"].as_u64().unwrap_or(0);
        info.checks += 1;
        let refs = rq!("textDocument/references", json!({"textDocument": {"uri": uri}, "position": {"line": l0, "character": c}, "context": {"includeDeclaration": true}}));
        let mut seen: BTreeSet<String> = BTreeSet::new();
        for (i, loc) in refs.as_array().into_iter().flatten().enumerate() {
            if !seen.insert(loc.to_string()) {
                return fail(format!("references of `{}` contain a duplicate: {}", name, loc));
            }
            let Some(r) = r4(&loc["range"]) else { continue };
            if i == 0 && r.1 == 0 && r.3 == 0 && r.0 == l0 {
                continue; // the declaration: start of the def line
            }
            if let Err(e) = judge_name_range(&doc, &mut acc, r, &name, &format!("reference #{} of `{}`", i, name)) {
                return fail(e);
            }
        }
        let prep = rq!("textDocument/prepareCallHierarchy", json!({"textDocument": {"uri": uri}, "position": {"line": l0, "character": c}}));
        let Some(item) = prep.get(0).cloned() else {
            if doc.ascii {
                return fail(format!("prepareCallHierarchy on the definition name of `{}` ({}:{}) returns nothing", name, l0, c));
            }
            continue;
        };
        let inc = rq!("callHierarchy/incomingCalls", json!({"item": item}));
        let mut seen: BTreeSet<String> = BTreeSet::new();
        for call in inc.as_array().into_iter().flatten() {
            info.checks += 1;
            if !seen.insert(call.to_string()) {
                return fail(format!("incomingCalls of `{}` contain a duplicate: {}", name, call));
            }
            for fr in call["fromRanges"].as_array().into_iter().flatten() {
                let Some(r) = r4(fr) else { continue };
                if let Err(e) = judge_name_range(&doc, &mut acc, r, &name, &format!("incomingCalls fromRange of `{}`", name)) {
                    return fail(e);
                }
            }
        }
        let out = rq!("callHierarchy/outgoingCalls", json!({"item": item}));
        let mut seen: BTreeSet<String> = BTreeSet::new();
        for call in out.as_array().into_iter().flatten() {
            info.checks += 1;
            if !seen.insert(call.to_string()) {
                return fail(format!("outgoingCalls of `{}` contain a duplicate: {}", name, call));
            }
            let to = &call["to"];
            let tname = to["name"].as_str().unwrap_or("").to_string();
            if let (Some(range), Some(sel)) = (r4(&to["range"]), r4(&to["selectionRange"])) {
                let tod = odefs.iter().find(|d| d["name"].as_str() == Some(tname.as_str()) && d["line"].as_u64() == Some(sel.0 + 1));
                if let Some(tod) = tod {
                    if let Err(e) = judge_name_range(&doc, &mut acc, sel, tod["func_name"].as_str().unwrap_or(""), &format!("outgoingCalls target `{}` selectionRange", tname)) {
                        return fail(e);
                    }
                } else {
                    return fail(format!("outgoingCalls of `{}`: target `{}` selection {:?} is not on a definition line", name, tname, sel));
                }
                let contains = (range.0, range.1) <= (sel.0, sel.1) && (sel.2, sel.3) <= (range.2, range.3);
                if !contains {
                    if range.0 == range.2 && range.1 == range.3 {
                        acc.known(KF_CH_RANGE, format!("outgoingCalls target `{}`: range {:?} is a point and does not contain selectionRange {:?}", tname, range, sel));
                    } else {
                        return fail(format!("outgoingCalls target `{}`: range {:?} does not contain selectionRange {:?}", tname, range, sel));
                    }
                }
            }
            for fr in call["fromRanges"].as_array().into_iter().flatten() {
                let Some(r) = r4(fr) else { continue };
                // must be the parameter token `tname` inside this fixture's signature
                if let Err(e) = judge_name_range(&doc, &mut acc, r, &tname, &format!("outgoingCalls of `{}`: fromRange for dependency `{}`", name, tname)) {
                    return fail(e);
                }
                let in_signature = doc.usages_named(&tname).iter().any(|u| u["owner"].as_str() == od["func_name"].as_str() && u["kind"] == "fixture-param" && u["line"].as_u64() == Some(r.0 + 1));
                if !in_signature {
                    return fail(format!("outgoingCalls of `{}`: fromRange {:?} for dependency `{}` is not a parameter of this fixture", name, r, tname));
                }
            }
        }
    }
    srv.shutdown();
    if acc.known.is_empty() {
        Outcome::Ok
    } else {
        info.known_trigger = true;
        info.fail_detail = acc.detail.map(|d| format!("{}\n--- source ---\n{}", d, src));
        Outcome::Known(acc.known.into_iter().collect())
    }
}

pub fn run(ctx: &Ctx) {
    let dis = std::sync::atomic::AtomicU64::new(0);
    ctx.run_prop_shrink("server", ctx.tier.pick(1_500, 60_000), 8, 300, || module(pycfg()), |m, info| check_doc(ctx, m, info, &dis));
    ctx.set_extra("parser_disagreements", json!(dis.load(std::sync::atomic::Ordering::SeqCst)));
}

pub fn judge(ctx: &Ctx, sub: &str, case: &Value) -> Option<Outcome> {
    let mut info = CaseInfo::default();
    let dis = std::sync::atomic::AtomicU64::new(0);
    match sub {
        "server" => {
            let m: PModule = from_case(case)?;
            Some(check_doc(ctx, &m, &mut info, &dis))
        }
        _ => None,
    }
}
