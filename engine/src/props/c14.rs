//! C14 — imported and plugin fixtures are discovered transitively and classified.
//! Oracle: the reference model (import closure with least fixpoint, plugin / third-party tiers,
//! test-module imports) vs the index built by the real scanner on a materialised tree with a
//! synthetic virtualenv.

use crate::db::{def_id, show_def};
use crate::fsws::DiskWs;
use crate::gen::{workspace, GenCfg};
use crate::model::{DefId, Model, Res};
use crate::props::c01::show_res;
use crate::props::c05::with_probes;
use crate::runner::*;
use crate::spec::*;
use proptest::collection::vec;
use proptest::prelude::*;
use pytest_language_server::FixtureDatabase;
use serde::{Deserialize, Serialize};
use serde_json::Value;
use std::collections::{BTreeMap, BTreeSet};
use std::path::Path;

pub const RULE: &str = "proptest-generated workspaces materialised on disk: import graphs over helper modules (star / explicit / pytest_plugins, relative levels 0-2, up to 3 hops, cycles allowed, several pytest_plugins assignments with last-wins) rooted at conftests AND test modules; a synthetic virtualenv with dist-info / egg-info entry points (module, package and module:attr targets, several groups), pytest's own _pytest package, editable installs inside the workspace (3 .pth naming variants) and outside it. After the real scan_workspace: for every indexed project file and every pool name, go-to at a probe and the available-fixtures entry vs the model; classification flags of every definition vs where its source lives; third-party never in the unused report. Non-trivial = the import graph has a cycle or >=2 hops, or the venv carries >=2 plugin files; distinct = distinct specs.";
pub const ASSUMPTIONS: &[&str] = &[
    "reference model (model.rs); pytest_plugins in a conftest makes the module's fixtures available at that conftest's level (project documentation)",
    "names whose answers depend on registration order (recorded C01/C08 findings) are not judged here",
    "plugin entry modules do not import further modules in this generator (plugin-status propagation is exercised by the repository's own tests only)",
];

pub const KF_TEST_IMPORTS: &str = "KF-C14-test-module-imports-not-available";

#[derive(Clone, Debug, Serialize, Deserialize)]
pub struct Case {
    pub ws: WorkspaceSpec,
    pub tp_layout: Vec<u8>,
    pub plug_layout: Vec<u8>,
    /// turn plugin n into an editable install outside the workspace (third-party)
    pub outside_mask: u8,
    pub with_pytest_internal: bool,
    /// a deliberately deep import graph among the helper modules next to one conftest.py
    #[serde(default)]
    pub web: Option<Web>,
    /// the client opens the sub-folder `a/` of the tree as its workspace: helper modules in the
    /// directory above stay reachable through absolute and `..` imports only
    #[serde(default)]
    pub open_at_sub: bool,
}

/// Import web: nodes 0 = a conftest.py, 1..=4 = helper modules in its directory; `edges` are import
/// statements (from, to, form) added in this order; the fixture `echo` (a name nothing else defines)
/// is defined in helper `def_at`. Whether and through which statements `echo` reaches the conftest is
/// for the model to say.
#[derive(Clone, Debug, Serialize, Deserialize)]
pub struct Web {
    pub dir: u8,
    pub edges: Vec<(u8, u8, u8)>,
    pub def_at: u8,
}

pub const WEB_NAME: usize = 4;

fn apply_web(ws: &mut WorkspaceSpec, w: &Web) {
    let mut dirs: Vec<usize> = ws.files.iter().filter(|f| f.loc.is_conftest()).map(|f| f.loc.dir).collect();
    dirs.sort();
    dirs.dedup();
    let dir = if dirs.is_empty() { 0 } else { dirs[(w.dir as usize * dirs.len()) >> 8] };
    let node_loc = |n: u8| -> FileLoc {
        if n == 0 {
            FileLoc { dir, kind: FileKind::Conftest }
        } else {
            FileLoc { dir, kind: FileKind::Helper(n) }
        }
    };
    for n in 0..=4u8 {
        if ws.find(&node_loc(n)).is_none() {
            ws.files.push(FileSpec { loc: node_loc(n), items: vec![] });
        }
    }
    let mut added: BTreeMap<u8, usize> = BTreeMap::new();
    for (from, to, form) in &w.edges {
        let (from, to) = (from % 5, 1 + to % 4);
        if from == to {
            continue;
        }
        let form = match form % 4 {
            0 | 1 => ImportForm::Star,
            2 => ImportForm::Explicit(vec![WEB_NAME]),
            _ => ImportForm::Plugins,
        };
        let level = if form == ImportForm::Plugins { 0 } else { 1 };
        let i = ws.find(&node_loc(from)).unwrap();
        let at = added.entry(from).or_insert(0);
        ws.files[i].items.insert(*at, Item::Import(ImportSpec { form, module: to, level }));
        *at += 1;
    }
    let i = ws.find(&node_loc(1 + w.def_at % 4)).unwrap();
    ws.files[i].items.push(Item::Fixture(FixtureSpec { name: WEB_NAME, alias_fn: None, deps: vec![], scope: 0, autouse: false, body: 0, deco: 0, tag: 0, usefixtures: vec![], body_uses: vec![] }));
    crate::gen::normalise(&cfg(), ws);
}

pub fn cfg() -> GenCfg {
    GenCfg { names: 4, max_depth: 3, max_items: 5, allow_import_cycles: true, allow_test_imports: true, multi_plugin_assignments: true, allow_dups_in_file: false, ..GenCfg::default() }
}

pub fn case() -> impl Strategy<Value = Case> {
    let web = (any::<u8>(), vec((0u8..5, 0u8..4, 0u8..4), 2..=7), 0u8..4).prop_map(|(dir, edges, def_at)| Web { dir, edges, def_at });
    (workspace(cfg()), vec(0u8..5, 4), vec(0u8..3, 4), 0u8..8, prop_oneof![2 => Just(false), 1 => Just(true)], prop_oneof![1 => Just(None), 1 => web.prop_map(Some)], prop_oneof![3 => Just(false), 1 => Just(true)])
        .prop_map(|(ws, tp_layout, plug_layout, outside_mask, with_pytest_internal, web, open_at_sub)| Case { ws, tp_layout, plug_layout, outside_mask, with_pytest_internal, web, open_at_sub })
}

/// the workspace the model and the disk see: some plugins moved outside, _pytest added
pub fn opens_sub(c: &Case) -> bool {
    c.open_at_sub && c.ws.files.iter().any(|f| f.loc.dir == 1 && (f.loc.is_conftest() || f.loc.is_test()))
}

pub fn effective_ws(c: &Case) -> WorkspaceSpec {
    if opens_sub(c) {
        // what lies outside `a/`: only helper modules of the top directory survive (no conftest, no
        // tests, no sibling directory `x`, no virtualenv: all of that belongs to another workspace)
        let mut base = c.ws.clone();
        base.files.retain(|f| match f.loc.kind {
            FileKind::Plugin(_) | FileKind::ThirdParty(_) => false,
            FileKind::Helper(_) => f.loc.dir != 4,
            // the repository-level conftest.py stays: it is outside the opened folder, the scan does
            // not see it, but the user opens it in the editor (see check_case)
            FileKind::Conftest => f.loc.dir != 4,
            _ => f.loc.dir != 0 && f.loc.dir != 4,
        });
        // opening a document does not follow its imports (only the scan does): keep the outer
        // conftest self-contained
        for f in base.files.iter_mut() {
            if f.loc.dir == 0 && f.loc.is_conftest() {
                f.items.retain(|i| !matches!(i, Item::Import(_)));
            }
        }
        return with_probes(&base, cfg().names);
    }
    let mut base = c.ws.clone();
    if let Some(w) = &c.web {
        apply_web(&mut base, w);
    }
    let mut ws = with_probes(&base, if c.web.is_some() { WEB_NAME + 1 } else { cfg().names });
    for f in ws.files.iter_mut() {
        if let FileKind::Plugin(n) = f.loc.kind {
            if (c.outside_mask >> (n % 3)) & 1 == 1 {
                f.loc.kind = FileKind::ThirdParty(10 + n);
            }
        }
    }
    if c.with_pytest_internal {
        ws.files.push(FileSpec {
            loc: FileLoc { dir: 0, kind: FileKind::ThirdParty(20) },
            items: vec![Item::Fixture(FixtureSpec { name: 3, alias_fn: None, deps: vec![], scope: 4, autouse: false, body: 0, deco: 0, tag: 9000, usefixtures: vec![], body_uses: vec![] })],
        });
    }
    ws
}

pub fn check_case(c: &Case, info: &mut CaseInfo) -> Outcome {
    let ws = effective_ws(c);
    let m = Model::new(&ws);
    let disk = match DiskWs::create_layout(&ws, "", None, &c.tp_layout, &c.plug_layout) {
        Ok(d) => d,
        Err(e) => return Outcome::Fail(format!("cannot materialise: {}", e)),
    };
    let db = FixtureDatabase::new();
    if opens_sub(c) {
        info.classes.push("workspace opened at a sub-folder".into());
        db.scan_workspace(Path::new(&format!("{}/a", disk.root)));
        if let Some(i) = ws.find(&FileLoc { dir: 0, kind: FileKind::Conftest }) {
            info.classes.push("conftest.py above the workspace folder opened in the editor".into());
            db.analyze_file(std::path::PathBuf::from(disk.path(&ws.files[i].loc)), &m.rendered[i].text);
        }
    } else {
        db.scan_workspace(Path::new(&disk.root));
    }
    // map implementation definitions back to the model by (disk path, line)
    let path_of: Vec<String> = (0..ws.files.len()).map(|i| disk.path(&ws.files[i].loc)).collect();
    let to_id = |d: &pytest_language_server::FixtureDefinition| -> Option<DefId> {
        let p = d.file_path.to_string_lossy().to_string();
        path_of.iter().position(|x| *x == p).map(|f| DefId { file: f, line: d.line })
    };
    let _ = def_id;
    let sens = crate::props::c08::order_sensitive_names(&m);
    let mut known: BTreeSet<String> = BTreeSet::new();
    let mut detail = None;
    // non-triviality
    let hops = |f: usize| -> usize {
        fn depth(m: &Model, f: usize, seen: &mut BTreeSet<usize>) -> usize {
            if !seen.insert(f) {
                return 99; // cycle
            }
            let mut best = 0;
            for (_, t) in &m.import_targets[f] {
                if let Some(t) = t {
                    best = best.max(1 + depth(m, *t, seen));
                }
            }
            seen.remove(&f);
            best
        }
        depth(&m, f, &mut BTreeSet::new())
    };
    if c.web.is_some() {
        info.classes.push(format!("web: echo reaches the conftest = {}", (0..ws.files.len()).any(|f| ws.files[f].loc.is_conftest() && m.imported[f].contains_key(NAMES[WEB_NAME]))));
    }
    if (0..ws.files.len()).any(|f| hops(f) >= 2) || ws.files.iter().filter(|f| f.loc.is_plugin() || f.loc.is_third_party()).count() >= 2 {
        info.nontrivial = true;
    }
    // ---- classification
    for d in crate::snapshot::all_defs(&db) {
        info.checks += 1;
        let Some(id) = to_id(&d) else {
            return Outcome::Fail(format!("the index holds a definition from a file the tree does not contain: {}:{}", d.file_path.display(), d.line));
        };
        let loc = &ws.files[id.file].loc;
        let want_tp = loc.is_third_party();
        if d.is_third_party != want_tp {
            return Outcome::Fail(format!("`{}` from {} is classified third_party={} but its source lives {}", d.name, loc.rel(), d.is_third_party, if want_tp { "in site-packages / outside the workspace" } else { "inside the workspace" }));
        }
        if loc.is_plugin() && !d.is_plugin {
            return Outcome::Fail(format!("`{}` from the workspace plugin module {} is not marked as plugin fixture", d.name, loc.rel()));
        }
        if !(loc.is_plugin() || loc.is_third_party()) && d.is_plugin {
            return Outcome::Fail(format!("`{}` from project file {} is marked as plugin fixture", d.name, loc.rel()));
        }
    }
    for (p, n) in db.get_unused_fixtures() {
        let ps = p.to_string_lossy().to_string();
        if let Some(f) = path_of.iter().position(|x| *x == ps) {
            if ws.files[f].loc.is_third_party() {
                return Outcome::Fail(format!("third-party fixture `{}` from {} is listed as an unused project fixture", n, ws.files[f].loc.rel()));
            }
        }
    }
    // every plugin / third-party file must have been found
    for (fi, f) in ws.files.iter().enumerate() {
        if (f.loc.is_plugin() || f.loc.is_third_party()) && !m.rendered[fi].defs.is_empty() {
            info.checks += 1;
            if !db.file_cache.contains_key(Path::new(&path_of[fi])) {
                return Outcome::Fail(format!("installed plugin module {} ({}) was not discovered (layouts tp={:?} plug={:?})", f.loc.rel(), path_of[fi], c.tp_layout, c.plug_layout));
            }
        }
    }
    // ---- availability and resolution per indexed project file
    for fi in 0..ws.files.len() {
        let loc = &ws.files[fi].loc;
        if loc.is_plugin() || loc.is_third_party() {
            continue;
        }
        let path = &path_of[fi];
        let p = Path::new(path);
        if !db.file_cache.contains_key(p) {
            continue; // a helper nobody imports is not indexed (and invisible by the model)
        }
        let avail: BTreeMap<String, Vec<Option<DefId>>> = {
            let mut mm: BTreeMap<String, Vec<Option<DefId>>> = BTreeMap::new();
            for d in db.get_available_fixtures(p) {
                mm.entry(d.name.clone()).or_default().push(to_id(&d));
            }
            mm
        };
        let probe_line = m.rendered[fi].funcs.iter().find(|f| f.name == "test_t99").map(|f| f.line);
        for u in m.rendered[fi].uses.iter().filter(|u| Some(u.line) == probe_line) {
            info.checks += 1;
            if sens.contains(&u.name) {
                info.unjudged += 1;
                continue;
            }
            // C01's recorded finding: an explicit import of a name its module does not provide makes
            // an unrelated same-named fixture visible; not this check's business
            let impl_imported = crate::props::c01::impl_imported_names_on_path(&m, fi).contains(&u.name);
            let model_imported = {
                let mut found = false;
                let mut d = Some(loc.dir);
                while let Some(dd) = d {
                    if let Some(c) = m.ws.find(&FileLoc { dir: dd, kind: FileKind::Conftest }) {
                        if m.imported[c].contains_key(&u.name) {
                            found = true;
                        }
                    }
                    d = dir_parent(dd);
                }
                found
            };
            if impl_imported && !model_imported {
                info.unjudged += 1;
                continue;
            }
            let exp = m.resolve(fi, &u.name, None);
            if matches!(exp, Res::Unjudged(_)) {
                info.unjudged += 1;
                continue;
            }
            let got = db.find_fixture_definition(p, (u.line - 1) as u32, u.start as u32).and_then(|d| to_id(&d));
            let av = avail.get(&u.name).and_then(|v| v[0]);
            let ok = |g: Option<DefId>| match &exp {
                Res::None => g.is_none(),
                Res::One(d) => g == Some(*d),
                Res::AnyOf(s) => g.map(|x| s.contains(&x)).unwrap_or(false),
                Res::Unjudged(_) => true,
            };
            for (what, g) in [("go-to-definition", got), ("available fixtures", av)] {
                if ok(g) {
                    continue;
                }
                let msg = format!("{}: `{}` seen from {}: model says {}, the scanned index says {}", what, u.name, loc.rel(), show_res(&m, &exp), show_def(&m, g));
                // recorded finding: fixtures a TEST MODULE imports are not made available to it
                let via_own_import = loc.is_test() && m.all_defs_of(fi, &u.name).is_empty() && m.imported[fi].contains_key(&u.name);
                if via_own_import {
                    info.known_trigger = true;
                    known.insert(KF_TEST_IMPORTS.to_string());
                    detail.get_or_insert(msg);
                } else {
                    return Outcome::Fail(msg);
                }
            }
        }
    }
    if known.is_empty() {
        Outcome::Ok
    } else {
        info.fail_detail = detail;
        Outcome::Known(known.into_iter().collect())
    }
}

pub fn run(ctx: &Ctx) {
    ctx.run_prop_shrink("scan", ctx.tier.pick(3_000, 150_000), 16, 400, case, |c, info| check_case(c, info));
}

pub fn judge(_ctx: &Ctx, sub: &str, case: &Value) -> Option<Outcome> {
    let mut info = CaseInfo::default();
    match sub {
        "scan" => {
            let c: Case = from_case(case)?;
            Some(check_case(&c, &mut info))
        }
        _ => None,
    }
}
