//! C11 — no input or request sequence crashes or wedges the server.
//! Oracle: "handled or rejected cleanly": no panic in any public library entry point (catch_unwind),
//! the real server answers every request and stays alive, one malformed file never aborts a scan.

use crate::pygen::*;
use crate::runner::*;
use proptest::collection::vec;
use proptest::prelude::*;
use pytest_language_server::FixtureDatabase;
use serde::{Deserialize, Serialize};
use serde_json::Value;
use std::collections::HashSet;
use std::path::{Path, PathBuf};

pub const RULE: &str = "grammar-generated pytest modules mutated at character level (insertion of multi-byte whitespace U+00A0/U+2003/U+3000, zero-width, combining, astral and CJK characters, BOM, CR / CRLF / LF mixes, tabs; deletions; truncation; emptying) forming histories of 1-4 versions of 1-2 files; after every version every public query of the library is called at recorded positions of EVERY earlier version (stale positions), at u32 extremes and at generated positions. lib: any panic is a violation. server: same histories over stdio against the real binary, every request must be answered and a final probe must succeed. scan: trees with one faulty file (non-UTF-8, dangling symlink, directory named like a test file, hostile metadata) must index all other files exactly as without the fault. Non-trivial = some version contains a non-ASCII character or is unparsable, and at least one query was issued after it; distinct = distinct histories.";
pub const ASSUMPTIONS: &[&str] = &[
    "release profile without overflow checks (the shipped configuration): arithmetic-overflow-only panics are out of sight",
    "nesting depth of generated documents <= 6 (stack exhaustion of the third-party parser is out of domain)",
    "a bare watchdog expiry without panic evidence is reported as inconclusive (exit 2), never as a violation",
];

pub const PALETTE: [&str; 16] = [
    "\u{00e9}", "\u{4e2d}", "\u{1F600}", "\u{00a0}", "\u{2003}", "\u{3000}", "\u{200b}", "\u{0301}", "\u{feff}", "\t", "\r", "\r\n", "\n", " ", "\"", "(",
];

#[derive(Clone, Debug, Serialize, Deserialize, PartialEq)]
pub enum Mut {
    /// insert palette[k] at scaled char position
    Insert(u16, u8),
    /// insert palette[k] at the start of every line's indentation of line l (scaled)
    IndentChar(u16, u8),
    /// delete n chars at scaled position
    Delete(u16, u8),
    Truncate(u16),
    Empty,
    /// replace every "\n" by palette choice 10/11
    LineEnds(u8),
    /// overwrite one line (scaled) with multi-byte characters of width 2,3,4 bytes in turn: positions
    /// recorded for that line in an earlier version now fall inside characters
    Smear(u16, u8),
}

#[derive(Clone, Debug, Serialize, Deserialize)]
pub struct Version {
    pub file: u8,
    pub module: PModule,
    pub muts: Vec<Mut>,
    /// take the module of the previous version of the same file (so that only `muts` differ)
    #[serde(default)]
    pub same_module: bool,
}

#[derive(Clone, Debug, Serialize, Deserialize)]
pub struct Case {
    pub versions: Vec<Version>,
    /// extra query positions (line, char)
    pub positions: Vec<(u32, u32)>,
}

pub fn pycfg() -> PyGenCfg {
    PyGenCfg { string_forms: true, multiline: true, decorations: true, body_uses: true }
}

fn mutation() -> impl Strategy<Value = Mut> {
    prop_oneof![
        6 => (any::<u16>(), 0u8..16).prop_map(|(p, k)| Mut::Insert(p, k)),
        4 => (any::<u16>(), 0u8..9).prop_map(|(p, k)| Mut::IndentChar(p, k)),
        2 => (any::<u16>(), 1u8..12).prop_map(|(p, n)| Mut::Delete(p, n)),
        2 => any::<u16>().prop_map(Mut::Truncate),
        1 => Just(Mut::Empty),
        1 => (10u8..12).prop_map(Mut::LineEnds),
        4 => (any::<u16>(), 0u8..3).prop_map(|(p, k)| Mut::Smear(p, k)),
    ]
}

pub fn case() -> impl Strategy<Value = Case> {
    (
        vec((0u8..2, module(pycfg()), vec(mutation(), 0..=4), any::<bool>()), 1..=4),
        vec((prop_oneof![3 => 0u32..40, 1 => Just(u32::MAX), 1 => Just(u32::MAX - 1)], prop_oneof![3 => 0u32..80, 1 => Just(u32::MAX), 1 => Just(0u32)]), 0..=4),
    )
        .prop_map(|(vs, positions)| Case { versions: vs.into_iter().map(|(file, module, muts, same_module)| Version { file, module, muts, same_module }).collect(), positions })
}

pub fn apply_muts(text: &str, muts: &[Mut]) -> String {
    apply_muts_hot(text, muts, &[])
}

/// `hot`: 0-based lines on which the index recorded positions for the previous version of the file
/// (only a generation heuristic: Smear prefers them so that stale positions really get exercised)
pub fn apply_muts_hot(text: &str, muts: &[Mut], hot: &[usize]) -> String {
    let mut s: Vec<char> = text.chars().collect();
    for m in muts {
        match m {
            Mut::Insert(p, k) => {
                let i = ((*p as usize) * (s.len() + 1)) >> 16;
                let ins: Vec<char> = PALETTE[*k as usize % PALETTE.len()].chars().collect();
                let i = i.min(s.len());
                s.splice(i..i, ins);
            }
            Mut::IndentChar(p, k) => {
                // put the character at the beginning of one line that is indented
                let text: String = s.iter().collect();
                let lines: Vec<&str> = text.split('\n').collect();
                let cand: Vec<usize> = lines.iter().enumerate().filter(|(_, l)| l.starts_with(' ') || l.starts_with('\t')).map(|(i, _)| i).collect();
                if !cand.is_empty() {
                    let li = cand[((*p as usize) * cand.len()) >> 16];
                    let mut out: Vec<String> = lines.iter().map(|l| l.to_string()).collect();
                    out[li] = format!("{}{}", PALETTE[*k as usize % PALETTE.len()], out[li]);
                    s = out.join("\n").chars().collect();
                }
            }
            Mut::Delete(p, n) => {
                if !s.is_empty() {
                    let i = ((*p as usize) * s.len()) >> 16;
                    let e = (i + *n as usize).min(s.len());
                    s.drain(i..e);
                }
            }
            Mut::Truncate(p) => {
                let i = ((*p as usize) * (s.len() + 1)) >> 16;
                s.truncate(i);
            }
            Mut::Smear(p, k) => {
                let text: String = s.iter().collect();
                let lines: Vec<&str> = text.split('\n').collect();
                if !lines.is_empty() {
                    let hot_ok: Vec<usize> = hot.iter().copied().filter(|l| *l < lines.len()).collect();
                    let li = if !hot_ok.is_empty() { hot_ok[((*p as usize) * hot_ok.len()) >> 16] } else { ((*p as usize) * lines.len()) >> 16 };
                    let pal = ['\u{00e9}', '\u{4e2d}', '\u{1F600}'];
                    let mut out: Vec<String> = lines.iter().map(|l| l.to_string()).collect();
                    let n = lines[li].len().max(4);
                    out[li] = (0..n).map(|i| pal[(i + *k as usize) % 3]).collect();
                    s = out.join("\n").chars().collect();
                }
            }
            Mut::Empty => s.clear(),
            Mut::LineEnds(k) => {
                let t: String = s.iter().collect();
                let rep = PALETTE[*k as usize % PALETTE.len()];
                s = t.replace('\n', rep).chars().collect();
            }
        }
    }
    s.into_iter().collect()
}

/// the text of every version (a version may reuse the module of the previous version of its file)
pub fn version_texts(c: &Case) -> Vec<String> {
    let mut last: [Option<PModule>; 2] = [None, None];
    let mut hot: [Vec<usize>; 2] = [vec![], vec![]];
    let mut out = Vec::new();
    for v in &c.versions {
        let f = (v.file % 2) as usize;
        let m = if v.same_module { last[f].clone().unwrap_or_else(|| v.module.clone()) } else { v.module.clone() };
        let text = apply_muts_hot(&render_module(&m), &v.muts, &hot[f]);
        // lines with recorded usages in this version (scratch index; panics here are found by the check proper)
        let scratch = FixtureDatabase::new();
        let pth = PathBuf::from("/vw/c11-scratch/test_doc.py");
        if std::panic::catch_unwind(std::panic::AssertUnwindSafe(|| scratch.analyze_file(pth.clone(), &text))).is_ok() {
            if let Some(us) = scratch.usages.get(&pth) {
                let mut ls: Vec<usize> = us.iter().map(|u| u.line.saturating_sub(1)).collect();
                ls.sort();
                ls.dedup();
                if !ls.is_empty() {
                    hot[f] = ls;
                }
            }
        }
        out.push(text);
        last[f] = Some(m);
    }
    out
}

pub fn file_path(n: u8) -> String {
    if n % 2 == 0 {
        "/vw/c11/test_doc.py".to_string()
    } else {
        "/vw/c11/conftest.py".to_string()
    }
}

fn guard<T>(what: &str, f: impl FnOnce() -> T) -> Result<T, String> {
    std::panic::catch_unwind(std::panic::AssertUnwindSafe(f)).map_err(|e| {
        let m = if let Some(s) = e.downcast_ref::<String>() {
            s.clone()
        } else if let Some(s) = e.downcast_ref::<&str>() {
            s.to_string()
        } else {
            "panic".to_string()
        };
        format!("{} panicked: {}", what, m)
    })
}

/// every public query at one position
pub fn all_queries(db: &FixtureDatabase, p: &Path, line: u32, ch: u32) -> Result<u64, String> {
    let mut n = 0;
    guard(&format!("find_fixture_definition({},{})", line, ch), || db.find_fixture_definition(p, line, ch))?;
    guard(&format!("find_fixture_at_position({},{})", line, ch), || db.find_fixture_at_position(p, line, ch))?;
    guard(&format!("find_fixture_or_definition_at_position({},{})", line, ch), || db.find_fixture_or_definition_at_position(p, line, ch))?;
    guard(&format!("get_completion_context({},{})", line, ch), || db.get_completion_context(p, line, ch))?;
    guard(&format!("is_inside_function({},{})", line, ch), || db.is_inside_function(p, line, ch))?;
    if line < u32::MAX {
        guard(&format!("get_function_param_insertion_info({})", line), || db.get_function_param_insertion_info(p, line as usize + 1))?;
        guard(&format!("find_containing_function({})", line), || db.find_containing_function(p, line as usize + 1))?;
    }
    n += 7;
    Ok(n)
}

pub fn file_level_queries(db: &FixtureDatabase, p: &Path) -> Result<u64, String> {
    guard("get_available_fixtures", || db.get_available_fixtures(p))?;
    guard("get_undeclared_fixtures", || db.get_undeclared_fixtures(p))?;
    guard("detect_fixture_cycles_in_file", || db.detect_fixture_cycles_in_file(p))?;
    guard("detect_scope_mismatches_in_file", || db.detect_scope_mismatches_in_file(p))?;
    guard("get_imported_fixtures", || db.get_imported_fixtures(p, &mut HashSet::new()))?;
    guard("get_unused_fixtures", || db.get_unused_fixtures())?;
    let defs = guard("definitions", || crate::snapshot::all_defs(db))?;
    for d in &defs {
        guard("find_references_for_definition", || db.find_references_for_definition(d))?;
        guard("resolve_fixture_for_file", || db.resolve_fixture_for_file(p, &d.name))?;
        guard("get_definition_at_line", || db.get_definition_at_line(p, d.line, &d.name))?;
    }
    Ok(6 + 3 * defs.len() as u64)
}

pub fn check_lib(c: &Case, info: &mut CaseInfo) -> Outcome {
    let db = FixtureDatabase::new();
    // positions recorded by ANY earlier version stay interesting after later edits
    let mut stale: Vec<(u8, u32, u32)> = Vec::new();
    let mut interesting = false;
    let texts = version_texts(c);
    for (vi, v) in c.versions.iter().enumerate() {
        let text = texts[vi].clone();
        let path = file_path(v.file);
        let p = PathBuf::from(&path);
        if !text.is_ascii() {
            interesting = true;
            info.classes.push("doc=non-ascii".into());
        }
        if let Err(e) = guard("analyze_file", || db.analyze_file(p.clone(), &text)) {
            return Outcome::Fail(format!("version #{} of {}: {}\n--- text ---\n{}", vi, path, e, text));
        }
        let parsed_now = db.file_cache.get(&p).map(|t| t.as_str() == text).unwrap_or(false);
        let _ = parsed_now;
        // record positions of what the index holds for this file now
        if let Some(us) = db.usages.get(&p) {
            for u in us.iter() {
                stale.push((v.file, (u.line.max(1) - 1) as u32, u.start_char as u32));
                stale.push((v.file, (u.line.max(1) - 1) as u32, u.end_char as u32));
            }
        }
        for d in crate::snapshot::all_defs(&db) {
            if d.file_path == p {
                stale.push((v.file, (d.line.max(1) - 1) as u32, d.start_char as u32));
            }
        }
        stale.sort();
        stale.dedup();
        if stale.len() > 60 {
            stale.truncate(60);
        }
        // queries on both files
        for f in 0..2u8 {
            let qp = PathBuf::from(file_path(f));
            let mut pos: Vec<(u32, u32)> = stale.iter().filter(|(ff, _, _)| *ff == f).map(|(_, l, c)| (*l, *c)).collect();
            pos.extend(c.positions.iter().copied());
            pos.push((0, 0));
            for (l, ch) in pos {
                match all_queries(&db, &qp, l, ch) {
                    Ok(n) => info.checks += n,
                    Err(e) => {
                        return Outcome::Fail(format!("after version #{} (file {}): {} on {}\n--- current text of that version ---\n{}", vi, path, e, qp.display(), text));
                    }
                }
            }
            match file_level_queries(&db, &qp) {
                Ok(n) => info.checks += n,
                Err(e) => return Outcome::Fail(format!("after version #{}: {} on {}\n--- text ---\n{}", vi, e, qp.display(), text)),
            }
        }
        if interesting && vi > 0 {
            info.nontrivial = true;
        }
        if interesting {
            info.nontrivial = true;
        }
    }
    if let Err(e) = guard("cleanup_file_cache", || db.cleanup_file_cache(Path::new(&file_path(0)))) {
        return Outcome::Fail(e);
    }
    Outcome::Ok
}

/// Real-world documents (every pytest-style file found offline) as the first version, followed by
/// generated character-level mutations of it; every query at every position the index recorded for
/// any earlier version, at generated positions and at the extremes.
#[derive(Clone, Debug, Serialize, Deserialize)]
pub struct CorpusCase {
    pub file: u16,
    pub muts: Vec<Vec<Mut>>,
    pub positions: Vec<(u32, u32)>,
}

pub fn corpus_case() -> impl Strategy<Value = CorpusCase> {
    (any::<u16>(), vec(vec(mutation(), 1..=3), 1..=3), vec((prop_oneof![3 => 0u32..400, 1 => Just(u32::MAX)], prop_oneof![3 => 0u32..120, 1 => Just(u32::MAX)]), 0..=3)).prop_map(|(file, muts, positions)| CorpusCase { file, muts, positions })
}

pub fn check_corpus(files: &[PathBuf], c: &CorpusCase, info: &mut CaseInfo) -> Outcome {
    if files.is_empty() {
        return Outcome::Ok;
    }
    let f = &files[((c.file as usize) * files.len()) >> 16];
    let Ok(bytes) = std::fs::read(f) else { return Outcome::Ok };
    let mut text = String::from_utf8_lossy(&bytes).to_string();
    // keep cases cheap: very large real-world files are cut at a line boundary
    if text.len() > 60_000 {
        let cut = text[..60_000].rfind('\n').unwrap_or(0);
        text.truncate(cut);
    }
    let db = FixtureDatabase::new();
    let p = PathBuf::from(file_path(1));
    let mut stale: Vec<(u32, u32)> = Vec::new();
    for vi in 0..=c.muts.len() {
        if vi > 0 {
            let hot: Vec<usize> = stale.iter().map(|(l, _)| *l as usize).collect();
            text = apply_muts_hot(&text, &c.muts[vi - 1], &hot);
        }
        if let Err(e) = guard("analyze_file", || db.analyze_file(p.clone(), &text)) {
            return Outcome::Fail(format!("{} (version #{}): {}", f.display(), vi, e));
        }
        if let Some(us) = db.usages.get(&p) {
            for u in us.iter().take(40) {
                stale.push(((u.line.max(1) - 1) as u32, u.start_char as u32));
                stale.push(((u.line.max(1) - 1) as u32, u.end_char as u32));
            }
        }
        for d in crate::snapshot::all_defs(&db).iter().take(20) {
            stale.push(((d.line.max(1) - 1) as u32, d.start_char as u32));
        }
        for u in db.get_undeclared_fixtures(&p).iter().take(10) {
            stale.push(((u.function_line.max(1) - 1) as u32, u.start_char as u32));
        }
        stale.sort();
        stale.dedup();
        if stale.len() > 80 {
            stale.truncate(80);
        }
        let mut pos = stale.clone();
        pos.extend(c.positions.iter().copied());
        pos.push((0, 0));
        for (l, ch) in pos {
            match all_queries(&db, &p, l, ch) {
                Ok(n) => info.checks += n,
                Err(e) => return Outcome::Fail(format!("{} after version #{}: {}", f.display(), vi, e)),
            }
        }
        match file_level_queries(&db, &p) {
            Ok(n) => info.checks += n,
            Err(e) => return Outcome::Fail(format!("{} after version #{}: {}", f.display(), vi, e)),
        }
    }
    info.nontrivial = true;
    info.classes.push("corpus document with mutations".into());
    Outcome::Ok
}

/// Server tier: the same histories through the real binary.
pub fn check_server(ctx: &Ctx, c: &Case, info: &mut CaseInfo) -> Outcome {
    use crate::lsp::*;
    use crate::lspdiff::{classify, infra_outcome};
    use serde_json::json;
    let mut srv = match LspSession::start(None, &[]) {
        Ok(s) => s,
        Err(e) => return infra_outcome(classify(e, "initialize"), &ctx.inconclusive),
    };
    let mut opened = [false, false];
    let mut version = 1i64;
    let mut stale: Vec<(u8, u32, u32)> = Vec::new();
    // an in-process twin only to learn which positions the index records (stale-position source)
    let twin = FixtureDatabase::new();
    let mut interesting = false;
    let texts = version_texts(c);
    for (vi, v) in c.versions.iter().enumerate() {
        let text = texts[vi].clone();
        let path = file_path(v.file).replace("/vw/c11", "/dev/shm/verif-c11-absent");
        if !text.is_ascii() {
            interesting = true;
        }
        let f = (v.file % 2) as usize;
        let diags = if !opened[f] {
            opened[f] = true;
            srv.open(&path, &text)
        } else {
            version += 1;
            srv.change(&path, version, &text)
        };
        let diags = match diags {
            Ok(d) => d,
            Err(e) => {
                return match classify(e, "didOpen/didChange") {
                    crate::lspdiff::Infra::Crash(m) => Outcome::Fail(format!("version #{} of {}: {}\n--- text ---\n{}", vi, path, m, text)),
                    i => infra_outcome(i, &ctx.inconclusive),
                }
            }
        };
        let _ = std::panic::catch_unwind(std::panic::AssertUnwindSafe(|| twin.analyze_file(PathBuf::from(&path), &text)));
        if let Some(us) = twin.usages.get(Path::new(&path)) {
            for u in us.iter() {
                stale.push((v.file % 2, (u.line.max(1) - 1) as u32, u.start_char as u32));
                stale.push((v.file % 2, (u.line.max(1) - 1) as u32, u.end_char as u32));
            }
        }
        stale.sort();
        stale.dedup();
        stale.truncate(24);
        for fidx in 0..2u8 {
            if !opened[fidx as usize] {
                continue;
            }
            let qpath = file_path(fidx).replace("/vw/c11", "/dev/shm/verif-c11-absent");
            let uri = uri_of(&qpath);
            let mut pos: Vec<(u32, u32)> = stale.iter().filter(|(ff, _, _)| *ff == fidx).map(|(_, l, ch)| (*l, *ch)).collect();
            pos.extend(c.positions.iter().copied());
            pos.push((0, 0));
            macro_rules! rq {
                ($m:expr, $p:expr) => {{
                    info.checks += 1;
                    match srv.request($m, $p) {
                        Ok(v) => v,
                        Err(LspErr::Rpc(_)) => Value::Null, // an error response is still a response
                        Err(e) => {
                            return match classify(e, $m) {
                                crate::lspdiff::Infra::Crash(m) => Outcome::Fail(format!("after version #{} of {}: {}\n--- text ---\n{}", vi, path, m, text)),
                                i => infra_outcome(i, &ctx.inconclusive),
                            }
                        }
                    }
                }};
            }
            for (l, ch) in &pos {
                let pp = json!({"textDocument": {"uri": uri}, "position": {"line": l, "character": ch}});
                rq!("textDocument/definition", pp.clone());
                rq!("textDocument/hover", pp.clone());
                rq!("textDocument/implementation", pp.clone());
                rq!("textDocument/completion", pp.clone());
                let mut rp = pp.clone();
                rp["context"] = json!({"includeDeclaration": true});
                rq!("textDocument/references", rp);
                let prep = rq!("textDocument/prepareCallHierarchy", pp.clone());
                if let Some(item) = prep.get(0) {
                    rq!("callHierarchy/incomingCalls", json!({"item": item}));
                    rq!("callHierarchy/outgoingCalls", json!({"item": item}));
                }
            }
            rq!("textDocument/documentSymbol", json!({"textDocument": {"uri": uri}}));
            rq!("textDocument/codeLens", json!({"textDocument": {"uri": uri}}));
            rq!("textDocument/inlayHint", json!({"textDocument": {"uri": uri}, "range": {"start": {"line": 0, "character": 0}, "end": {"line": 100000, "character": 0}}}));
            rq!("textDocument/inlayHint", json!({"textDocument": {"uri": uri}, "range": {"start": {"line": 0, "character": 0}, "end": {"line": u32::MAX, "character": u32::MAX}}}));
            // quick fixes for whatever was published last, plus a synthetic diagnostic at a stale spot
            let mut ds: Vec<Value> = diags.as_array().cloned().unwrap_or_default();
            for (l, ch) in pos.iter().take(3) {
                ds.push(json!({"range": {"start": {"line": l, "character": ch}, "end": {"line": l, "character": ch}}, "code": "undeclared-fixture", "message": "x", "source": "pytest-lsp"}));
            }
            rq!("textDocument/codeAction", json!({"textDocument": {"uri": uri}, "range": {"start": {"line": 0, "character": 0}, "end": {"line": 0, "character": 0}}, "context": {"diagnostics": ds}}));
            rq!("workspace/symbol", json!({"query": ""}));
        }
        if interesting {
            info.nontrivial = true;
        }
    }
    // final probe
    match srv.request("workspace/symbol", serde_json::json!({"query": "zzz"})) {
        Ok(_) | Err(LspErr::Rpc(_)) => {}
        Err(e) => {
            return match classify(e, "final probe") {
                crate::lspdiff::Infra::Crash(m) => Outcome::Fail(m),
                i => infra_outcome(i, &ctx.inconclusive),
            }
        }
    }
    if !srv.alive() {
        return Outcome::Fail(format!("server process is gone after the session: {}", srv.stderr_tail()));
    }
    srv.shutdown();
    Outcome::Ok
}

// ---------------------------------------------------------------------------------------------
// scan-fault tier: one malformed file / metadata entry never aborts the scan for the others
// ---------------------------------------------------------------------------------------------

#[derive(Clone, Debug, Serialize, Deserialize)]
pub struct FaultCase {
    pub ws: crate::spec::WorkspaceSpec,
    pub faults: Vec<(u8, Vec<u8>)>,
}

pub const FAULT_KINDS: [&str; 12] = [
    "non-utf8 test file", "dangling symlink test file", "directory named test_dir.py", "directory named conftest.py",
    "garbage pyproject.toml", "non-utf8 entry_points.txt", "garbage direct_url.json + .pth", "non-ascii dist-info name (editable)",
    "symlink loop directory", "test file with NUL / BOM bytes", "garbage .pth files", "a dozen unparsable test modules / conftests",
];

pub fn inject_fault(root: &str, kind: u8, bytes: &[u8]) -> std::io::Result<()> {
    use std::fs;
    let sp = format!("{}/.venv/lib/python3.11/site-packages", root);
    fs::create_dir_all(&sp)?;
    let junk: Vec<u8> = if bytes.is_empty() { vec![0xff, 0xfe, 0x00, 0xc3, 0x28] } else { bytes.to_vec() };
    match kind % 12 {
        11 => {
            // a dozen syntactically invalid test modules and conftests in directories of their own:
            // whatever order the scan visits files in, some healthy file comes after a broken one
            for i in 0..12 {
                let d = format!("{}/zz_broken_{}", root, i);
                fs::create_dir_all(&d)?;
                let body: &[u8] = if i % 3 == 0 { b"def test_broken(:\n    pass\n" } else if i % 3 == 1 { b"import pytest\n@pytest.fixture\ndef half(\n" } else { b"class :\n    )\n" };
                fs::write(format!("{}/{}", d, if i % 4 == 0 { "conftest.py" } else { "test_broken.py" }), [body, &junk[..junk.len().min(4)]].concat())?;
            }
        }
        0 => fs::write(format!("{}/test_bad_bytes.py", root), [b"import pytest\n@pytest.fixture\ndef bad():\n    return '".as_slice(), &junk, b"\xff\xfe'\n"].concat())?,
        1 => {
            let _ = std::os::unix::fs::symlink(format!("{}/does/not/exist.py", root), format!("{}/test_dangling.py", root));
        }
        2 => {
            fs::create_dir_all(format!("{}/test_dir.py", root))?;
            fs::write(format!("{}/test_dir.py/inner.txt", root), b"x")?;
        }
        3 => {
            fs::create_dir_all(format!("{}/x9/conftest.py", root))?;
        }
        4 => fs::write(format!("{}/pyproject.toml", root), [b"[tool.pytest-language-server]\nexclude = [\"".as_slice(), &junk, b"\n"].concat())?,
        5 => {
            fs::create_dir_all(format!("{}/bad-1.0.dist-info", sp))?;
            fs::write(format!("{}/bad-1.0.dist-info/entry_points.txt", sp), [b"[pytest11]\nbad = ".as_slice(), &junk, b"\n= = =\n[\n"].concat())?;
        }
        6 => {
            fs::create_dir_all(format!("{}/bad2-1.0.dist-info", sp))?;
            fs::write(format!("{}/bad2-1.0.dist-info/direct_url.json", sp), [b"{\"dir_info\": {\"editable\": tru".as_slice(), &junk].concat())?;
            fs::write(format!("{}/__editable__.bad2-1.0.pth", sp), &junk)?;
        }
        7 => {
            let names = ["p\u{00e4}\u{4e2d}-ck-1.0.dist-info", "\u{4e2d}-1.0.dist-info", "p\u{00e4}-1.0.dist-info", "\u{00e9}\u{4e2d}k-2.0.dist-info", "\u{1F600}-0.1.dist-info"];
            let name = names[bytes.first().copied().unwrap_or(0) as usize % names.len()];
            fs::create_dir_all(format!("{}/{}", sp, name))?;
            fs::write(format!("{}/{}/direct_url.json", sp, name), b"{\"url\": \"file:///nowhere\", \"dir_info\": {\"editable\": true}}")?;
            fs::write(format!("{}/{}/entry_points.txt", sp, name), "[pytest11]\np\u{00e4} = p\u{00e4}.plugin:attr\n")?;
            fs::write(format!("{}/__editable__.p\u{00e4}\u{4e2d}_ck-1.0.pth", sp), format!("{}\n", root))?;
        }
        8 => {
            let _ = std::os::unix::fs::symlink(".", format!("{}/loop", root));
        }
        9 => fs::write(format!("{}/test_nul.py", root), [b"\xef\xbb\xbfimport pytest\n\x00\x00@pytest.fixture\ndef nul_fx():\n    return 1\n".as_slice(), &junk].concat())?,
        _ => {
            fs::write(format!("{}/weird.pth", sp), [b"import os; ".as_slice(), &junk, b"\n../../..\n/\n"].concat())?;
            fs::write(format!("{}/__editable__.tp1-1.0.pth", sp), b"\n\n#\n")?;
        }
    }
    Ok(())
}

/// per-file records of an index, keyed by path relative to the root
fn per_file_records(db: &FixtureDatabase, root: &str) -> std::collections::BTreeMap<String, Value> {
    use serde_json::json;
    let mut out = std::collections::BTreeMap::new();
    for f in crate::snapshot::cached_files(db) {
        let rel = crate::snapshot::rel(root, &f);
        let mut defs: Vec<Value> = crate::snapshot::all_defs(db).iter().filter(|d| d.file_path == f).map(|d| crate::snapshot::def_full(root, d)).collect();
        defs.sort_by_key(|v| v.to_string());
        let mut us: Vec<Value> = db.usages.get(&f).map(|u| u.iter().map(|u| json!([u.name, u.line, u.start_char, u.end_char])).collect()).unwrap_or_default();
        us.sort_by_key(|v| v.to_string());
        out.insert(rel, json!({"defs": defs, "usages": us}));
    }
    out
}

pub fn check_faults(fc: &FaultCase, info: &mut CaseInfo) -> Outcome {
    use crate::fsws::DiskWs;
    let clean = match DiskWs::create(&fc.ws, "", None) {
        Ok(d) => d,
        Err(e) => return Outcome::Fail(format!("cannot materialise: {}", e)),
    };
    let faulty = match DiskWs::create(&fc.ws, "", None) {
        Ok(d) => d,
        Err(e) => return Outcome::Fail(format!("cannot materialise: {}", e)),
    };
    let _ = std::fs::create_dir_all(format!("{}/.venv/lib/python3.11/site-packages", clean.root));
    for (k, b) in &fc.faults {
        info.classes.push(format!("fault={}", FAULT_KINDS[(*k % 12) as usize]));
        if let Err(e) = inject_fault(&faulty.root, *k, b) {
            return Outcome::Fail(format!("cannot inject fault: {}", e));
        }
    }
    let a = FixtureDatabase::new();
    a.scan_workspace(Path::new(&clean.root));
    let b = FixtureDatabase::new();
    if let Err(e) = guard("scan_workspace", || b.scan_workspace(Path::new(&faulty.root))) {
        return Outcome::Fail(format!("{} (faults: {:?})", e, fc.faults.iter().map(|(k, _)| FAULT_KINDS[(*k % 12) as usize]).collect::<Vec<_>>()));
    }
    let ra = per_file_records(&a, &clean.root);
    let rb = per_file_records(&b, &faulty.root);
    info.checks += ra.len() as u64;
    info.nontrivial = !ra.is_empty() && !fc.faults.is_empty();
    for (f, rec) in &ra {
        match rb.get(f) {
            Some(r2) if r2 == rec => {}
            other => {
                return Outcome::Fail(format!(
                    "faults {:?}: file {} is indexed differently than without the fault: without={} with={}",
                    fc.faults.iter().map(|(k, _)| FAULT_KINDS[(*k % 12) as usize]).collect::<Vec<_>>(),
                    f,
                    rec,
                    other.map(|v| v.to_string()).unwrap_or("<not indexed>".into())
                ));
            }
        }
    }
    // the CLI on the faulty tree must end with 0 or 1, never a signal or a panic status
    for args in [vec!["fixtures", "list", faulty.root.as_str()], vec!["fixtures", "unused", faulty.root.as_str()]] {
        let o = crate::cli::run_cli(&args, 4);
        info.checks += 1;
        match o.code {
            Some(0) | Some(1) => {}
            other => return Outcome::Fail(format!("`{}` ended with status {:?} on a tree with faults {:?}: {}", args.join(" "), other, fc.faults.iter().map(|(k, _)| k % 12).collect::<Vec<_>>(), o.stderr.chars().take(600).collect::<String>())),
        }
    }
    Outcome::Ok
}

pub fn fault_case() -> impl Strategy<Value = FaultCase> {
    let cfg = crate::gen::GenCfg { names: 3, max_depth: 2, max_items: 2, ..crate::gen::GenCfg::default() };
    (crate::gen::workspace(cfg), vec((0u8..12, vec(any::<u8>(), 0..24)), 1..=3)).prop_map(|(ws, faults)| FaultCase { ws, faults })
}

pub const FUZZ_BIN: &str = "/verif/target-fuzz/x86_64-unknown-linux-gnu/release/fz_session";

/// one saved libFuzzer input against the fuzz binary built from the current tree
fn check_fuzz_artifact(bytes: &[u8]) -> Outcome {
    let tmp = format!("/dev/shm/verif-fzreplay-{}-{:016x}", std::process::id(), crate::runner::hash_json(&bytes));
    if std::fs::write(&tmp, bytes).is_err() {
        return Outcome::Ok;
    }
    let out = std::process::Command::new(FUZZ_BIN).arg(&tmp).output();
    let _ = std::fs::remove_file(&tmp);
    match out {
        Err(e) => Outcome::Fail(format!("cannot run {}: {} (build it with ./vcheck C11 thorough)", FUZZ_BIN, e)),
        Ok(o) if o.status.success() => Outcome::Ok,
        Ok(o) => {
            let err = String::from_utf8_lossy(&o.stderr);
            let line = err.lines().find(|l| l.contains("panicked at")).unwrap_or("crash without panic message").to_string();
            let next = err.lines().skip_while(|l| !l.contains("panicked at")).nth(1).unwrap_or("").to_string();
            Outcome::Fail(format!("libFuzzer input crashes the library: {} {}", line, next))
        }
    }
}

/// merge the summary of the libFuzzer campaign that `vcheck C11 thorough` ran before us
fn absorb_fuzz_summary(ctx: &Ctx) {
    let Ok(path) = std::env::var("VERIF_FUZZ_SUMMARY") else { return };
    let Ok(text) = std::fs::read_to_string(&path) else { return };
    let Ok(v) = serde_json::from_str::<Value>(&text) else { return };
    if let Some(crashes) = v.get("crashes").and_then(|c| c.as_array()) {
        let mut seen = std::collections::BTreeSet::new();
        for c in crashes {
            let Some(p) = c.as_str() else { continue };
            let Ok(bytes) = std::fs::read(p) else { continue };
            // confirm against a fresh process and deduplicate by panic message
            if let Outcome::Fail(m) = check_fuzz_artifact(&bytes) {
                if seen.insert(m.clone()) {
                    ctx.violation("fuzz", &serde_json::json!({"bytes": bytes}), &m);
                }
            }
        }
    }
    ctx.set_extra("libfuzzer", v);
}

pub fn run(ctx: &Ctx) {
    absorb_fuzz_summary(ctx);
    ctx.run_prop_shrink("scan-faults", ctx.tier.pick(150, 4_000), 8, 200, fault_case, |c, info| check_faults(c, info));
    ctx.run_prop("lib", ctx.tier.pick(12_000, 600_000), 16, case, |c, info| check_lib(c, info));
    let files = crate::props::c03::corpus_files(100_000);
    ctx.set_extra("corpus_files_available", serde_json::json!(files.len()));
    ctx.run_prop_shrink("corpus", ctx.tier.pick(800, 40_000), 16, 200, corpus_case, |c, info| check_corpus(&files, c, info));
    ctx.run_prop_shrink("server", ctx.tier.pick(160, 4_000), 8, 200, case, |c, info| check_server(ctx, c, info));
}

pub fn judge(ctx: &Ctx, sub: &str, case: &Value) -> Option<Outcome> {
    let mut info = CaseInfo::default();
    match sub {
        "server" => {
            let c: Case = from_case(case)?;
            Some(check_server(ctx, &c, &mut info))
        }
        "scan-faults" => {
            let c: FaultCase = from_case(case)?;
            Some(check_faults(&c, &mut info))
        }
        "lib" => {
            let c: Case = from_case(case)?;
            Some(check_lib(&c, &mut info))
        }
        "corpus" => {
            let c: CorpusCase = from_case(case)?;
            Some(check_corpus(&crate::props::c03::corpus_files(100_000), &c, &mut info))
        }
        "fuzz" => {
            let bytes: Vec<u8> = from_case(case.get("bytes")?)?;
            Some(check_fuzz_artifact(&bytes))
        }
        _ => None,
    }
}
