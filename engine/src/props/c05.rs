//! C05 — all features agree on which definition a name denotes (library tier: the four resolvers).
//! Oracle: cross-feature agreement, no model. A probe test requesting every pool name is appended
//! to every project file so that the per-file view is observable through go-to-definition.

use crate::db::*;
use crate::gen::{workspace, GenCfg};
use crate::model::{DefId, Model};
use crate::runner::*;
use crate::spec::*;
use proptest::prelude::*;
use serde_json::Value;
use std::collections::BTreeMap;
use std::path::Path;

pub const RULE: &str = "proptest-generated in-memory workspaces as for C01 plus duplicate definitions in one file; a probe test requesting every pool name is appended to each project file. At every recorded usage: find_fixture_definition == get_available_fixtures entry of that name == resolve_fixture_for_file == find_fixture_or_definition_at_position; the available list has exactly one entry per name whose probe resolves and none otherwise. Real-world tier: every pytest-style file found offline (site-packages of the tooling virtualenv and of the conda installation) is analysed alone and at each of its recorded usages go-to-definition, position lookup, the per-file view and the outgoing-call resolver must agree. Non-trivial = the name has >=2 definitions and the usage is not in the defining file; distinct = distinct workspace specs.";
pub const ASSUMPTIONS: &[&str] = &[
    "pure cross-feature comparison (which definition is right is C01's business)",
    "at a self-named parameter the per-file view (completion / inlay) is not judged: it cannot be position specific; the outgoing-call resolver is judged there",
    "hover/implementation/callHierarchy/inlay/completion handlers are compared through the server in the lsp sub-check",
];

pub const KF_SAMEFILE_FIRST: &str = "KF-C05-available-first-of-duplicates";
pub const KF_THIRD_RESOLVER: &str = "KF-C05-outgoing-resolver-diverges";
pub const KF_FALLBACK: &str = "KF-C05-outgoing-fallback-first";

pub fn cfg() -> GenCfg {
    GenCfg { names: 4, allow_dups_in_file: true, ..GenCfg::default() }
}

pub fn with_probes(ws: &WorkspaceSpec, names: usize) -> WorkspaceSpec {
    let mut w = ws.clone();
    for f in w.files.iter_mut() {
        if f.loc.is_plugin() || f.loc.is_third_party() {
            continue;
        }
        f.items.push(Item::Test(TestSpec { suffix: 99, params: (0..names).collect(), usefixtures: vec![], indirect: vec![], is_async: false, body_uses: vec![], defaulted: vec![] }));
    }
    w
}

#[derive(Clone, Debug, serde::Serialize, serde::Deserialize)]
pub struct Case {
    pub ws: WorkspaceSpec,
    /// documents (bit = file index mod 16) closed again before the features are compared: closing
    /// drops cached text, the features must still agree with each other
    #[serde(default)]
    pub close_mask: u16,
}

pub fn check_ws(ws0: &WorkspaceSpec, info: &mut CaseInfo) -> Outcome {
    check_ws_closed(ws0, 0, info)
}

pub fn check_ws_closed(ws0: &WorkspaceSpec, close_mask: u16, info: &mut CaseInfo) -> Outcome {
    let ws = with_probes(ws0, cfg().names);
    let m = Model::new(&ws);
    let db = build_db(&m, &ws.order());
    if close_mask != 0 {
        let mut n = 0;
        for fi in 0..ws.files.len() {
            if (close_mask >> (fi % 16)) & 1 == 1 {
                db.cleanup_file_cache(Path::new(&m.path(fi)));
                n += 1;
            }
        }
        if n > 0 {
            info.classes.push("documents closed before the comparison".into());
        }
    }
    let mut known: Vec<String> = Vec::new();
    let mut detail = None;
    for (fi, r) in m.rendered.iter().enumerate() {
        if close_mask != 0 && (close_mask >> (fi % 16)) & 1 == 1 {
            // a closed in-memory document has no text any more: clients do not ask about positions in it
            continue;
        }
        let path = m.path(fi);
        let p = Path::new(&path);
        let avail = db.get_available_fixtures(p);
        let mut by_name: BTreeMap<String, Vec<DefId>> = BTreeMap::new();
        for d in &avail {
            by_name.entry(d.name.clone()).or_default().push(def_id(&m, d).unwrap_or(DefId { file: usize::MAX, line: d.line }));
        }
        for (n, v) in &by_name {
            if v.len() != 1 {
                return Outcome::Fail(format!("available fixtures of {} list `{}` {} times", m.ws.files[fi].loc.rel(), n, v.len()));
            }
        }
        let dup_in_file = |name: &str, f: usize| m.all_defs_of(f, name).len() >= 2;
        for u in &r.uses {
            info.checks += 1;
            let g = goto(&db, &path, u.line, u.start).and_then(|d| def_id(&m, &d));
            let pos = db
                .find_fixture_or_definition_at_position(p, (u.line - 1) as u32, u.start as u32)
                .and_then(|d| def_id(&m, &d));
            let here = format!("usage `{}` ({:?}) at {}:{}:{}", u.name, u.kind, m.ws.files[fi].loc.rel(), u.line, u.start);
            if pos != g {
                return Outcome::Fail(format!("{}: go-to-definition -> {} but find_fixture_or_definition_at_position -> {}", here, show_def(&m, g), show_def(&m, pos)));
            }
            if m.count_defs(&u.name) >= 2 && g.map(|d| d.file != fi).unwrap_or(true) {
                info.nontrivial = true;
            }
            let is_self_param = m.self_def(fi, u).is_some();
            // outgoing-call resolver (third resolver)
            // (the library API has no position: at a self-named parameter it is judged through
            // callHierarchy/outgoingCalls in the lsp sub-check instead)
            let r3 = db.resolve_fixture_for_file(p, &u.name).and_then(|d| def_id(&m, &d));
            if r3 != g && !is_self_param {
                // recorded finding: the third resolver ignores imports, self-exclusion and takes the first of duplicates
                let via_helper = g.map(|d| matches!(m.ws.files[d.file].loc.kind, FileKind::Helper(_)) && d.file != fi).unwrap_or(false);
                let dup = g.map(|d| dup_in_file(&u.name, d.file)).unwrap_or(false) || r3.map(|d| dup_in_file(&u.name, d.file)).unwrap_or(false);
                // fallback `definitions.first()` when nothing is visible
                let fallback_any = g.is_none() && r3.is_some();
                // imported name shadowed differently: goto found it through an import while r3 went elsewhere, or vice versa
                let imported_somewhere = crate::props::c01::impl_imported_names_on_path(&m, fi).contains(&u.name);
                if fallback_any {
                    info.known_trigger = true;
                    if !known.contains(&KF_FALLBACK.to_string()) {
                        known.push(KF_FALLBACK.to_string());
                        detail.get_or_insert(format!("{}: go-to-definition -> none but resolve_fixture_for_file -> {}", here, show_def(&m, r3)));
                    }
                } else if via_helper || dup || imported_somewhere {
                    info.known_trigger = true;
                    if !known.contains(&KF_THIRD_RESOLVER.to_string()) {
                        known.push(KF_THIRD_RESOLVER.to_string());
                        detail.get_or_insert(format!("{}: go-to-definition -> {} but resolve_fixture_for_file -> {}", here, show_def(&m, g), show_def(&m, r3)));
                    }
                } else {
                    return Outcome::Fail(format!("{}: go-to-definition -> {} but resolve_fixture_for_file (outgoing calls) -> {}", here, show_def(&m, g), show_def(&m, r3)));
                }
            }
            if is_self_param {
                info.unjudged += 1;
                continue;
            }
            let a = by_name.get(&u.name).map(|v| v[0]);
            if a != g {
                // recorded finding: name defined twice in the using file: navigation -> last, list -> first
                let dup_here = dup_in_file(&u.name, fi) && g.map(|d| d.file == fi).unwrap_or(false) && a.map(|d| d.file == fi).unwrap_or(false);
                if dup_here {
                    info.known_trigger = true;
                    if !known.contains(&KF_SAMEFILE_FIRST.to_string()) {
                        known.push(KF_SAMEFILE_FIRST.to_string());
                        detail.get_or_insert(format!("{}: go-to-definition -> {} but available-fixtures entry -> {}", here, show_def(&m, g), show_def(&m, a)));
                    }
                } else {
                    return Outcome::Fail(format!("{}: go-to-definition -> {} but the available-fixtures entry (completion / inlay hints) -> {}", here, show_def(&m, g), show_def(&m, a)));
                }
            }
        }
    }
    if known.is_empty() {
        Outcome::Ok
    } else {
        info.fail_detail = detail;
        Outcome::Known(known)
    }
}

/// Real-world documents, one at a time on an index of their own (no reference model is needed): at
/// every recorded usage the four library resolvers agree, and the per-file view has one entry per name.
pub fn check_corpus_document(src: &str, path: &str, info: &mut CaseInfo) -> Outcome {
    let db = pytest_language_server::FixtureDatabase::new();
    let p = Path::new(path);
    db.analyze_file(p.to_path_buf(), src);
    let key = |d: &pytest_language_server::FixtureDefinition| (d.file_path.clone(), d.line, d.name.clone());
    let avail = db.get_available_fixtures(p);
    let mut by_name: BTreeMap<String, Vec<_>> = BTreeMap::new();
    for d in &avail {
        by_name.entry(d.name.clone()).or_default().push(key(d));
    }
    for (n, v) in &by_name {
        if v.len() != 1 {
            return Outcome::Fail(format!("available fixtures list `{}` {} times", n, v.len()));
        }
    }
    let uses = db.usages.get(p).map(|u| u.value().clone()).unwrap_or_default();
    let defs_in_file = crate::snapshot::all_defs(&db).len();
    if !uses.is_empty() && defs_in_file > 0 {
        info.nontrivial = true;
    }
    for u in &uses {
        info.checks += 1;
        let (l, c) = ((u.line.max(1) - 1) as u32, u.start_char as u32);
        let g = db.find_fixture_definition(p, l, c).map(|d| key(&d));
        let pos = db.find_fixture_or_definition_at_position(p, l, c).map(|d| key(&d));
        let here = format!("usage `{}` at line {} col {}", u.name, u.line, u.start_char);
        if pos != g {
            return Outcome::Fail(format!("{}: go-to-definition -> {:?} but find_fixture_or_definition_at_position -> {:?}", here, g, pos));
        }
        // a parameter named like the fixture that declares it resolves outward (C02): not a plain usage
        let self_param = crate::snapshot::all_defs(&db).iter().any(|d| d.name == u.name && d.line == u.line);
        if self_param {
            info.unjudged += 1;
            continue;
        }
        let a = by_name.get(&u.name).map(|v| v[0].clone());
        if a != g {
            return Outcome::Fail(format!("{}: go-to-definition -> {:?} but the available-fixtures entry (completion / inlay hints) -> {:?}", here, g, a));
        }
        let r3 = db.resolve_fixture_for_file(p, &u.name).map(|d| key(&d));
        if r3 != g {
            return Outcome::Fail(format!("{}: go-to-definition -> {:?} but resolve_fixture_for_file (outgoing calls) -> {:?}", here, g, r3));
        }
    }
    Outcome::Ok
}

pub fn run(ctx: &Ctx) {
    // real-world corpus (the files C03 also reads), single-document indexes
    let files = crate::props::c03::corpus_files(ctx.tier.pick(150, 100_000) as usize);
    let mut compared = 0u64;
    for (i, f) in files.iter().enumerate() {
        let Ok(src) = std::fs::read_to_string(f) else { continue };
        let mut info = CaseInfo::default();
        let path = format!("/vw/corpus/{}/{}", i, f.file_name().and_then(|n| n.to_str()).unwrap_or("test_file.py"));
        let out = std::panic::catch_unwind(std::panic::AssertUnwindSafe(|| check_corpus_document(&src, &path, &mut info))).unwrap_or_else(|_| Outcome::Fail("PANIC".into()));
        compared += 1;
        ctx.record(&serde_json::json!({"corpus_file": f.to_string_lossy()}), &info, &out);
        if let Outcome::Fail(m) = out {
            ctx.violation("corpus", &serde_json::json!({"file": f.to_string_lossy()}), &format!("corpus file {}: {}", f.display(), m));
            break;
        }
    }
    ctx.set_extra("corpus_documents_compared", serde_json::json!(compared));
    ctx.run_prop("lib", ctx.tier.pick(16_000, 800_000), 16, || (workspace(cfg()), prop_oneof![2 => Just(0u16), 1 => proptest::num::u16::ANY]).prop_map(|(ws, close_mask)| Case { ws, close_mask }), |c, info| check_ws_closed(&c.ws, c.close_mask, info));
    ctx.run_prop_shrink("lsp", ctx.tier.pick(100, 2500), 8, 150, || workspace(lsp_cfg()).prop_map(|ws| Case { ws, close_mask: 0 }), |c, info| {
        crate::props::lsp_tiers::c05_features(ctx, &c.ws, lsp_cfg().names, info)
    });
}

pub fn lsp_cfg() -> GenCfg {
    GenCfg { names: 3, max_depth: 3, max_items: 3, allow_dups_in_file: true, ..GenCfg::default() }
}

pub fn judge(ctx: &Ctx, sub: &str, case: &Value) -> Option<Outcome> {
    let mut info = CaseInfo::default();
    match sub {
        "corpus" => {
            let f = case.get("file")?.as_str()?;
            let src = std::fs::read_to_string(f).ok()?;
            Some(check_corpus_document(&src, "/vw/corpus/0/test_file.py", &mut info))
        }
        "lsp" => {
            let c: Case = from_case(case)?;
            Some(crate::props::lsp_tiers::c05_features(ctx, &c.ws, lsp_cfg().names, &mut info))
        }
        "lib" => {
            let c: Case = from_case(case)?;
            Some(check_ws_closed(&c.ws, c.close_mask, &mut info))
        }
        _ => None,
    }
}
