//! C02 — a self-named parameter resolves outward; the cursor decides which fixture.
//! Oracle: reference model with self-exclusion, at every column of every overriding def line.

use crate::db::*;
use crate::gen::{workspace, GenCfg};
use crate::model::{DefId, Model, Res};
use crate::props::c01::{show_res, variant_resolve};

pub const KF_C02_IMPORT: &str = "KF-C02-imported-parent-first-registered";
use crate::runner::*;
use crate::spec::*;
use proptest::strategy::Strategy;
use serde_json::Value;
use std::collections::BTreeSet;
use std::path::Path;

pub const RULE: &str = "proptest-generated in-memory workspaces over a pool of 2-3 names with a 50% bias for fixtures requesting their own name, so that override chains of length 1-4 (about one fixture function in six written entirely on one physical line, so that its parameter sits on the last line of its own definition) through same file / conftest levels / conftest-imported modules / plugin / third-party arise; every column of every definition line that carries a same-named parameter is queried (parameter span: go-to-definition == next link outward per the model, never the fixture itself; function-name span: position lookup, get_definition_at_line and find_references_for_definition concern this link; other columns: nothing), and every usage is bound per the model. Non-trivial = a chain of >=2 links with one link outside the conftest hierarchy, or >=3 links; distinct = distinct workspace specs.";
pub const ASSUMPTIONS: &[&str] = &[
    "reference model of pytest lookup with self-exclusion (model.rs)",
    "single-line signatures (the quantifier speaks of a definition line carrying both name and parameter)",
    "aliased fixtures (name=...) are judged on the parameter span only: their function name is not the fixture name",
];

pub fn cfg() -> GenCfg {
    GenCfg { names: 3, self_dep_bias: 5, allow_dups_in_file: true, oneline_fixtures: true, ..GenCfg::default() }
}

#[derive(Clone, Debug, serde::Serialize, serde::Deserialize)]
pub struct Case {
    pub ws: WorkspaceSpec,
}

fn model_refs(m: &Model, d: DefId) -> (BTreeSet<(usize, usize, usize)>, bool) {
    // returns the set of (file, line, start) usages whose model target is exactly d; the flag says
    // that some usage of that name could not be judged
    let name = &m.def_tok(d).name;
    let mut out = BTreeSet::new();
    let mut unjudged = false;
    for (fi, r) in m.rendered.iter().enumerate() {
        for u in &r.uses {
            if &u.name != name {
                continue;
            }
            match m.usage_target(fi, u) {
                Res::One(x) if x == d => {
                    out.insert((fi, u.line, u.start));
                }
                Res::AnyOf(s) if s.contains(&d) => unjudged = true,
                Res::Unjudged(_) => unjudged = true,
                _ => {}
            }
        }
    }
    (out, unjudged)
}

pub fn check_ws(ws: &WorkspaceSpec, info: &mut CaseInfo) -> Outcome {
    let m = Model::new(ws);
    let order = ws.order();
    let db = build_db(&m, &order);
    let mut known: BTreeSet<String> = BTreeSet::new();
    let mut detail = None;
    for (fi, r) in m.rendered.iter().enumerate() {
        let path = m.path(fi);
        let p = Path::new(&path);
        let line_text: Vec<&str> = r.text.lines().collect();
        for d in &r.defs {
            let me = DefId { file: fi, line: d.line };
            let Some(u) = r.uses.iter().find(|u| u.in_def_line == Some(d.line) && u.name == d.name) else { continue };
            if u.line != d.line {
                // wrapped signature: outside this property's quantifier (a definition line carrying both
                // the name and the parameter); the parameter itself is judged by C01
                info.unjudged += 1;
                continue;
            }
            // chain length for the non-triviality rule
            let mut chain = 1;
            let mut outside = false;
            let mut cur = m.resolve(fi, &d.name, Some(me));
            let mut guard = 0;
            while let Res::One(nx) = cur.clone() {
                chain += 1;
                let l = &m.ws.files[nx.file].loc;
                if l.is_plugin() || l.is_third_party() || matches!(l.kind, FileKind::Helper(_)) {
                    outside = true;
                }
                let has_self = m.rendered[nx.file].uses.iter().any(|x| x.in_def_line == Some(nx.line) && x.name == d.name);
                guard += 1;
                if !has_self || guard > 6 {
                    break;
                }
                cur = m.resolve(nx.file, &d.name, Some(nx));
            }
            if (chain >= 2 && outside) || chain >= 3 {
                info.nontrivial = true;
            }
            info.classes.push(format!("chain={}", chain.min(5)));
            let exp = m.resolve(fi, &d.name, Some(me));
            let text = line_text[d.line - 1];
            let aliased = d.func_name != d.name;
            for col in 0..text.len() + 1 {
                info.checks += 1;
                let got = goto(&db, &path, d.line, col).and_then(|x| def_id(&m, &x));
                let in_param = col >= u.start && col < u.end;
                let in_name = col >= d.start && col < d.end;
                let in_other_param = r.uses.iter().any(|x| x.line == d.line && col >= x.start && col < x.end && x.name != d.name);
                if in_param {
                    if got == Some(me) {
                        return Outcome::Fail(format!("{}:{}:{}: go-to-definition on the self-named parameter `{}` lands on the overriding fixture itself", m.ws.files[fi].loc.rel(), d.line, col, d.name));
                    }
                    let ok = match &exp {
                        Res::None => got.is_none(),
                        Res::One(x) => got == Some(*x),
                        Res::AnyOf(s) => got.map(|g| s.contains(&g)).unwrap_or(false),
                        Res::Unjudged(_) => true,
                    };
                    if !ok {
                        let (var, via_import, model_imported) = variant_resolve(&m, &order, fi, &d.name, Some(me));
                        let msg = format!("{}:{}:{}: self-named parameter `{}`: expected next link outward {}, got {}", m.ws.files[fi].loc.rel(), d.line, col, d.name, show_res(&m, &exp), show_def(&m, got));
                        if via_import && got == var {
                            info.known_trigger = true;
                            let _ = model_imported;
                            known.insert(KF_C02_IMPORT.to_string());
                            detail.get_or_insert(msg);
                        } else {
                            return Outcome::Fail(msg);
                        }
                    }
                } else if in_name && !aliased {
                    if got.is_some() {
                        return Outcome::Fail(format!("{}:{}:{}: go-to-definition on the function name `{}` treats it as a usage -> {}", m.ws.files[fi].loc.rel(), d.line, col, d.name, show_def(&m, got)));
                    }
                    let nm = db.find_fixture_at_position(p, (d.line - 1) as u32, col as u32);
                    if nm.as_deref() != Some(d.name.as_str()) {
                        return Outcome::Fail(format!("{}:{}:{}: find_fixture_at_position on the function name gives {:?}, expected `{}`", m.ws.files[fi].loc.rel(), d.line, col, nm, d.name));
                    }
                    let fd = db.find_fixture_or_definition_at_position(p, (d.line - 1) as u32, col as u32).and_then(|x| def_id(&m, &x));
                    if fd != Some(me) {
                        return Outcome::Fail(format!("{}:{}:{}: position lookup on the function name gives {}, expected this fixture", m.ws.files[fi].loc.rel(), d.line, col, show_def(&m, fd)));
                    }
                } else if !in_other_param && !in_name {
                    if got.is_some() {
                        return Outcome::Fail(format!("{}:{}:{}: go-to-definition outside any token -> {}", m.ws.files[fi].loc.rel(), d.line, col, show_def(&m, got)));
                    }
                }
            }
            if !aliased {
                // references from the function name concern this link
                let Some(this) = db.get_definition_at_line(p, d.line, &d.name) else {
                    return Outcome::Fail(format!("{}:{}: get_definition_at_line does not find fixture `{}`", m.ws.files[fi].loc.rel(), d.line, d.name));
                };
                if def_id(&m, &this) != Some(me) {
                    return Outcome::Fail(format!("{}:{}: get_definition_at_line returns another definition", m.ws.files[fi].loc.rel(), d.line));
                }
                let got_refs: BTreeSet<(usize, usize, usize)> = db
                    .find_references_for_definition(&this)
                    .iter()
                    .filter_map(|u| m.file_by_path(&u.file_path.to_string_lossy()).map(|f| (f, u.line, u.start_char)))
                    .collect();
                let (exp_refs, unj) = model_refs(&m, me);
                info.checks += 1;
                if unj {
                    info.unjudged += 1;
                } else if got_refs != exp_refs {
                    // attribution: every differing usage must be explained by the import-first variant
                    let mut all_attr = true;
                    for (f, l, s) in got_refs.symmetric_difference(&exp_refs) {
                        let u = m.rendered[*f].uses.iter().find(|u| u.line == *l && u.start == *s).unwrap();
                        let (var, via_import, _) = variant_resolve(&m, &order, *f, &u.name, m.self_def(*f, u));
                        let impl_says_me = got_refs.contains(&(*f, *l, *s));
                        if !(via_import && (var == Some(me)) == impl_says_me) {
                            all_attr = false;
                        }
                    }
                    let msg = format!(
                        "references of {}:{} `{}`: expected {:?}, got {:?}",
                        m.ws.files[fi].loc.rel(),
                        d.line,
                        d.name,
                        exp_refs.iter().map(|(f, l, s)| format!("{}:{}:{}", m.ws.files[*f].loc.rel(), l, s)).collect::<Vec<_>>(),
                        got_refs.iter().map(|(f, l, s)| format!("{}:{}:{}", m.ws.files[*f].loc.rel(), l, s)).collect::<Vec<_>>()
                    );
                    if all_attr {
                        info.known_trigger = true;
                        known.insert(KF_C02_IMPORT.to_string());
                        detail.get_or_insert(msg);
                    } else {
                        return Outcome::Fail(msg);
                    }
                }
            }
        }
    }
    if known.is_empty() {
        Outcome::Ok
    } else {
        info.fail_detail = detail;
        Outcome::Known(known.into_iter().collect())
    }
}

pub fn run(ctx: &Ctx) {
    ctx.run_prop("lib", ctx.tier.pick(16_000, 800_000), 16, || workspace(cfg()).prop_map(|ws| Case { ws }), |c, info| check_ws(&c.ws, info));
    ctx.run_prop_shrink("lsp", ctx.tier.pick(100, 2500), 8, 150, || workspace(lsp_cfg()).prop_map(|ws| Case { ws }), |c, info| crate::props::lsp_tiers::c02_references(ctx, &c.ws, info));
    // bounded-exhaustive: every override chain over the 8 provider slots (which slots define the
    // name x which of those definitions request their own name x 2 analysis orders = 3^8 x 2)
    let all = crate::exh::all_with_self();
    ctx.set_extra("exhaustive_subcheck", serde_json::json!(format!("chains: all {} (assignment of chain links to 8 provider slots, each link overriding or plain, 2 analysis orders) enumerated", all.len())));
    ctx.run_enum("chains", all, 16, |c, info| {
        info.classes.push(format!("chains: {} links, {} overriding", c.mask.count_ones(), c.self_mask.count_ones()));
        check_ws(&crate::exh::slot_workspace(&cfg(), c), info)
    });
}

pub fn lsp_cfg() -> GenCfg {
    GenCfg { names: 2, self_dep_bias: 6, max_depth: 3, max_items: 3, allow_dups_in_file: false, noise: false, oneline_fixtures: true, ..GenCfg::default() }
}

pub fn judge(ctx: &Ctx, sub: &str, case: &Value) -> Option<Outcome> {
    let mut info = CaseInfo::default();
    match sub {
        "lsp" => {
            let c: Case = from_case(case)?;
            Some(crate::props::lsp_tiers::c02_references(ctx, &c.ws, &mut info))
        }
        "lib" => {
            let c: Case = from_case(case)?;
            Some(check_ws(&c.ws, &mut info))
        }
        "chains" => {
            let c: crate::exh::SlotCase = from_case(case)?;
            Some(check_ws(&crate::exh::slot_workspace(&cfg(), &c), &mut info))
        }
        _ => None,
    }
}
