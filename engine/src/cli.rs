//! Running the real CLI (`fixtures list|unused`).
use std::process::Command;

pub struct CliOut {
    pub stdout: String,
    pub stderr: String,
    pub code: Option<i32>,
}

pub fn run_cli(args: &[&str], threads: usize) -> CliOut {
    let out = Command::new(crate::lsp::SERVER_BIN)
        .args(args)
        .env("NO_COLOR", "1")
        .env("RAYON_NUM_THREADS", threads.to_string())
        .env_remove("VIRTUAL_ENV")
        .output();
    match out {
        Ok(o) => CliOut {
            stdout: String::from_utf8_lossy(&o.stdout).to_string(),
            stderr: String::from_utf8_lossy(&o.stderr).to_string(),
            code: o.status.code(),
        },
        Err(e) => CliOut { stdout: String::new(), stderr: format!("spawn failed: {}", e), code: None },
    }
}
