//! Driving the real FixtureDatabase from a WorkspaceSpec (in-memory paths).

use crate::model::{DefId, Model};
use pytest_language_server::{FixtureDatabase, FixtureDefinition};
use std::path::{Path, PathBuf};

pub fn new_db_for(m: &Model) -> FixtureDatabase {
    let db = FixtureDatabase::new();
    for f in &m.ws.files {
        if f.loc.is_plugin() {
            db.plugin_fixture_files.insert(PathBuf::from(f.loc.path()), ());
        }
    }
    db
}

pub fn build_db(m: &Model, order: &[usize]) -> FixtureDatabase {
    let db = new_db_for(m);
    for &i in order {
        db.analyze_file(PathBuf::from(m.path(i)), &m.rendered[i].text);
    }
    db
}

/// Map an implementation definition back to the model's identity.
pub fn def_id(m: &Model, d: &FixtureDefinition) -> Option<DefId> {
    let p = d.file_path.to_string_lossy();
    let f = m.file_by_path(&p)?;
    Some(DefId { file: f, line: d.line })
}

pub fn show_def(m: &Model, d: Option<DefId>) -> String {
    match d {
        None => "none".to_string(),
        Some(d) => format!("{}:{}", m.ws.files[d.file].loc.rel(), d.line),
    }
}

pub fn goto(db: &FixtureDatabase, path: &str, line1: usize, col: usize) -> Option<FixtureDefinition> {
    db.find_fixture_definition(Path::new(path), (line1 - 1) as u32, col as u32)
}
