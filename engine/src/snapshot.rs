//! Observable snapshot of a FixtureDatabase through its public API, as canonical JSON.
//! Definitions are identified by (path, line, name). Everything that iterates a hash map in the
//! implementation is sorted here, so two snapshots are comparable with `==`.

use pytest_language_server::{FixtureDatabase, FixtureDefinition};
use serde_json::{json, Map, Value};
use std::path::{Path, PathBuf};

#[derive(Clone, Debug)]
pub struct SnapOpts {
    /// strip this prefix from paths
    pub root: String,
    /// files whose position-based queries are taken (None = all cached files)
    pub query_files: Option<Vec<String>>,
    /// include undeclared findings for these files only (None = all)
    pub undeclared_files: Option<Vec<String>>,
    /// 0 = leave cycles out, 1 = only "has cycles" + sanity, 2 = full normalised cycle list
    pub cycles: u8,
    pub raw_maps: bool,
    pub queries: bool,
    pub unused: bool,
}

impl Default for SnapOpts {
    fn default() -> Self {
        SnapOpts { root: String::new(), query_files: None, undeclared_files: None, cycles: 1, raw_maps: true, queries: true, unused: true }
    }
}

pub fn rel(root: &str, p: &Path) -> String {
    let s = p.to_string_lossy().to_string();
    if !root.is_empty() {
        if let Some(r) = s.strip_prefix(root) {
            return r.trim_start_matches('/').to_string();
        }
    }
    s
}

pub fn def_key(root: &str, d: &FixtureDefinition) -> String {
    format!("{}:{}:{}", rel(root, &d.file_path), d.line, d.name)
}

pub fn def_full(root: &str, d: &FixtureDefinition) -> Value {
    json!({
        "name": d.name, "file": rel(root, &d.file_path), "line": d.line, "end_line": d.end_line,
        "start": d.start_char, "end": d.end_char, "doc": d.docstring, "ret": d.return_type,
        "third_party": d.is_third_party, "plugin": d.is_plugin, "deps": d.dependencies,
        "scope": d.scope.as_str(), "yield_line": d.yield_line, "autouse": d.autouse,
    })
}

pub fn cached_files(db: &FixtureDatabase) -> Vec<PathBuf> {
    let mut v: Vec<PathBuf> = db.file_cache.iter().map(|e| e.key().clone()).collect();
    v.sort();
    v
}

pub fn all_defs(db: &FixtureDatabase) -> Vec<FixtureDefinition> {
    let mut v: Vec<FixtureDefinition> = Vec::new();
    for e in db.definitions.iter() {
        for d in e.value().iter() {
            v.push(d.clone());
        }
    }
    v.sort_by(|a, b| (a.file_path.clone(), a.line, a.name.clone()).cmp(&(b.file_path.clone(), b.line, b.name.clone())));
    v
}

/// Normalise a cycle path ["a","b","a"] to its rotation with the smallest member first.
pub fn norm_cycle(path: &[String]) -> Vec<String> {
    if path.len() <= 1 {
        return path.to_vec();
    }
    let body = &path[..path.len() - 1];
    let mut best = 0;
    for i in 0..body.len() {
        if body[i] < body[best] {
            best = i;
        }
    }
    let mut v: Vec<String> = body[best..].iter().chain(body[..best].iter()).cloned().collect();
    v.push(v[0].clone());
    v
}

pub fn snapshot(db: &FixtureDatabase, o: &SnapOpts) -> Value {
    let mut out = Map::new();
    let root = o.root.as_str();
    let files = cached_files(db);
    let qfiles: Vec<PathBuf> = match &o.query_files {
        Some(v) => v.iter().map(PathBuf::from).collect(),
        None => {
            // also files that have usages/definitions but are not cached (closed documents)
            let mut v = files.clone();
            for e in db.usages.iter() {
                if !v.contains(e.key()) {
                    v.push(e.key().clone());
                }
            }
            v.sort();
            v
        }
    };
    if o.raw_maps {
        let mut defs = Map::new();
        let mut names: Vec<String> = db.definitions.iter().map(|e| e.key().clone()).collect();
        names.sort();
        for n in names {
            if let Some(v) = db.definitions.get(&n) {
                defs.insert(n.clone(), Value::Array(v.iter().map(|d| def_full(root, d)).collect()));
            }
        }
        out.insert("definitions".into(), Value::Object(defs));
        let mut fd = Map::new();
        let mut keys: Vec<PathBuf> = db.file_definitions.iter().map(|e| e.key().clone()).collect();
        keys.sort();
        for k in keys {
            if let Some(s) = db.file_definitions.get(&k) {
                let mut v: Vec<String> = s.iter().cloned().collect();
                v.sort();
                fd.insert(rel(root, &k), json!(v));
            }
        }
        out.insert("file_definitions".into(), Value::Object(fd));
        let mut us = Map::new();
        let mut keys: Vec<PathBuf> = db.usages.iter().map(|e| e.key().clone()).collect();
        keys.sort();
        for k in keys {
            if let Some(v) = db.usages.get(&k) {
                us.insert(
                    rel(root, &k),
                    Value::Array(v.iter().map(|u| json!([u.name, rel(root, &u.file_path), u.line, u.start_char, u.end_char])).collect()),
                );
            }
        }
        out.insert("usages".into(), Value::Object(us));
        let mut ubf = Map::new();
        let mut keys: Vec<String> = db.usage_by_fixture.iter().map(|e| e.key().clone()).collect();
        keys.sort();
        for k in keys {
            if let Some(v) = db.usage_by_fixture.get(&k) {
                let mut items: Vec<Value> = v
                    .iter()
                    .map(|(p, u)| json!([rel(root, p), u.name, rel(root, &u.file_path), u.line, u.start_char, u.end_char]))
                    .collect();
                items.sort_by_key(|x| x.to_string());
                ubf.insert(k, Value::Array(items));
            }
        }
        out.insert("usage_by_fixture".into(), Value::Object(ubf));
        let mut im = Map::new();
        let mut keys: Vec<PathBuf> = db.imports.iter().map(|e| e.key().clone()).collect();
        keys.sort();
        for k in keys {
            if let Some(s) = db.imports.get(&k) {
                let mut v: Vec<String> = s.iter().cloned().collect();
                v.sort();
                im.insert(rel(root, &k), json!(v));
            }
        }
        out.insert("imports".into(), Value::Object(im));
    }
    // undeclared
    {
        let mut un = Map::new();
        let keys: Vec<PathBuf> = match &o.undeclared_files {
            Some(v) => v.iter().map(PathBuf::from).collect(),
            None => {
                let mut k: Vec<PathBuf> = db.undeclared_fixtures.iter().map(|e| e.key().clone()).collect();
                k.sort();
                k
            }
        };
        for k in keys {
            let v = db.get_undeclared_fixtures(&k);
            let mut items: Vec<Value> =
                v.iter().map(|u| json!([u.name, u.line, u.start_char, u.end_char, u.function_name, u.function_line])).collect();
            items.sort_by_key(|x| x.to_string());
            un.insert(rel(root, &k), Value::Array(items));
        }
        out.insert("undeclared".into(), Value::Object(un));
    }
    if o.queries {
        // go-to-definition at the first column of every recorded usage
        let mut goto = Map::new();
        for f in &qfiles {
            let Some(us) = db.usages.get(f).map(|u| u.value().clone()) else { continue };
            let mut items: Vec<Value> = Vec::new();
            for u in us.iter() {
                let ans = db.find_fixture_definition(f, (u.line.max(1) - 1) as u32, u.start_char as u32);
                items.push(json!([u.line, u.start_char, u.name, ans.map(|d| def_key(root, &d))]));
            }
            items.sort_by_key(|x| x.to_string());
            goto.insert(rel(root, f), Value::Array(items));
        }
        out.insert("goto".into(), Value::Object(goto));
        // references per definition
        let mut refs = Map::new();
        for d in all_defs(db) {
            let mut r: Vec<Value> = db
                .find_references_for_definition(&d)
                .iter()
                .map(|u| json!([rel(root, &u.file_path), u.line, u.start_char, u.end_char]))
                .collect();
            r.sort_by_key(|x| x.to_string());
            refs.insert(def_key(root, &d), Value::Array(r));
        }
        out.insert("refs".into(), Value::Object(refs));
        // available fixtures, scope mismatches per file
        let mut avail = Map::new();
        let mut mism = Map::new();
        for f in &qfiles {
            let mut a: Vec<Value> = db.get_available_fixtures(f).iter().map(|d| json!([d.name, def_key(root, d)])).collect();
            a.sort_by_key(|x| x.to_string());
            avail.insert(rel(root, f), Value::Array(a));
            let mut mm: Vec<Value> = db
                .detect_scope_mismatches_in_file(f)
                .iter()
                .map(|x| json!([def_key(root, &x.fixture), def_key(root, &x.dependency)]))
                .collect();
            mm.sort_by_key(|x| x.to_string());
            if !mm.is_empty() {
                mism.insert(rel(root, f), Value::Array(mm));
            }
        }
        out.insert("available".into(), Value::Object(avail));
        out.insert("scope_mismatch".into(), Value::Object(mism));
    }
    if o.cycles > 0 {
        let cycles = db.detect_fixture_cycles();
        if o.cycles == 1 {
            out.insert("has_cycles".into(), json!(!cycles.is_empty()));
        } else {
            let mut v: Vec<Value> = cycles.iter().map(|c| json!({"path": norm_cycle(&c.cycle_path), "anchor": def_key(root, &c.fixture)})).collect();
            v.sort_by_key(|x| x.to_string());
            out.insert("cycles".into(), Value::Array(v));
        }
    }
    if o.unused {
        let v: Vec<Value> = db.get_unused_fixtures().iter().map(|(p, n)| json!([rel(root, p), n])).collect();
        out.insert("unused".into(), Value::Array(v));
    }
    Value::Object(out)
}

/// First difference between two JSON values as a path + both sides (for messages).
pub fn first_diff(a: &Value, b: &Value) -> Option<String> {
    fn go(a: &Value, b: &Value, path: &mut Vec<String>) -> Option<String> {
        if a == b {
            return None;
        }
        match (a, b) {
            (Value::Object(x), Value::Object(y)) => {
                let mut keys: Vec<&String> = x.keys().chain(y.keys()).collect();
                keys.sort();
                keys.dedup();
                for k in keys {
                    match (x.get(k), y.get(k)) {
                        (Some(p), Some(q)) => {
                            path.push(k.clone());
                            if let Some(d) = go(p, q, path) {
                                return Some(d);
                            }
                            path.pop();
                        }
                        (p, q) => {
                            return Some(format!(
                                "at {}/{}: left={} right={}",
                                path.join("/"),
                                k,
                                p.map(|v| v.to_string()).unwrap_or("<absent>".into()),
                                q.map(|v| v.to_string()).unwrap_or("<absent>".into())
                            ));
                        }
                    }
                }
                None
            }
            (Value::Array(x), Value::Array(y)) if x.len() == y.len() => {
                for (i, (p, q)) in x.iter().zip(y.iter()).enumerate() {
                    path.push(i.to_string());
                    if let Some(d) = go(p, q, path) {
                        return Some(d);
                    }
                    path.pop();
                }
                None
            }
            _ => Some(format!("at {}: left={} right={}", path.join("/"), trunc(&a.to_string()), trunc(&b.to_string()))),
        }
    }
    fn trunc(s: &str) -> String {
        if s.len() > 600 {
            format!("{}...", &s[..600])
        } else {
            s.to_string()
        }
    }
    go(a, b, &mut Vec::new())
}
