//! Seeded proptest runner, evidence collection, replay files, known-finding bookkeeping.

use proptest::strategy::{Strategy, ValueTree};
use proptest::test_runner::{Config, RngSeed, TestCaseError, TestError, TestRunner};
use serde::de::DeserializeOwned;
use serde::Serialize;
use serde_json::{json, Value};
use std::collections::hash_map::DefaultHasher;
use std::collections::{BTreeMap, HashSet};
use std::hash::{Hash, Hasher};
use std::sync::Mutex;
use std::time::Instant;

pub const VERIF_DIR: &str = "/verif";

#[derive(Clone, Copy, Debug, PartialEq, Eq)]
pub enum Tier {
    Quick,
    Thorough,
}
pub const QUICK_SCALE: u32 = 4;
impl Tier {
    pub fn as_str(&self) -> &'static str {
        match self {
            Tier::Quick => "quick",
            Tier::Thorough => "thorough",
        }
    }
    pub fn pick(&self, quick: u32, thorough: u32) -> u32 {
        match self {
            // the per-check numbers were sized while the checks were built (2-15 s each); the
            // registered quick tier runs four times that fixed amount of work
            Tier::Quick => quick.saturating_mul(QUICK_SCALE).min(thorough),
            Tier::Thorough => thorough,
        }
    }
}

/// Outcome of judging one generated case.
#[derive(Clone, Debug)]
pub enum Outcome {
    Ok,
    /// the case failed, and every failing observation was attributed to these listed findings
    Known(Vec<String>),
    Fail(String),
}

/// Per-case scratch the property closure fills in.
#[derive(Default)]
pub struct CaseInfo {
    pub nontrivial: bool,
    pub classes: Vec<String>,
    pub unjudged: u64,
    pub checks: u64,
    pub known_trigger: bool,
    /// detail of the attributed deviation (shown when the attribution is not accepted)
    pub fail_detail: Option<String>,
}

#[derive(Default)]
pub struct Stats {
    pub evaluations: u64,
    pub nontrivial: HashSet<u64>,
    pub samples: Vec<Value>,
    pub nt_samples: Vec<Value>,
    pub classes: BTreeMap<String, u64>,
    pub known_hits: BTreeMap<String, u64>,
    pub cases_with_known_trigger: u64,
    pub unjudged: u64,
    pub oracle_checks: u64,
    pub failed: bool,
}

pub struct Ctx {
    pub id: String,
    pub tier: Tier,
    pub seed: u64,
    pub strict: Option<String>,
    pub stats: Mutex<Stats>,
    pub violations: Mutex<Vec<(String, String)>>,
    pub known_lines: Mutex<Vec<String>>,
    pub notes: Mutex<Vec<String>>,
    pub extra: Mutex<BTreeMap<String, Value>>,
    pub start: Instant,
    pub exhaustive: Mutex<bool>,
    pub known: Vec<KnownFinding>,
    /// sessions that ended in a bare watchdog / infrastructure trouble (never a verdict)
    pub inconclusive: std::sync::atomic::AtomicU64,
}

pub fn fnv(s: &str) -> u64 {
    let mut h: u64 = 0xcbf29ce484222325;
    for b in s.bytes() {
        h ^= b as u64;
        h = h.wrapping_mul(0x100000001b3);
    }
    h
}

pub fn hash_json<T: Serialize>(v: &T) -> u64 {
    let s = serde_json::to_string(v).unwrap_or_default();
    let mut h = DefaultHasher::new();
    s.hash(&mut h);
    h.finish()
}

impl Ctx {
    pub fn new(id: &str, tier: Tier, seed: u64) -> Ctx {
        Ctx {
            id: id.to_string(),
            tier,
            seed,
            strict: std::env::var("VERIF_STRICT").ok().filter(|v| !v.is_empty() && v != "0"),
            stats: Mutex::new(Stats::default()),
            violations: Mutex::new(Vec::new()),
            known_lines: Mutex::new(Vec::new()),
            notes: Mutex::new(Vec::new()),
            extra: Mutex::new(BTreeMap::new()),
            start: Instant::now(),
            exhaustive: Mutex::new(false),
            known: load_known(),
            inconclusive: std::sync::atomic::AtomicU64::new(0),
        }
    }

    /// Findings are tolerated only when the committed file lists them as "known".
    pub fn gate(&self, out: Outcome) -> Outcome {
        match out {
            Outcome::Known(ks) => {
                if let Some(s) = &self.strict {
                    if s == "1" || ks.iter().any(|k| k == s) {
                        return Outcome::Fail(format!("(strict mode) attributed to finding(s) {:?}", ks));
                    }
                }
                let unlisted: Vec<&String> = ks.iter().filter(|k| !is_listed_known(&self.known, k)).collect();
                if unlisted.is_empty() {
                    Outcome::Known(ks)
                } else {
                    Outcome::Fail(format!("deviation matching signature(s) {:?}, which known_findings.json does not list as known", unlisted))
                }
            }
            o => o,
        }
    }

    pub fn note(&self, s: impl Into<String>) {
        self.notes.lock().unwrap().push(s.into());
    }

    pub fn set_extra(&self, k: &str, v: Value) {
        self.extra.lock().unwrap().insert(k.to_string(), v);
    }

    /// Record one executed case (used by both the proptest path and hand-rolled enumerations).
    pub fn record<T: Serialize>(&self, case: &T, info: &CaseInfo, outcome: &Outcome) {
        let mut st = self.stats.lock().unwrap();
        if st.failed {
            return; // shrinking re-runs are not counted
        }
        st.evaluations += 1;
        st.unjudged += info.unjudged;
        st.oracle_checks += info.checks;
        if info.known_trigger {
            st.cases_with_known_trigger += 1;
        }
        for c in &info.classes {
            *st.classes.entry(c.clone()).or_insert(0) += 1;
        }
        if info.nontrivial {
            let h = hash_json(case);
            if st.nontrivial.insert(h) && st.nt_samples.len() < 3 {
                st.nt_samples.push(serde_json::to_value(case).unwrap_or(Value::Null));
            }
        } else if st.samples.len() < 1 {
            st.samples.push(serde_json::to_value(case).unwrap_or(Value::Null));
        }
        match outcome {
            Outcome::Ok => {}
            Outcome::Known(ks) => {
                for k in ks {
                    *st.known_hits.entry(k.clone()).or_insert(0) += 1;
                }
            }
            Outcome::Fail(_) => {
                st.failed = true;
            }
        }
    }

    pub fn violation<T: Serialize>(&self, sub: &str, case: &T, msg: &str) {
        let v = json!({"property": self.id, "sub": sub, "message": msg, "case": case});
        let h = hash_json(&v);
        let dir = format!("{}/replays", VERIF_DIR);
        let _ = std::fs::create_dir_all(&dir);
        let path = format!("{}/{}-{}-{:016x}.json", dir, self.id, sub, h);
        let _ = std::fs::write(&path, serde_json::to_string_pretty(&v).unwrap());
        println!("VIOLATION property={} replay={}", self.id, path);
        println!("  sub-check: {}", sub);
        for l in msg.lines().take(40) {
            println!("  {}", l);
        }
        self.violations.lock().unwrap().push((msg.to_string(), path));
    }

    pub fn known_line(&self, what: &str) {
        let line = format!("KNOWN-FINDING: property={} {}", self.id, what);
        let mut kl = self.known_lines.lock().unwrap();
        if !kl.contains(&line) {
            println!("{}", line);
            kl.push(line);
        }
    }

    /// Run a property over `cases` generated values, split over `threads` runners.
    pub fn run_prop<S, M, F>(&self, sub: &str, cases: u32, threads: u32, mk: M, test: F)
    where
        S: Strategy,
        M: Fn() -> S + Sync,
        S::Value: Serialize + Clone + std::fmt::Debug + Send,
        F: Fn(&S::Value, &mut CaseInfo) -> Outcome + Sync,
    {
        self.run_prop_shrink(sub, cases, threads, 4000, mk, test)
    }

    /// as run_prop with an explicit bound on shrink iterations (expensive cases: server sessions)
    pub fn run_prop_shrink<S, M, F>(&self, sub: &str, cases: u32, threads: u32, shrink_iters: u32, mk: M, test: F)
    where
        S: Strategy,
        M: Fn() -> S + Sync,
        S::Value: Serialize + Clone + std::fmt::Debug + Send,
        F: Fn(&S::Value, &mut CaseInfo) -> Outcome + Sync,
    {
        let threads = threads.max(1);
        let per = (cases + threads - 1) / threads;
        let fail: Mutex<Option<(S::Value, String)>> = Mutex::new(None);
        std::thread::scope(|sc| {
            for t in 0..threads {
                let mk = &mk;
                let test = &test;
                let fail = &fail;
                let sub = sub.to_string();
                sc.spawn(move || {
                    let seed = self.seed ^ fnv(&format!("{}/{}/{}", self.id, sub, t));
                    let cfg = Config {
                        cases: per,
                        failure_persistence: None,
                        rng_seed: RngSeed::Fixed(seed),
                        max_shrink_iters: shrink_iters,
                        max_global_rejects: 100_000,
                        ..Config::default()
                    };
                    let mut runner = TestRunner::new(cfg);
                    let strategy = mk();
                    let res = runner.run(&strategy, |case| {
                        let mut info = CaseInfo::default();
                        let out = std::panic::catch_unwind(std::panic::AssertUnwindSafe(|| test(&case, &mut info)))
                            .unwrap_or_else(|e| {
                                let m = if let Some(s) = e.downcast_ref::<String>() {
                                    s.clone()
                                } else if let Some(s) = e.downcast_ref::<&str>() {
                                    s.to_string()
                                } else {
                                    "panic".to_string()
                                };
                                Outcome::Fail(format!("PANIC: {}", m))
                            });
                        let out = match (out, info.fail_detail.take()) {
                            (Outcome::Known(ks), Some(d)) => match self.gate(Outcome::Known(ks)) {
                                Outcome::Fail(m) => Outcome::Fail(format!("{}\n{}", m, d)),
                                o => o,
                            },
                            (o, _) => self.gate(o),
                        };
                        self.record(&case, &info, &out);
                        match out {
                            Outcome::Fail(m) => Err(TestCaseError::fail(m)),
                            _ => Ok(()),
                        }
                    });
                    if let Err(TestError::Fail(reason, value)) = res {
                        let mut f = fail.lock().unwrap();
                        if f.is_none() {
                            *f = Some((value, reason.message().to_string()));
                        }
                    } else if let Err(TestError::Abort(r)) = res {
                        self.note(format!("{}: runner aborted: {}", sub, r.message()));
                    }
                });
            }
        });
        if let Some((value, msg)) = fail.into_inner().unwrap() {
            self.violation(sub, &value, &msg);
        }
    }

    /// Run a property over an explicitly enumerated (finite, small by construction) list of cases.
    /// No shrinking: the first failing case (in list order per worker) is the replay.
    #[allow(dead_code)]
    pub fn run_enum<T, F>(&self, sub: &str, items: Vec<T>, threads: usize, test: F)
    where
        T: Serialize + Clone + Send + Sync,
        F: Fn(&T, &mut CaseInfo) -> Outcome + Sync,
    {
        let threads = threads.max(1);
        let fail: Mutex<Option<(usize, T, String)>> = Mutex::new(None);
        let chunk = (items.len() + threads - 1) / threads.max(1);
        std::thread::scope(|sc| {
            for (t, part) in items.chunks(chunk.max(1)).enumerate() {
                let test = &test;
                let fail = &fail;
                sc.spawn(move || {
                    for (k, case) in part.iter().enumerate() {
                        if fail.lock().unwrap().is_some() {
                            return;
                        }
                        let mut info = CaseInfo::default();
                        let out = std::panic::catch_unwind(std::panic::AssertUnwindSafe(|| test(case, &mut info))).unwrap_or_else(|_| Outcome::Fail("PANIC".to_string()));
                        let out = match (out, info.fail_detail.take()) {
                            (Outcome::Known(ks), Some(d)) => match self.gate(Outcome::Known(ks)) {
                                Outcome::Fail(m) => Outcome::Fail(format!("{}\n{}", m, d)),
                                o => o,
                            },
                            (o, _) => self.gate(o),
                        };
                        self.record(case, &info, &out);
                        if let Outcome::Fail(m) = out {
                            let mut f = fail.lock().unwrap();
                            let idx = t * chunk + k;
                            if f.as_ref().map(|x| idx < x.0).unwrap_or(true) {
                                *f = Some((idx, case.clone(), m));
                            }
                            return;
                        }
                    }
                });
            }
        });
        if let Some((_, value, msg)) = fail.into_inner().unwrap() {
            self.violation(sub, &value, &msg);
        }
    }

    /// Draw `n` values from a strategy deterministically (no shrinking); for sampled tiers that
    /// drive external processes.
    pub fn sample<S: Strategy>(&self, sub: &str, n: usize, strategy: &S) -> Vec<S::Value> {
        let seed = self.seed ^ fnv(&format!("{}/{}/sample", self.id, sub));
        let cfg = Config { failure_persistence: None, rng_seed: RngSeed::Fixed(seed), ..Config::default() };
        let mut runner = TestRunner::new(cfg);
        let mut out = Vec::new();
        for _ in 0..n {
            if let Ok(t) = strategy.new_tree(&mut runner) {
                out.push(t.current());
            }
        }
        out
    }

    /// Shrink a failing value by hand for sampled (non-proptest-run) tiers.
    pub fn shrink_with<S, F>(&self, sub: &str, strategy: &S, index: usize, still_fails: F) -> Option<S::Value>
    where
        S: Strategy,
        F: Fn(&S::Value) -> bool,
    {
        let seed = self.seed ^ fnv(&format!("{}/{}/sample", self.id, sub));
        let cfg = Config { failure_persistence: None, rng_seed: RngSeed::Fixed(seed), ..Config::default() };
        let mut runner = TestRunner::new(cfg);
        let mut tree = None;
        for _ in 0..=index {
            tree = strategy.new_tree(&mut runner).ok();
        }
        let mut tree = tree?;
        let mut best = tree.current();
        let mut iters = 0;
        while iters < 200 {
            iters += 1;
            if !tree.simplify() {
                break;
            }
            loop {
                let cur = tree.current();
                if still_fails(&cur) {
                    best = cur;
                    break;
                }
                if !tree.complicate() {
                    break;
                }
                iters += 1;
                if iters >= 200 {
                    break;
                }
            }
        }
        Some(best)
    }

    pub fn finish(&self, rule: &str, assumptions: &[&str]) -> i32 {
        let st = self.stats.lock().unwrap();
        let viol = self.violations.lock().unwrap();
        let mut samples: Vec<Value> = st.nt_samples.clone();
        samples.extend(st.samples.iter().cloned());
        if samples.is_empty() {
            samples.push(json!("no case executed"));
        }
        let mut coverage = json!({
            "evaluations": st.evaluations,
            "distinct_nontrivial": st.nontrivial.len(),
            "rule": rule,
            "samples": samples,
            "classes": st.classes,
            "known_findings_hit": st.known_hits,
            "cases_with_known_trigger": st.cases_with_known_trigger,
            "unjudged_observations": st.unjudged,
            "oracle_comparisons": st.oracle_checks,
            "known_finding_lines": *self.known_lines.lock().unwrap(),
            "notes": *self.notes.lock().unwrap(),
            "exhaustive": *self.exhaustive.lock().unwrap(),
            "inconclusive_sessions": self.inconclusive.load(std::sync::atomic::Ordering::SeqCst),
        });
        for (k, v) in self.extra.lock().unwrap().iter() {
            coverage[k] = v.clone();
        }
        let ev = json!({
            "property_id": self.id,
            "tier": self.tier.as_str(),
            "seed": self.seed,
            "level": "exploration",
            "coverage": coverage,
            "assumptions": assumptions,
            "wall_s": self.start.elapsed().as_secs_f64(),
            "violations": viol.len(),
        });
        let dir = format!("{}/evidence", VERIF_DIR);
        let _ = std::fs::create_dir_all(&dir);
        let _ = std::fs::write(format!("{}/{}.json", dir, self.id), serde_json::to_string_pretty(&ev).unwrap());
        println!(
            "[{}] tier={} seed={} evaluations={} distinct_nontrivial={} known_hits={:?} unjudged={} violations={} wall={:.1}s",
            self.id,
            self.tier.as_str(),
            self.seed,
            st.evaluations,
            st.nontrivial.len(),
            st.known_hits,
            st.unjudged,
            viol.len(),
            self.start.elapsed().as_secs_f64()
        );
        let inc = self.inconclusive.load(std::sync::atomic::Ordering::SeqCst);
        if !viol.is_empty() {
            1
        } else if inc > 0 {
            println!("[{}] INCONCLUSIVE: {} session(s) hit the watchdog without evidence of a defect", self.id, inc);
            2
        } else if st.evaluations == 0 || st.nontrivial.len() < 2 {
            println!("[{}] INCONCLUSIVE: vacuous run (evaluations={}, nontrivial={})", self.id, st.evaluations, st.nontrivial.len());
            2
        } else {
            0
        }
    }
}

// ---------------------------------------------------------------------------------------------
// Known findings file and the replay tier
// ---------------------------------------------------------------------------------------------

#[derive(Clone, Debug, serde::Deserialize, Serialize)]
pub struct KnownFinding {
    pub id: String,
    pub property: String,
    /// "known" or "fixed"
    pub status: String,
    pub what: String,
    #[serde(default)]
    pub signature: String,
    #[serde(default)]
    pub example: Option<String>,
    #[serde(default)]
    pub commit: Option<String>,
    #[serde(default)]
    pub line: Option<String>,
}

pub fn load_known() -> Vec<KnownFinding> {
    let p = format!("{}/known_findings.json", VERIF_DIR);
    match std::fs::read_to_string(&p) {
        Ok(s) => serde_json::from_str::<Value>(&s)
            .ok()
            .and_then(|v| v.get("findings").cloned())
            .and_then(|v| serde_json::from_value(v).ok())
            .unwrap_or_default(),
        Err(_) => Vec::new(),
    }
}

pub struct Replay {
    pub sub: String,
    pub case: Value,
    pub path: String,
}

pub fn load_replay(path: &str) -> Option<Replay> {
    let s = std::fs::read_to_string(path).ok()?;
    let v: Value = serde_json::from_str(&s).ok()?;
    Some(Replay { sub: v.get("sub")?.as_str()?.to_string(), case: v.get("case")?.clone(), path: path.to_string() })
}

pub fn committed_replays(id: &str) -> Vec<Replay> {
    let dir = format!("{}/replays/committed/{}", VERIF_DIR, id);
    let mut v = Vec::new();
    if let Ok(rd) = std::fs::read_dir(&dir) {
        let mut paths: Vec<_> = rd.flatten().map(|e| e.path()).collect();
        paths.sort();
        for p in paths {
            if p.extension().and_then(|e| e.to_str()) == Some("json") {
                if let Some(r) = load_replay(&p.to_string_lossy()) {
                    v.push(r);
                }
            }
        }
    }
    v
}

/// Judge one replayed case. `judge` maps (sub, case json) to an Outcome (None = unknown sub).
/// Returns true when the replay produced a violation.
pub fn run_replay_tier(ctx: &Ctx, judge: &dyn Fn(&str, &Value) -> Option<Outcome>) {
    let known = load_known();
    for r in committed_replays(&ctx.id) {
        let rel = r.path.strip_prefix(&format!("{}/", VERIF_DIR)).unwrap_or(&r.path).to_string();
        let owner = known.iter().find(|k| k.example.as_deref() == Some(rel.as_str()));
        let out = std::panic::catch_unwind(std::panic::AssertUnwindSafe(|| judge(&r.sub, &r.case)))
            .unwrap_or_else(|_| Some(Outcome::Fail("PANIC while replaying".to_string())));
        let Some(out) = out else {
            ctx.note(format!("replay {} has unknown sub-check {}", rel, r.sub));
            continue;
        };
        {
            let mut st = ctx.stats.lock().unwrap();
            st.evaluations += 1;
        }
        match (owner, out) {
            (_, Outcome::Ok) => {}
            (Some(k), Outcome::Known(ks)) if k.status == "known" && ks.contains(&k.id) => {
                ctx.known_line(&k.what);
                let mut st = ctx.stats.lock().unwrap();
                *st.known_hits.entry(k.id.clone()).or_insert(0) += 1;
            }
            (Some(k), Outcome::Known(ks)) => {
                // a fixed entry (or a different finding) reproduced: that is a violation again
                ctx.violation(&r.sub, &r.case, &format!("regression replay {} reproduces finding(s) {:?} (entry {} has status {})", rel, ks, k.id, k.status));
            }
            (None, Outcome::Known(ks)) => {
                // replay without an owner: listed findings are tolerated, but say so
                for kid in ks {
                    if let Some(k) = known.iter().find(|k| k.id == kid && k.status == "known") {
                        ctx.known_line(&k.what);
                    } else {
                        ctx.violation(&r.sub, &r.case, &format!("replay {} reproduces unlisted or fixed finding {}", rel, kid));
                    }
                }
            }
            (_, Outcome::Fail(m)) => {
                ctx.violation(&r.sub, &r.case, &format!("regression replay {} fails: {}", rel, m));
            }
        }
    }
}

pub fn from_case<T: DeserializeOwned>(v: &Value) -> Option<T> {
    serde_json::from_value(v.clone()).ok()
}

/// Is this finding id listed with status "known"?
pub fn is_listed_known(known: &[KnownFinding], id: &str) -> bool {
    known.iter().any(|k| k.id == id && k.status == "known")
}
