//! Materialising a WorkspaceSpec on disk (under /dev/shm) including a synthetic virtualenv so that
//! plugin / third-party files are discovered by the real scanner. Removed on drop.

use crate::render::render;
use crate::spec::*;
use std::path::Path;
use std::sync::atomic::{AtomicUsize, Ordering};

static COUNTER: AtomicUsize = AtomicUsize::new(0);

pub struct DiskWs {
    pub base: String,
    pub root: String,
    pub plugin_dir: String,
    pub tp_dir: String,
}

impl DiskWs {
    /// `prefix`: extra path components between the scratch base and the project root
    /// (e.g. "build/x" to place the workspace below a directory named like an ignored one).
    pub fn create(ws: &WorkspaceSpec, prefix: &str, pyproject: Option<&str>) -> std::io::Result<DiskWs> {
        Self::create_layout(ws, prefix, pyproject, &[], &[])
    }

    /// `tp_layout[n]` / `plug_layout[n]` select the metadata layout of third-party file n / plugin n:
    /// tp: 0 dist-info + module target, 1 dist-info + package target, 2 egg-info, 3 `module:attr`,
    ///     4 several groups and entries; plug: 0 `__editable__.<n>-1.0.pth`, 1 `_<n>.pth`, 2 `<n>.pth`.
    /// ThirdParty(n >= 10) is an editable install whose source lives OUTSIDE the workspace;
    /// ThirdParty(20) is pytest's own `_pytest` package.
    pub fn create_layout(ws: &WorkspaceSpec, prefix: &str, pyproject: Option<&str>, tp_layout: &[u8], plug_layout: &[u8]) -> std::io::Result<DiskWs> {
        let n = COUNTER.fetch_add(1, Ordering::SeqCst);
        let base = format!("/dev/shm/verif-{}-{}", std::process::id(), n);
        let root = if prefix.is_empty() { format!("{}/proj", base) } else { format!("{}/{}/proj", base, prefix) };
        let d = DiskWs {
            base,
            plugin_dir: format!("{}/plugsrc", root),
            tp_dir: format!("{}/.venv/lib/python3.11/site-packages", root),
            root,
        };
        std::fs::create_dir_all(&d.root)?;
        for f in &ws.files {
            let p = d.path(&f.loc);
            if let Some(parent) = Path::new(&p).parent() {
                std::fs::create_dir_all(parent)?;
            }
            std::fs::write(&p, render(f).text)?;
            match f.loc.kind {
                FileKind::ThirdParty(20) => {}
                FileKind::ThirdParty(n) if n >= 10 => {
                    std::fs::create_dir_all(&d.tp_dir)?;
                    let outside = format!("{}/outside", d.base);
                    let di = format!("{}/xplug{}-2.0.dist-info", d.tp_dir, n);
                    std::fs::create_dir_all(&di)?;
                    std::fs::write(format!("{}/entry_points.txt", di), format!("[pytest11]\nxplug{} = xplug{}\n", n, n))?;
                    std::fs::write(format!("{}/direct_url.json", di), format!("{{\"url\": \"file://{}\", \"dir_info\": {{\"editable\": true}}}}", outside))?;
                    std::fs::write(format!("{}/__editable__.xplug{}-2.0.pth", d.tp_dir, n), format!("{}\n", outside))?;
                }
                FileKind::ThirdParty(n) => {
                    let lay = tp_layout.get(n as usize).copied().unwrap_or(0) % 5;
                    let di = if lay == 2 { format!("{}/tp{}-1.0.egg-info", d.tp_dir, n) } else { format!("{}/tp{}-1.0.dist-info", d.tp_dir, n) };
                    std::fs::create_dir_all(&di)?;
                    let ep = match lay {
                        1 => format!("[pytest11]\ntp{} = tp{}\n", n, n),
                        3 => format!("[pytest11]\ntp{} = tp{}.plugin:hook\n", n, n),
                        4 => format!("[console_scripts]\nx = y:z\n\n[pytest11]\n# comment\nbogus = not_there.mod\ntp{} = tp{}.plugin\n\n[other]\na = b\n", n, n),
                        _ => format!("[console_scripts]\nx = y:z\n\n[pytest11]\ntp{} = tp{}.plugin\n", n, n),
                    };
                    std::fs::write(format!("{}/entry_points.txt", di), ep)?;
                    std::fs::write(format!("{}/tp{}/__init__.py", d.tp_dir, n), "")?;
                }
                FileKind::Plugin(n) => {
                    std::fs::create_dir_all(&d.tp_dir)?;
                    let lay = plug_layout.get(n as usize).copied().unwrap_or(0) % 3;
                    let di = format!("{}/plug{}-1.0.dist-info", d.tp_dir, n);
                    std::fs::create_dir_all(&di)?;
                    std::fs::write(format!("{}/entry_points.txt", di), format!("[pytest11]\nplug{} = plug{}\n", n, n))?;
                    std::fs::write(
                        format!("{}/direct_url.json", di),
                        format!("{{\"url\": \"file://{}\", \"dir_info\": {{\"editable\": true}}}}", d.plugin_dir),
                    )?;
                    let pth = match lay {
                        0 => format!("__editable__.plug{}-1.0.pth", n),
                        1 => format!("_plug{}.pth", n),
                        _ => format!("plug{}.pth", n),
                    };
                    std::fs::write(format!("{}/{}", d.tp_dir, pth), format!("# editable\nimport sys\n{}\n", d.plugin_dir))?;
                }
                _ => {}
            }
        }
        if let Some(pp) = pyproject {
            std::fs::write(format!("{}/pyproject.toml", d.root), pp)?;
        }
        Ok(d)
    }

    pub fn path(&self, loc: &FileLoc) -> String {
        match loc.kind {
            FileKind::ThirdParty(20) => format!("{}/_pytest/fixtures.py", self.tp_dir),
            FileKind::ThirdParty(n) if n >= 10 => format!("{}/outside/xplug{}.py", self.base, n),
            _ => loc.path_under(&self.root, &self.plugin_dir, &self.tp_dir),
        }
    }
}

impl Drop for DiskWs {
    fn drop(&mut self) {
        let _ = std::fs::remove_dir_all(&self.base);
    }
}

/// remove scratch directories left behind by killed runs of this harness (older than the current process)
pub fn sweep_stale() {
    if let Ok(rd) = std::fs::read_dir("/dev/shm") {
        for e in rd.flatten() {
            let n = e.file_name().to_string_lossy().to_string();
            if let Some(rest) = n.strip_prefix("verif-") {
                let pid: u32 = rest.split('-').next().and_then(|p| p.parse().ok()).unwrap_or(0);
                if pid != 0 && pid != std::process::id() && !Path::new(&format!("/proc/{}", pid)).exists() {
                    let _ = std::fs::remove_dir_all(e.path());
                }
            }
        }
    }
}
