//! Grammar-based generator of pytest-style Python modules (for C03 / C15 / C11): every decorator
//! spelling and argument form, async, generators with yield in nested blocks, annotation forms,
//! docstring layouts, class nesting, parameter kinds, marks at function / class / module level,
//! and noise that must produce nothing. Rendering is valid Python by construction.

use proptest::collection::vec;
use proptest::prelude::*;
use serde::{Deserialize, Serialize};

pub const PNAMES: [&str; 7] = ["alpha", "bravo", "carol", "delta", "echo", "request", "donn\u{00e9}es"];
pub const ANNS: [&str; 6] = ["int", "str", "db.Conn", "List[int]", "Optional[str]", "\"Fwd\""];
pub const DEFAULTS: [&str; 4] = ["None", "1", "\"x\"", "()"];
pub const SCOPES: [&str; 5] = ["function", "class", "module", "package", "session"];
/// return annotations: (text, yields-wrapper?)
pub const RETS: [&str; 14] = [
    "int",
    "db.Conn",
    "List[int]",
    "Dict[str, int]",
    "int | None",
    "Optional[db.Conn]",
    "\"Fwd\"",
    "None",
    "Generator[int, None, None]",
    "Iterator[db.Conn]",
    "AsyncGenerator[Dict[str, int], None]",
    "Generator[\"Fwd\", None, None]",
    "typing.Generator[int | None, None, None]",
    "Iterator[List[Optional[int]]]",
];

#[derive(Clone, Debug, Serialize, Deserialize, PartialEq)]
pub struct PParam {
    pub name: usize,
    /// 0 positional-only, 1 normal, 2 keyword-only
    pub kind: u8,
    pub ann: Option<u8>,
    pub default: Option<u8>,
}

#[derive(Clone, Debug, Serialize, Deserialize, PartialEq)]
pub enum PDeco {
    Fixture {
        /// 0 pytest.fixture, 1 fixture, 2 pytest_asyncio.fixture
        spelling: u8,
        called: bool,
        name: Option<u8>,
        scope: Option<u8>,
        autouse: Option<bool>,
        /// extra keyword that must be ignored (params=[...], ids=...)
        extra_kw: bool,
    },
    Usefixtures {
        names: Vec<usize>,
        /// 0 pytest.mark.usefixtures, 1 mark.usefixtures
        spelling: u8,
        /// string literal form, see `StrForm`
        form: u8,
        multiline: bool,
    },
    Parametrize {
        argnames: Vec<usize>,
        /// 0 indirect=True, 1 indirect=[subset], 2 indirect=False, 3 absent
        indirect: u8,
        subset_mask: u8,
        form: u8,
    },
    /// decorators that mean nothing here
    Other(u8),
}

#[derive(Clone, Debug, Serialize, Deserialize, PartialEq)]
pub enum PBody {
    Return,
    Pass,
    /// yield placed inside these nested blocks (outermost first):
    /// 0 if, 1 else, 2 for, 3 while, 4 with, 5 async with, 6 try-body, 7 except, 8 try-else, 9 finally, 10 async for
    /// form: 0 `yield v`, 1 `x = yield v`, 2 `yield from g()`, 3 bare `yield`, 4 `await (yield)`-free: `print((yield v))`
    Yield { blocks: Vec<u8>, form: u8, second_yield: bool },
    /// a yield that belongs to a nested function / lambda: NOT a generator
    NestedYield(u8),
}

#[derive(Clone, Debug, Serialize, Deserialize, PartialEq)]
pub struct PFunc {
    /// index into the role-specific name pool
    pub name: u8,
    /// 0 fixture-ish name (fx_*), 1 test name (test_*), 2 helper name
    pub role: u8,
    pub is_async: bool,
    pub decos: Vec<PDeco>,
    pub params: Vec<PParam>,
    pub ret: Option<u8>,
    /// docstring layout: 0 one-line, 1 summary + indented block, 2 starts on the next line,
    /// 3 single quotes one-liner, 4 raw prefix, 5 with blank lines and deeper indentation, 6 empty string
    pub doc: Option<u8>,
    /// layout 7: generated docstring lines (indentation choice, kind) - text lines at the base
    /// indentation plus 0/2/4/6 columns, empty lines, whitespace-only lines shorter / longer than the
    /// margin, a lone tab
    #[serde(default)]
    pub doc_lines: Vec<(u8, u8)>,
    pub body: PBody,
    /// 0 single line, 1 one parameter per line + trailing comma, 2 per line no trailing comma, 3 hanging indent
    pub sig: u8,
    /// body statements mentioning names (calls / attribute access)
    pub body_uses: Vec<usize>,
}

#[derive(Clone, Debug, Serialize, Deserialize, PartialEq)]
pub enum PItem {
    Func(PFunc),
    Class { name: u8, decos: Vec<PDeco>, body: Vec<PFunc>, nested: Option<Vec<PFunc>> },
    /// form: 0 plain call, 1 list, 2 tuple, 3 annotated list, 4 annotated without value, 5 list with non-usefixtures marks
    Pytestmark { form: u8, names: Vec<usize>, strform: u8 },
    /// x = pytest.fixture(...)(func): spelling, kwargs
    AssignFixture { target: u8, spelling: u8, name_kw: Option<u8>, scope_kw: Option<u8>, autouse_kw: bool },
    /// 0 helper function with fixture-looking params, 1 plain class with methods, 2 comment block,
    /// 3 string constant, 4 fixture inside `if` (documented limitation: nothing), 5 nested def inside helper,
    /// 6 `x = pytest.fixture` (no call), 7 function call statement
    Noise(u8),
}

#[derive(Clone, Debug, Serialize, Deserialize, PartialEq)]
pub struct PModule {
    pub items: Vec<PItem>,
    /// text decorations: bit0 CRLF line ends, bit1 tabs for indentation, bit2 non-ASCII comment prefix lines,
    /// bit3 non-ASCII text before tokens (string/comment on the same line is impossible; uses identifiers)
    pub deco_bits: u8,
    /// 0 usual import block, 1 nothing before the first item, 2 one blank line, 3 two blank lines,
    /// 4 a comment line, 5 a module docstring
    #[serde(default)]
    pub header: u8,
    /// how the document reaches its final text (read by C15 only): 0 opened once; 1 an earlier version with a blank
    /// line on the other side of the module was opened first; 2 the same inside a document of more than 4 KiB whose
    /// first and last 2 KiB and length do not change; 3 an unrelated earlier version of the same length class
    #[serde(default)]
    pub prior: u8,
}

#[derive(Clone, Debug)]
pub struct PyGenCfg {
    /// string-literal forms other than plain quotes in marks
    pub string_forms: bool,
    pub multiline: bool,
    pub decorations: bool,
    pub body_uses: bool,
}

fn param(cfg: &PyGenCfg) -> impl Strategy<Value = PParam> {
    (
        0usize..(if cfg.decorations { PNAMES.len() } else { PNAMES.len() - 1 }),
        prop_oneof![1 => Just(0u8), 6 => Just(1u8), 2 => Just(2u8)],
        prop_oneof![3 => Just(None), 1 => (0u8..ANNS.len() as u8).prop_map(Some)],
        prop_oneof![5 => Just(None), 1 => (0u8..DEFAULTS.len() as u8).prop_map(Some)],
    )
        .prop_map(|(name, kind, ann, default)| PParam { name, kind, ann, default })
}

fn names_vec(max: usize) -> impl Strategy<Value = Vec<usize>> {
    names_vec_cfg(max, false)
}

fn names_vec_cfg(max: usize, non_ascii: bool) -> impl Strategy<Value = Vec<usize>> {
    let pick = if non_ascii { prop_oneof![6 => 0usize..5, 1 => Just(6usize)].boxed() } else { (0usize..5).boxed() };
    vec(pick, 1..=max).prop_map(|mut v| {
        let mut seen = vec![];
        v.retain(|x| {
            if seen.contains(x) {
                false
            } else {
                seen.push(*x);
                true
            }
        });
        v
    })
}

fn strform(cfg: &PyGenCfg) -> BoxedStrategy<u8> {
    if cfg.string_forms {
        prop_oneof![4 => Just(0u8), 2 => Just(1u8), 1 => Just(2u8), 1 => Just(3u8), 1 => Just(4u8), 1 => Just(5u8)].boxed()
    } else {
        prop_oneof![3 => Just(0u8), 1 => Just(1u8)].boxed()
    }
}

fn deco_fixture() -> impl Strategy<Value = PDeco> {
    (
        prop_oneof![5 => Just(0u8), 2 => Just(1u8), 1 => Just(2u8)],
        any::<bool>(),
        prop_oneof![5 => Just(None), 1 => (0u8..4).prop_map(Some)],
        prop_oneof![3 => Just(None), 2 => (0u8..5).prop_map(Some)],
        prop_oneof![4 => Just(None), 1 => any::<bool>().prop_map(Some)],
        prop_oneof![5 => Just(false), 1 => Just(true)],
    )
        .prop_map(|(spelling, called, name, scope, autouse, extra_kw)| PDeco::Fixture { spelling, called, name, scope, autouse, extra_kw })
}

fn deco_usefixtures(cfg: &PyGenCfg) -> impl Strategy<Value = PDeco> {
    let ml = cfg.multiline;
    (names_vec_cfg(3, cfg.decorations), 0u8..2, strform(cfg), any::<bool>()).prop_map(move |(names, spelling, form, m)| PDeco::Usefixtures { names, spelling, form, multiline: ml && m })
}

fn deco_parametrize(cfg: &PyGenCfg) -> impl Strategy<Value = PDeco> {
    (names_vec_cfg(3, cfg.decorations), prop_oneof![3 => Just(0u8), 3 => Just(1u8), 1 => Just(2u8), 1 => Just(3u8)], any::<u8>(), strform(cfg))
        .prop_map(|(argnames, indirect, subset_mask, form)| PDeco::Parametrize { argnames, indirect, subset_mask, form })
}

fn body() -> impl Strategy<Value = PBody> {
    prop_oneof![
        4 => Just(PBody::Return),
        1 => Just(PBody::Pass),
        6 => (vec(0u8..13, 0..=3), prop_oneof![5 => Just(0u8), 2 => Just(1u8), 1 => Just(2u8), 1 => Just(3u8), 1 => Just(4u8)], prop_oneof![4 => Just(false), 1 => Just(true)])
            .prop_map(|(blocks, form, second_yield)| PBody::Yield { blocks, form, second_yield }),
        1 => (0u8..2).prop_map(PBody::NestedYield),
    ]
}

pub fn func(cfg: &PyGenCfg, role: u8) -> BoxedStrategy<PFunc> {
    let decos = match role {
        0 => vec(prop_oneof![1 => deco_usefixtures(cfg), 1 => (0u8..4).prop_map(PDeco::Other)], 0..=1)
            .prop_flat_map(|others| (Just(others), deco_fixture(), any::<bool>()))
            .prop_map(|(mut others, fx, first)| {
                if first {
                    others.insert(0, fx);
                } else {
                    others.push(fx);
                }
                others
            })
            .boxed(),
        1 => vec(prop_oneof![3 => deco_usefixtures(cfg), 3 => deco_parametrize(cfg), 1 => (0u8..4).prop_map(PDeco::Other)], 0..=2).boxed(),
        _ => vec(prop_oneof![1 => deco_usefixtures(cfg), 2 => (0u8..4).prop_map(PDeco::Other)], 0..=1).boxed(),
    };
    let sig = if cfg.multiline { prop_oneof![3 => Just(0u8), 1 => Just(1u8), 1 => Just(2u8), 1 => Just(3u8)].boxed() } else { Just(0u8).boxed() };
    let uses = if cfg.body_uses { prop_oneof![2 => Just(Vec::new()), 1 => names_vec(2)].boxed() } else { Just(Vec::new()).boxed() };
    (
        0u8..8,
        prop_oneof![4 => Just(false), 1 => Just(true)],
        decos,
        vec(param(cfg), 0..=4),
        prop_oneof![2 => Just(None), 3 => (0u8..RETS.len() as u8).prop_map(Some)],
        prop_oneof![4 => Just(None), 5 => (0u8..7).prop_map(Some), 3 => Just(Some(7u8))],
        vec((0u8..8, 0u8..7), 1..=6),
        body(),
        sig,
        uses,
    )
        .prop_map(move |(name, is_async, decos, params, ret, doc, doc_lines, body, sig, body_uses)| PFunc { name, role, is_async, decos, params, ret, doc, doc_lines: if doc == Some(7) { doc_lines } else { Vec::new() }, body, sig, body_uses })
        .boxed()
}

pub fn module(cfg: PyGenCfg) -> impl Strategy<Value = PModule> {
    let item = prop_oneof![
        6 => func(&cfg, 0).prop_map(PItem::Func),
        5 => func(&cfg, 1).prop_map(PItem::Func),
        1 => func(&cfg, 2).prop_map(PItem::Func),
        2 => (0u8..3, vec(deco_usefixtures(&cfg), 0..=1), vec(prop_oneof![3 => func(&cfg, 1), 2 => func(&cfg, 0), 1 => func(&cfg, 2)], 1..=3), prop_oneof![3 => Just(None), 1 => vec(func(&cfg, 1), 1..=2).prop_map(Some)])
            .prop_map(|(name, decos, body, nested)| PItem::Class { name, decos, body, nested }),
        1 => (0u8..6, names_vec(2), strform(&cfg)).prop_map(|(form, names, strform)| PItem::Pytestmark { form, names, strform }),
        1 => (0u8..3, 0u8..2, prop_oneof![4 => Just(None), 1 => (0u8..4).prop_map(Some)], prop_oneof![3 => Just(None), 1 => (0u8..5).prop_map(Some)], prop_oneof![5 => Just(false), 1 => Just(true)])
            .prop_map(|(target, spelling, name_kw, scope_kw, autouse_kw)| PItem::AssignFixture { target, spelling, name_kw, scope_kw, autouse_kw }),
        2 => (0u8..8).prop_map(PItem::Noise),
    ];
    let bits = if cfg.decorations { prop_oneof![3 => Just(0u8), 2 => 0u8..16].boxed() } else { Just(0u8).boxed() };
    let header = if cfg.decorations { prop_oneof![4 => Just(0u8), 3 => 1u8..6].boxed() } else { Just(0u8).boxed() };
    let prior = if cfg.decorations { prop_oneof![3 => Just(0u8), 1 => Just(1u8), 2 => Just(2u8), 1 => Just(3u8)].boxed() } else { Just(0u8).boxed() };
    (vec(item, 1..=6), bits, header, prior).prop_map(|(items, deco_bits, header, prior)| {
        let mut m = PModule { items, deco_bits, header, prior };
        normalise(&mut m);
        m
    })
}

/// make the module well formed: unique function names per scope, valid parameter lists
pub fn normalise(m: &mut PModule) {
    fn fix_func(f: &mut PFunc, used: &mut Vec<String>) {
        // unique parameter names; defaults only at the tail of the positional group
        let mut seen = vec![];
        f.params.retain(|p| {
            if seen.contains(&p.name) {
                false
            } else {
                seen.push(p.name);
                true
            }
        });
        f.params.sort_by_key(|p| p.kind);
        let mut had_default = false;
        for p in f.params.iter_mut().filter(|p| p.kind < 2) {
            if p.default.is_some() {
                had_default = true;
            } else if had_default {
                p.default = Some(0);
            }
        }
        // generators need a wrapper annotation to be interesting, but any combination is legal
        let mut n = f.name;
        loop {
            let nm = func_name(f.role, n);
            if !used.contains(&nm) {
                used.push(nm);
                break;
            }
            n = n.wrapping_add(1);
        }
        f.name = n;
        if let PBody::Yield { blocks, .. } = &mut f.body {
            // `else`(1) needs an `if`(0) just before it; except/else/finally need a try: rendering handles it
            blocks.truncate(3);
        }
        if !f.is_async {
            // `async with` / `async for` only inside async functions
            if let PBody::Yield { blocks, .. } = &mut f.body {
                for b in blocks.iter_mut() {
                    if *b == 5 {
                        *b = 4;
                    }
                    if *b == 10 {
                        *b = 2;
                    }
                }
            }
        } else if let PBody::Yield { form, .. } = &mut f.body {
            // `yield from` is not allowed in async functions
            if *form == 2 {
                *form = 0;
            }
        }
    }
    let mut used: Vec<String> = vec![];
    let mut class_names: Vec<u8> = vec![];
    let mut has_pm = false;
    let mut targets: Vec<u8> = vec![];
    m.items.retain_mut(|it| match it {
        PItem::Func(f) => {
            fix_func(f, &mut used);
            true
        }
        PItem::Class { name, body, nested, .. } => {
            while class_names.contains(name) {
                *name = name.wrapping_add(1);
            }
            class_names.push(*name);
            let mut u2: Vec<String> = vec![];
            for f in body.iter_mut() {
                fix_func(f, &mut u2);
            }
            if let Some(n) = nested {
                let mut u3: Vec<String> = vec![];
                for f in n.iter_mut() {
                    fix_func(f, &mut u3);
                }
            }
            true
        }
        PItem::Pytestmark { .. } => {
            if has_pm {
                false
            } else {
                has_pm = true;
                true
            }
        }
        PItem::AssignFixture { target, .. } => {
            if targets.contains(target) {
                false
            } else {
                targets.push(*target);
                true
            }
        }
        PItem::Noise(_) => true,
    });
}

pub fn func_name(role: u8, n: u8) -> String {
    match role {
        // fixture functions are often named like the parameters that request them
        0 if (n as usize) < 5 => PNAMES[n as usize].to_string(),
        // a fixture may carry the test prefix (real-world: `def test_env(tmpdir, temp_user)`): it stays a fixture
        0 if n % 8 == 7 => format!("test_env_{}", (b'a' + (n % 26)) as char),
        // names that also occur inside the `def` / `async def` keywords in front of them
        0 if n % 8 == 6 => "f".to_string(),
        0 if n % 8 == 5 => "sync".to_string(),
        0 => format!("fx_{}", (b'a' + (n % 26)) as char),
        1 => format!("test_{}", (b'a' + (n % 26)) as char),
        // near-misses of the test prefix must stay plain helpers
        _ if n % 3 == 0 => format!("testutil{}", (b'a' + (n % 26)) as char),
        _ if n % 3 == 1 => format!("Test_{}", (b'a' + (n % 26)) as char),
        _ => format!("helper_{}", (b'a' + (n % 26)) as char),
    }
}

fn quote(s: &str, form: u8) -> String {
    match form {
        0 => format!("\"{}\"", s),
        1 => format!("'{}'", s),
        2 => format!("\"\"\"{}\"\"\"", s),
        3 => format!("r\"{}\"", s),
        4 => format!("u'{}'", s),
        _ => {
            // implicit concatenation
            let k = s.len() / 2;
            format!("\"{}\" \"{}\"", &s[..k], &s[k..])
        }
    }
}

struct R {
    out: Vec<String>,
    tab: bool,
}

impl R {
    fn ind(&self, depth: usize) -> String {
        if self.tab {
            "\t".repeat(depth)
        } else {
            "    ".repeat(depth)
        }
    }
    fn line(&mut self, depth: usize, s: &str) {
        let i = self.ind(depth);
        self.out.push(format!("{}{}", i, s));
    }
}

fn render_deco(r: &mut R, depth: usize, d: &PDeco) {
    match d {
        PDeco::Fixture { spelling, called, name, scope, autouse, extra_kw } => {
            let base = match spelling % 3 {
                0 => "pytest.fixture",
                1 => "fixture",
                _ => "pytest_asyncio.fixture",
            };
            let mut args: Vec<String> = vec![];
            if let Some(n) = name {
                args.push(format!("name=\"named_{}\"", n));
            }
            if let Some(s) = scope {
                args.push(format!("scope=\"{}\"", SCOPES[*s as usize % 5]));
            }
            if let Some(a) = autouse {
                args.push(format!("autouse={}", if *a { "True" } else { "False" }));
            }
            if *extra_kw {
                args.push("params=[1, 2]".to_string());
            }
            if args.is_empty() && !*called {
                r.line(depth, &format!("@{}", base));
            } else {
                r.line(depth, &format!("@{}({})", base, args.join(", ")));
            }
        }
        PDeco::Usefixtures { names, spelling, form, multiline } => {
            let base = if spelling % 2 == 0 { "pytest.mark.usefixtures" } else { "mark.usefixtures" };
            let strs: Vec<String> = names.iter().map(|n| quote(PNAMES[*n], *form)).collect();
            if *multiline {
                r.line(depth, &format!("@{}(", base));
                for s in &strs {
                    r.line(depth + 1, &format!("{},", s));
                }
                r.line(depth, ")");
            } else {
                r.line(depth, &format!("@{}({})", base, strs.join(", ")));
            }
        }
        PDeco::Parametrize { argnames, indirect, subset_mask, form } => {
            let names: Vec<&str> = argnames.iter().map(|n| PNAMES[*n]).collect();
            // pytest strips the names of a comma separated argnames string: spacing is free
            let sep = [",", ", ", " , ", ",  "][((subset_mask >> 4) % 4) as usize];
            let argstr = quote(&names.join(sep), if *form == 5 { 0 } else { *form });
            let vals = if names.len() == 1 { "[1]".to_string() } else { format!("[({})]", vec!["1"; names.len()].join(", ")) };
            let ind = match indirect % 4 {
                0 => ", indirect=True".to_string(),
                1 => {
                    let sub: Vec<String> = names.iter().enumerate().filter(|(i, _)| (subset_mask >> i) & 1 == 1).map(|(_, n)| quote(n, *form)).collect();
                    format!(", indirect=[{}]", sub.join(", "))
                }
                2 => ", indirect=False".to_string(),
                _ => String::new(),
            };
            r.line(depth, &format!("@pytest.mark.parametrize({}, {}{})", argstr, vals, ind));
        }
        PDeco::Other(k) => {
            let s = match k % 4 {
                0 => "@pytest.mark.slow",
                1 => "@pytest.mark.skipif(False, reason=\"alpha\")",
                2 => "@functools.wraps(other)",
                _ => "@mark.timeout(5)",
            };
            r.line(depth, s);
        }
    }
}

fn render_yield_stmt(form: u8) -> &'static str {
    match form % 5 {
        0 => "yield value",
        1 => "got = yield value",
        2 => "yield from inner()",
        3 => "yield",
        _ => "print((yield value))",
    }
}

fn render_body(r: &mut R, depth: usize, f: &PFunc) {
    for n in &f.body_uses {
        r.line(depth, &format!("use({}.attr)", PNAMES[*n]));
    }
    match &f.body {
        PBody::Return => r.line(depth, "return 1"),
        PBody::Pass => r.line(depth, "pass"),
        PBody::NestedYield(k) => {
            if k % 2 == 0 {
                r.line(depth, "def inner():");
                r.line(depth + 1, "yield 1");
                r.line(depth, "return inner");
            } else {
                r.line(depth, "gen = lambda: (yield)");
                r.line(depth, "return gen");
            }
        }
        PBody::Yield { blocks, form, second_yield } => {
            let mut d = depth;
            // close-out statements to append after the yield, innermost last
            let mut closers: Vec<(usize, Vec<String>)> = vec![];
            for b in blocks {
                match b {
                    0 => {
                        r.line(d, "if cond:");
                        d += 1;
                    }
                    1 => {
                        r.line(d, "if cond:");
                        r.line(d + 1, "x = 1");
                        r.line(d, "else:");
                        d += 1;
                    }
                    2 => {
                        r.line(d, "for item in items:");
                        d += 1;
                    }
                    3 => {
                        r.line(d, "while cond:");
                        d += 1;
                    }
                    4 => {
                        r.line(d, "with ctx() as c:");
                        d += 1;
                    }
                    5 => {
                        r.line(d, "async with actx() as c:");
                        d += 1;
                    }
                    6 => {
                        r.line(d, "try:");
                        closers.push((d, vec!["finally:".to_string(), "    cleanup()".to_string()]));
                        d += 1;
                    }
                    7 => {
                        r.line(d, "try:");
                        r.line(d + 1, "x = 1");
                        r.line(d, "except Exception:");
                        d += 1;
                    }
                    8 => {
                        r.line(d, "try:");
                        r.line(d + 1, "x = 1");
                        r.line(d, "except Exception:");
                        r.line(d + 1, "x = 2");
                        r.line(d, "else:");
                        d += 1;
                    }
                    9 => {
                        r.line(d, "try:");
                        r.line(d + 1, "x = 1");
                        r.line(d, "finally:");
                        d += 1;
                    }
                    // the first yield sits in an except handler, a later one in the else / finally
                    // block of the same try statement: source order decides which is "the" yield line
                    11 | 12 => {
                        r.line(d, "try:");
                        r.line(d + 1, "x = 1");
                        r.line(d, "except Exception:");
                        closers.push((d, vec![if *b == 11 { "else:".to_string() } else { "finally:".to_string() }, "    yield other".to_string()]));
                        d += 1;
                    }
                    _ => {
                        r.line(d, "async for item in aiter():");
                        d += 1;
                    }
                }
            }
            r.line(d, render_yield_stmt(*form));
            for (cd, lines) in closers.iter().rev() {
                for l in lines {
                    let tabbed = if r.tab { l.replace("    ", "\t") } else { l.clone() };
                    r.line(*cd, &tabbed);
                }
            }
            if *second_yield {
                r.line(depth, "yield other");
            }
        }
    }
}

fn render_doc(r: &mut R, depth: usize, layout: u8, tag: &str, gen_lines: &[(u8, u8)]) {
    if layout % 8 == 7 {
        let base = r.ind(depth);
        let first_has_text = gen_lines.first().map(|l| l.0 % 2 == 0).unwrap_or(true);
        r.line(depth, &format!("\"\"\"{}", if first_has_text { format!("Gen {}.", tag) } else { String::new() }));
        for (k, (ind, kind)) in gen_lines.iter().enumerate().skip(1) {
            let extra = ["", "  ", "    ", "      "][(*ind % 4) as usize];
            match kind % 7 {
                0 | 1 | 2 => r.out.push(format!("{}{}text {} of {}", base, extra, k, tag)),
                3 => r.out.push(String::new()),
                4 => r.out.push(" ".repeat((*ind % 7) as usize)),
                5 => r.out.push(format!("{}{}  ", base, extra)),
                _ => r.out.push("\t".to_string()),
            }
        }
        r.line(depth, "\"\"\"");
        return;
    }
    match layout % 7 {
        0 => r.line(depth, &format!("\"\"\"Doc {} one line.\"\"\"", tag)),
        1 => {
            r.line(depth, &format!("\"\"\"Summary {}.", tag));
            r.out.push(String::new());
            r.line(depth, "Details line one.");
            r.line(depth, "    indented detail.");
            r.line(depth, "\"\"\"");
        }
        2 => {
            r.line(depth, "\"\"\"");
            r.line(depth, &format!("Starts below {}.", tag));
            r.line(depth, "    keeps relative indent.");
            r.line(depth, "\"\"\"");
        }
        3 => r.line(depth, &format!("'Doc {} single quotes.'", tag)),
        4 => r.line(depth, &format!("r\"\"\"Raw doc {} with \\d escape.\"\"\"", tag)),
        5 => {
            r.line(depth, &format!("\"\"\"  Padded summary {}.  ", tag));
            r.out.push(String::new());
            r.out.push(String::new());
            r.line(depth, "  two deeper.");
            r.line(depth, "zero deeper.");
            r.out.push(String::new());
            r.line(depth, "\"\"\"");
        }
        _ => r.line(depth, "\"\"\"\"\"\""),
    }
}

pub fn render_func(r: &mut R2, depth: usize, f: &PFunc, in_class: bool) {
    let r = &mut r.0;
    for d in &f.decos {
        render_deco(r, depth, d);
    }
    let mut parts: Vec<String> = vec![];
    if in_class {
        parts.push("self".to_string());
    }
    let mut kinds_seen = (false, false);
    let n_posonly = f.params.iter().filter(|p| p.kind == 0).count();
    for (i, p) in f.params.iter().enumerate() {
        if p.kind == 2 && !kinds_seen.1 {
            parts.push("*".to_string());
            kinds_seen.1 = true;
        }
        let mut s = PNAMES[p.name].to_string();
        if let Some(a) = p.ann {
            s.push_str(&format!(": {}", ANNS[a as usize % ANNS.len()]));
            if let Some(d) = p.default {
                s.push_str(&format!(" = {}", DEFAULTS[d as usize % DEFAULTS.len()]));
            }
        } else if let Some(d) = p.default {
            s.push_str(&format!("={}", DEFAULTS[d as usize % DEFAULTS.len()]));
        }
        parts.push(s);
        if p.kind == 0 && i + 1 == n_posonly && !kinds_seen.0 {
            parts.push("/".to_string());
            kinds_seen.0 = true;
        }
    }
    // `self` must precede `/`: it is a normal first parameter; with positional-only parameters in a
    // method python requires self to be positional-only too, which is fine syntactically.
    let name = func_name(f.role, f.name);
    let kw = if f.is_async { "async def" } else { "def" };
    let ret = f.ret.map(|x| format!(" -> {}", RETS[x as usize % RETS.len()])).unwrap_or_default();
    match f.sig % 4 {
        0 => r.line(depth, &format!("{} {}({}){}:", kw, name, parts.join(", "), ret)),
        1 | 2 if !parts.is_empty() => {
            r.line(depth, &format!("{} {}(", kw, name));
            let n = parts.len();
            for (i, p) in parts.iter().enumerate() {
                let comma = if i + 1 < n || (f.sig % 4 == 1 && p != "/" && p != "*") { "," } else { "" };
                // a trailing comma after a bare `*` or `/` is fine for `/`, not for a final `*`; keep simple
                r.line(depth + 1, &format!("{}{}", p, comma));
            }
            r.line(depth, &format!("){}:", ret));
        }
        3 if !parts.is_empty() => {
            let pad = " ".repeat(kw.len() + 1 + name.len() + 1);
            let ind = r.ind(depth);
            let n = parts.len();
            for (i, p) in parts.iter().enumerate() {
                let head = if i == 0 { format!("{}{} {}(", ind, kw, name) } else { format!("{}{}", ind, pad) };
                let tail = if i + 1 < n { ",".to_string() } else { format!("){}:", ret) };
                r.out.push(format!("{}{}{}", head, p, tail));
            }
        }
        _ => r.line(depth, &format!("{} {}({}){}:", kw, name, parts.join(", "), ret)),
    }
    if let Some(l) = f.doc {
        render_doc(r, depth + 1, l, &name, &f.doc_lines);
    }
    render_body(r, depth + 1, f);
    r.out.push(String::new());
}

pub struct R2(R);

pub fn render_module(m: &PModule) -> String {
    let tab = m.deco_bits & 2 != 0;
    let mut r2 = R2(R { out: vec![], tab });
    {
        let r = &mut r2.0;
        if m.deco_bits & 4 != 0 {
            r.out.push("# -*- coding: utf-8 -*- \u{00e9}\u{4e2d}\u{1F600}".to_string());
        }
        match m.header % 6 {
            0 => {
                r.out.push("import pytest".to_string());
                r.out.push("import pytest_asyncio".to_string());
                r.out.push("import functools, typing, db".to_string());
                r.out.push("from pytest import fixture, mark".to_string());
                r.out.push("from typing import *".to_string());
                r.out.push(String::new());
            }
            1 => {}
            2 => r.out.push(String::new()),
            3 => {
                r.out.push(String::new());
                r.out.push("   ".to_string());
            }
            4 => r.out.push("# tests".to_string()),
            _ => {
                r.out.push("\"\"\"Module docstring.\"\"\"".to_string());
                r.out.push(String::new());
            }
        }
    }
    for (idx, it) in m.items.iter().enumerate() {
        match it {
            PItem::Func(f) => render_func(&mut r2, 0, f, false),
            PItem::Class { name, decos, body, nested } => {
                let r = &mut r2.0;
                for d in decos {
                    render_deco(r, 0, d);
                }
                let cname = match name % 3 {
                    0 => "TestAlpha",
                    1 => "TestBravo",
                    _ => "Suite",
                };
                r.line(0, &format!("class {}{}:", cname, idx));
                for f in body {
                    render_func(&mut r2, 1, f, true);
                }
                if let Some(n) = nested {
                    r2.0.line(1, "class TestInner:");
                    for f in n {
                        render_func(&mut r2, 2, f, true);
                    }
                }
            }
            PItem::Pytestmark { form, names, strform } => {
                let r = &mut r2.0;
                let strs: Vec<String> = names.iter().map(|n| quote(PNAMES[*n], *strform)).collect();
                let call = format!("pytest.mark.usefixtures({})", strs.join(", "));
                match form % 6 {
                    0 => r.line(0, &format!("pytestmark = {}", call)),
                    1 => r.line(0, &format!("pytestmark = [{}]", call)),
                    2 => r.line(0, &format!("pytestmark = ({}, pytest.mark.slow)", call)),
                    3 => r.line(0, &format!("pytestmark: list = [{}]", call)),
                    4 => r.line(0, "pytestmark: list"),
                    _ => {
                        r.line(0, "pytestmark = [");
                        r.line(1, "pytest.mark.slow,");
                        r.line(1, &format!("{},", call));
                        r.line(0, "]");
                    }
                }
                r.out.push(String::new());
            }
            PItem::AssignFixture { target, spelling, name_kw, scope_kw, autouse_kw } => {
                let r = &mut r2.0;
                let base = if spelling % 2 == 0 { "pytest.fixture" } else { "fixture" };
                let mut args = vec![];
                if let Some(n) = name_kw {
                    args.push(format!("name=\"named_{}\"", n));
                }
                if let Some(s) = scope_kw {
                    args.push(format!("scope=\"{}\"", SCOPES[*s as usize % 5]));
                }
                if *autouse_kw {
                    args.push("autouse=True".to_string());
                }
                r.line(0, &format!("assigned_{} = {}({})(_impl_{})", target, base, args.join(", "), target));
                r.out.push(String::new());
            }
            PItem::Noise(k) => {
                let r = &mut r2.0;
                match k % 8 {
                    0 => {
                        r.line(0, &format!("def helper_noise_{}(alpha, bravo):", idx));
                        r.line(1, "return alpha");
                    }
                    1 => {
                        r.line(0, &format!("class Plain{}:", idx));
                        r.line(1, "def method(self, carol):");
                        r.line(2, "return carol");
                    }
                    2 => {
                        r.line(0, "# @pytest.fixture");
                        r.line(0, "# def alpha(bravo): pass");
                    }
                    3 => r.line(0, &format!("TEXT_{} = \"@pytest.mark.usefixtures('delta') def test_x(echo): pass\"", idx)),
                    4 => {
                        r.line(0, "if cond:");
                        r.line(1, "@pytest.fixture");
                        r.line(1, &format!("def hidden_{}(alpha):", idx));
                        r.line(2, "return 1");
                    }
                    5 => {
                        r.line(0, &format!("def helper_outer_{}():", idx));
                        r.line(1, "@pytest.fixture");
                        r.line(1, "def inner_fixture(bravo):");
                        r.line(2, "return 1");
                        r.line(1, "def test_inner(carol):");
                        r.line(2, "pass");
                        r.line(1, "return inner_fixture");
                    }
                    6 => r.line(0, &format!("alias_{} = pytest.fixture", idx)),
                    _ => r.line(0, "pytest.mark.usefixtures(\"alpha\")"),
                }
                r.out.push(String::new());
            }
        }
    }
    let nl = if m.deco_bits & 1 != 0 { "\r\n" } else { "\n" };
    let mut s = r2.0.out.join(nl);
    s.push_str(nl);
    s
}
