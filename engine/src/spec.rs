//! Abstract workspace specification: the single generated value most checks quantify over.
//! Everything here is plain data (serde) so that a shrunk failing case can be written to a
//! replay file and re-run without proptest.

use serde::{Deserialize, Serialize};

/// the third name is the concatenation of the first two on purpose: keys built by gluing names
/// together must not confuse {alpha, bravo} with {alphabravo}
pub const NAMES: [&str; 6] = ["alpha", "bravo", "alphabravo", "delta", "echo", "foxy"];
pub const SCOPES: [&str; 5] = ["function", "class", "module", "package", "session"];

/// Root of the in-memory workspace. The path does not exist on disk on purpose.
pub const MEM_ROOT: &str = "/vw/proj";
pub const MEM_PLUGIN_DIR: &str = "/vw/plugins";
pub const MEM_TP_DIR: &str = "/vw/venv/lib/python3.11/site-packages";

/// Directory universe (relative to the root). Index = DirId.
/// 0..=3 is the chain root > a > b > c, 4..=6 are siblings hanging off chain levels 0,1,2.
pub const DIRS: [&str; 7] = ["", "a", "a/b", "a/b/c", "x", "a/y", "a/b/z"];

/// module name of helper file number `n`. Number 4 is deliberately named like a standard-library
/// module (a project-local `email.py` next to a conftest is ordinary): such a module is only ever
/// imported relatively (`from .email import ...`), where Python resolves it to the local file.
pub const STDLIB_NAMED_HELPER: u8 = 4;
pub fn helper_mod(n: u8) -> String {
    if n == STDLIB_NAMED_HELPER {
        "email".to_string()
    } else {
        format!("fx{}", n)
    }
}

pub fn dir_parent(d: usize) -> Option<usize> {
    match d {
        0 => None,
        1 => Some(0),
        2 => Some(1),
        3 => Some(2),
        4 => Some(0),
        5 => Some(1),
        6 => Some(2),
        _ => None,
    }
}

#[derive(Clone, Debug, PartialEq, Eq, Hash, Serialize, Deserialize, PartialOrd, Ord)]
pub enum FileKind {
    Conftest,
    /// test_m<n>.py
    Test(u8),
    /// fx<n>.py helper fixture module
    Helper(u8),
    /// /vw/plugins/plug<n>.py registered as plugin file
    Plugin(u8),
    /// site-packages/tp<n>/plugin.py
    ThirdParty(u8),
}

#[derive(Clone, Debug, PartialEq, Eq, Hash, Serialize, Deserialize, PartialOrd, Ord)]
pub struct FileLoc {
    pub dir: usize,
    pub kind: FileKind,
}

impl FileLoc {
    pub fn path(&self) -> String {
        self.path_under(MEM_ROOT, MEM_PLUGIN_DIR, MEM_TP_DIR)
    }
    pub fn path_under(&self, root: &str, plugin_dir: &str, tp_dir: &str) -> String {
        let d = DIRS[self.dir];
        let base = if d.is_empty() { root.to_string() } else { format!("{}/{}", root, d) };
        match &self.kind {
            FileKind::Conftest => format!("{}/conftest.py", base),
            FileKind::Test(n) => format!("{}/test_m{}.py", base, n),
            FileKind::Helper(n) => format!("{}/{}.py", base, helper_mod(*n)),
            FileKind::Plugin(n) => format!("{}/plug{}.py", plugin_dir, n),
            FileKind::ThirdParty(n) => format!("{}/tp{}/plugin.py", tp_dir, n),
        }
    }
    pub fn rel(&self) -> String {
        let d = DIRS[self.dir];
        let pre = if d.is_empty() { String::new() } else { format!("{}/", d) };
        match &self.kind {
            FileKind::Conftest => format!("{}conftest.py", pre),
            FileKind::Test(n) => format!("{}test_m{}.py", pre, n),
            FileKind::Helper(n) => format!("{}{}.py", pre, helper_mod(*n)),
            FileKind::Plugin(n) => format!("<plugins>/plug{}.py", n),
            FileKind::ThirdParty(n) => format!("<site-packages>/tp{}/plugin.py", n),
        }
    }
    pub fn is_plugin(&self) -> bool {
        matches!(self.kind, FileKind::Plugin(_))
    }
    pub fn is_third_party(&self) -> bool {
        matches!(self.kind, FileKind::ThirdParty(_))
    }
    pub fn is_conftest(&self) -> bool {
        matches!(self.kind, FileKind::Conftest)
    }
    pub fn is_test(&self) -> bool {
        matches!(self.kind, FileKind::Test(_))
    }
}

#[derive(Clone, Debug, PartialEq, Eq, Hash, Serialize, Deserialize)]
pub enum ImportForm {
    /// from <mod> import *
    Star,
    /// from <mod> import n1, n2
    Explicit(Vec<usize>),
    /// pytest_plugins = [...] (absolute module name, upward search)
    Plugins,
}

#[derive(Clone, Debug, PartialEq, Eq, Hash, Serialize, Deserialize)]
pub struct ImportSpec {
    pub form: ImportForm,
    /// helper module number (fx<n>)
    pub module: u8,
    /// relative level: 0 = absolute (`from fx1 import`), 1 = `.fx1`, 2 = `..fx1`
    pub level: u8,
}

#[derive(Clone, Debug, PartialEq, Eq, Hash, Serialize, Deserialize)]
pub struct FixtureSpec {
    pub name: usize,
    /// when Some(k): decorator carries name="<NAMES[name]>" and the function is called impl_<k>
    pub alias_fn: Option<u8>,
    pub deps: Vec<usize>,
    pub scope: u8,
    pub autouse: bool,
    /// 0 return, 1 yield, 2 yield nested in `with`
    pub body: u8,
    /// decorator spelling: 0 `@pytest.fixture`, 1 `@pytest.fixture()`, 2 `@fixture` (only used when scope==0 && !autouse && alias none)
    pub deco: u8,
    /// unique tag rendered in docstring and return annotation
    pub tag: u32,
    /// extra usefixtures strings on the fixture function
    pub usefixtures: Vec<usize>,
    /// names used in the body without being declared (one statement each)
    #[serde(default)]
    pub body_uses: Vec<usize>,
}

#[derive(Clone, Debug, PartialEq, Eq, Hash, Serialize, Deserialize)]
pub struct TestSpec {
    pub suffix: u8,
    pub params: Vec<usize>,
    pub usefixtures: Vec<usize>,
    /// names requested through parametrize(..., indirect=[..]) (list form)
    pub indirect: Vec<usize>,
    pub is_async: bool,
    #[serde(default)]
    pub body_uses: Vec<usize>,
    /// parameters with a default value (`name=None`): declared names, but not fixture requests
    #[serde(default)]
    pub defaulted: Vec<usize>,
}

#[derive(Clone, Debug, PartialEq, Eq, Hash, Serialize, Deserialize)]
pub enum Item {
    Import(ImportSpec),
    Fixture(FixtureSpec),
    Test(TestSpec),
    Class { suffix: u8, usefixtures: Vec<usize>, tests: Vec<TestSpec> },
    /// module-level pytestmark; form 0 plain, 1 list, 2 tuple, 3 annotated
    Pytestmark { names: Vec<usize>, form: u8 },
    /// noise that must produce nothing: helper fn, plain class, comment, string
    Noise(u8),
}

#[derive(Clone, Debug, PartialEq, Eq, Hash, Serialize, Deserialize)]
pub struct FileSpec {
    pub loc: FileLoc,
    pub items: Vec<Item>,
}

#[derive(Clone, Debug, PartialEq, Eq, Hash, Serialize, Deserialize)]
pub struct WorkspaceSpec {
    pub files: Vec<FileSpec>,
    /// analysis order: permutation keys (sorted by key => order). Stored as keys so that
    /// shrinking files does not invalidate it.
    pub order_keys: Vec<u16>,
}

impl WorkspaceSpec {
    pub fn order(&self) -> Vec<usize> {
        let mut idx: Vec<usize> = (0..self.files.len()).collect();
        idx.sort_by_key(|&i| (self.order_keys.get(i).copied().unwrap_or(0), i));
        idx
    }
    pub fn find(&self, loc: &FileLoc) -> Option<usize> {
        self.files.iter().position(|f| &f.loc == loc)
    }
}
