//! Bounded-exhaustive spaces (small by construction, enumerated completely).
//!
//! Provider slots of ONE fixture name (`alpha`) as seen from a test module four directories deep:
//!   0 the test module itself            1 conftest.py in a/b/c      2 conftest.py in a/b
//!   3 conftest.py in a                  4 the root conftest.py      5 helper fx1 star-imported by a/b's conftest
//!   6 a workspace plugin module         7 a third-party plugin module
//! `mask` says which slots define the name, `self_mask` (a subset) which of those definitions request
//! their own name (override pattern). Three test modules use the name: a/b/c/test_m1.py (sees every
//! slot), a/test_m2.py and test_m1.py in the root (see the outer slots only).

use crate::gen::{normalise, GenCfg};
use crate::spec::*;
use serde::{Deserialize, Serialize};

#[derive(Clone, Debug, Serialize, Deserialize)]
pub struct SlotCase {
    pub mask: u16,
    pub self_mask: u16,
    /// analysis order: false = outermost providers first, true = reversed
    pub reversed: bool,
}

pub const SLOTS: usize = 8;

pub fn slot_workspace(cfg: &GenCfg, c: &SlotCase) -> WorkspaceSpec {
    let has = |s: usize| (c.mask >> s) & 1 == 1;
    let fx = |s: usize| {
        Item::Fixture(FixtureSpec {
            name: 0,
            alias_fn: None,
            deps: if (c.self_mask >> s) & 1 == 1 { vec![0] } else { vec![] },
            scope: 0,
            autouse: false,
            body: 0,
            deco: 0,
            tag: 0,
            usefixtures: vec![],
            body_uses: vec![],
        })
    };
    let test = || Item::Test(TestSpec { suffix: 1, params: vec![0], usefixtures: vec![], indirect: vec![], is_async: false, body_uses: vec![], defaulted: vec![] });
    let mut files: Vec<FileSpec> = Vec::new();
    // outermost first
    if has(7) {
        files.push(FileSpec { loc: FileLoc { dir: 0, kind: FileKind::ThirdParty(1) }, items: vec![fx(7)] });
    }
    if has(6) {
        files.push(FileSpec { loc: FileLoc { dir: 0, kind: FileKind::Plugin(1) }, items: vec![fx(6)] });
    }
    if has(4) {
        files.push(FileSpec { loc: FileLoc { dir: 0, kind: FileKind::Conftest }, items: vec![fx(4)] });
    }
    files.push(FileSpec { loc: FileLoc { dir: 0, kind: FileKind::Test(1) }, items: vec![test()] });
    if has(3) {
        files.push(FileSpec { loc: FileLoc { dir: 1, kind: FileKind::Conftest }, items: vec![fx(3)] });
    }
    files.push(FileSpec { loc: FileLoc { dir: 1, kind: FileKind::Test(2) }, items: vec![test()] });
    if has(5) {
        files.push(FileSpec { loc: FileLoc { dir: 2, kind: FileKind::Helper(1) }, items: vec![fx(5)] });
    }
    if has(2) || has(5) {
        let mut items = vec![];
        if has(5) {
            items.push(Item::Import(ImportSpec { form: ImportForm::Star, module: 1, level: 1 }));
        }
        if has(2) {
            items.push(fx(2));
        }
        files.push(FileSpec { loc: FileLoc { dir: 2, kind: FileKind::Conftest }, items });
    }
    if has(1) {
        files.push(FileSpec { loc: FileLoc { dir: 3, kind: FileKind::Conftest }, items: vec![fx(1)] });
    }
    let mut deep = vec![];
    if has(0) {
        deep.push(fx(0));
    }
    deep.push(test());
    files.push(FileSpec { loc: FileLoc { dir: 3, kind: FileKind::Test(1) }, items: deep });
    let n = files.len() as u16;
    let order_keys: Vec<u16> = (0..n).map(|i| if c.reversed { n - i } else { i }).collect();
    let mut ws = WorkspaceSpec { files, order_keys };
    normalise(cfg, &mut ws);
    ws
}

/// every assignment of the name to the slots, no definition requests itself (C01)
pub fn all_plain() -> Vec<SlotCase> {
    let mut v = Vec::new();
    for mask in 0..(1u16 << SLOTS) {
        for reversed in [false, true] {
            v.push(SlotCase { mask, self_mask: 0, reversed });
        }
    }
    v
}

/// every assignment together with every choice of which definitions request their own name (C02): 3^8 x 2
pub fn all_with_self() -> Vec<SlotCase> {
    let mut v = Vec::new();
    for mask in 0..(1u16 << SLOTS) {
        // subsets of mask
        let mut sub = mask;
        loop {
            for reversed in [false, true] {
                v.push(SlotCase { mask, self_mask: sub, reversed });
            }
            if sub == 0 {
                break;
            }
            sub = (sub - 1) & mask;
        }
    }
    v
}
