//! proptest strategies for WorkspaceSpec. Construction over rejection: a raw, context-free value is
//! generated and then normalised (`assemble`) into a well-formed workspace; nothing is filtered.

use crate::spec::*;
use proptest::collection::vec;
use proptest::prelude::*;

#[derive(Clone, Debug)]
pub struct GenCfg {
    /// size of the fixture-name pool (2..=6): small => collisions are the norm
    pub names: usize,
    pub max_depth: usize,
    pub siblings: bool,
    pub allow_import_cycles: bool,
    pub allow_test_imports: bool,
    pub allow_dups_in_file: bool,
    pub allow_self_dep: bool,
    pub plugins_and_third_party: bool,
    pub imports: bool,
    pub noise: bool,
    pub max_items: usize,
    /// probability weight (out of 10) that a fixture requests its own name (override pattern)
    pub self_dep_bias: u32,
    /// several `pytest_plugins = ...` assignments per file (the last one wins)
    pub multi_plugin_assignments: bool,
    /// tests may carry parameters with default values named like fixtures
    pub defaulted_params: bool,
    /// aliased fixtures may be implemented by functions named `test_*`
    pub test_named_fixtures: bool,
    /// fixture functions may be written on one physical line (`def a(a) -> T: """DOC"""; return 1`): `body` 6..9
    pub oneline_fixtures: bool,
}

impl Default for GenCfg {
    fn default() -> Self {
        GenCfg {
            names: 4,
            max_depth: 4,
            siblings: true,
            allow_import_cycles: false,
            allow_test_imports: false,
            allow_dups_in_file: false,
            allow_self_dep: true,
            plugins_and_third_party: true,
            imports: true,
            noise: true,
            max_items: 4,
            self_dep_bias: 1,
            multi_plugin_assignments: false,
            defaulted_params: false,
            test_named_fixtures: false,
            oneline_fixtures: false,
        }
    }
}

fn weighted<T: std::fmt::Debug + 'static>(opts: Vec<(u32, BoxedStrategy<T>)>) -> BoxedStrategy<T> {
    let v: Vec<(u32, BoxedStrategy<T>)> = opts.into_iter().filter(|(w, _)| *w > 0).collect();
    proptest::strategy::Union::new_weighted(v).boxed()
}

fn name_idx(cfg: &GenCfg) -> impl Strategy<Value = usize> {
    0..cfg.names
}

fn names_vec(cfg: &GenCfg, max: usize) -> impl Strategy<Value = Vec<usize>> {
    vec(name_idx(cfg), 0..=max).prop_map(|mut v| {
        let mut seen = Vec::new();
        v.retain(|x| {
            if seen.contains(x) {
                false
            } else {
                seen.push(*x);
                true
            }
        });
        v
    })
}

fn fixture(cfg: &GenCfg) -> impl Strategy<Value = FixtureSpec> {
    (
        name_idx(cfg),
        if cfg.test_named_fixtures { prop_oneof![7 => Just(None), 2 => (0u8..3).prop_map(Some), 2 => (3u8..5).prop_map(Some)].boxed() } else { prop_oneof![8 => Just(None), 2 => (0u8..3).prop_map(Some)].boxed() },
        names_vec(cfg, 2),
        prop_oneof![5 => Just(0u8), 1 => Just(1u8), 2 => Just(2u8), 1 => Just(3u8), 2 => Just(4u8)],
        prop_oneof![6 => Just(false), 1 => Just(true)],
        if cfg.oneline_fixtures { prop_oneof![4 => 0u8..3, 1 => 3u8..6, 1 => 6u8..9].boxed() } else { prop_oneof![4 => 0u8..3, 1 => 3u8..6].boxed() },
        0u8..3,
        prop_oneof![8 => Just(Vec::new()), 1 => names_vec(cfg, 1)],
        prop_oneof![5 => Just(Vec::new()), 1 => names_vec(cfg, 2)],
        weighted(vec![(10 - cfg.self_dep_bias.min(10), Just(false).boxed()), (cfg.self_dep_bias.min(10), Just(true).boxed())]),
    )
        .prop_map(|(name, alias_fn, mut deps, scope, autouse, body, deco, usefixtures, body_uses, self_dep)| {
            if self_dep && !deps.contains(&name) {
                deps.insert(0, name);
            }
            (name, alias_fn, deps, scope, autouse, body, deco, usefixtures, body_uses)
        })
        .prop_map(|(name, alias_fn, deps, scope, autouse, body, deco, usefixtures, body_uses)| FixtureSpec {
            name,
            alias_fn,
            deps,
            scope,
            autouse,
            body,
            deco,
            tag: 0,
            usefixtures,
            body_uses,
        })
}

fn test_spec(cfg: &GenCfg) -> impl Strategy<Value = TestSpec> {
    (
        names_vec(cfg, 3),
        prop_oneof![3 => Just(Vec::new()), 2 => names_vec(cfg, 2)],
        prop_oneof![4 => Just(Vec::new()), 1 => names_vec(cfg, 2)],
        prop_oneof![5 => Just(false), 1 => Just(true)],
        prop_oneof![3 => Just(Vec::new()), 1 => names_vec(cfg, 2)],
        if cfg.defaulted_params { prop_oneof![2 => Just(Vec::new()), 1 => names_vec(cfg, 2)].boxed() } else { Just(Vec::new()).boxed() },
    )
        .prop_map(|(params, usefixtures, indirect, is_async, body_uses, defaulted)| TestSpec { suffix: 0, params, usefixtures, indirect, is_async, body_uses, defaulted })
}

fn import_spec(cfg: &GenCfg) -> impl Strategy<Value = ImportSpec> {
    (
        weighted(vec![
            (4, Just(ImportForm::Star).boxed()),
            (3, names_vec(cfg, 2).prop_map(|mut v| { if v.is_empty() { v.push(0); } ImportForm::Explicit(v) }).boxed()),
            (if cfg.multi_plugin_assignments { 7 } else { 2 }, Just(ImportForm::Plugins).boxed()),
        ]),
        prop_oneof![3 => Just(1u8), 3 => Just(2u8), 3 => Just(3u8), 2 => Just(STDLIB_NAMED_HELPER)],
        prop_oneof![1 => Just(0u8), 5 => Just(1u8), 2 => Just(2u8)],
    )
        .prop_map(|(form, module, level)| ImportSpec { form, module, level })
}

#[derive(Clone, Debug)]
pub enum FileRole {
    Conftest,
    Test,
    Helper,
    Leaf, // plugin or third party
}

pub fn items(cfg: &GenCfg, role: FileRole) -> BoxedStrategy<Vec<Item>> {
    let fx = fixture(cfg).prop_map(Item::Fixture).boxed();
    let imp = import_spec(cfg).prop_map(Item::Import).boxed();
    let tst = test_spec(cfg).prop_map(Item::Test).boxed();
    let cls = (names_vec(cfg, 2), vec(test_spec(cfg), 0..=2))
        .prop_map(|(usefixtures, tests)| Item::Class { suffix: 0, usefixtures, tests })
        .boxed();
    let pm = (names_vec(cfg, 2), 0u8..4).prop_map(|(names, form)| Item::Pytestmark { names, form }).boxed();
    let noise = (0u8..4).prop_map(Item::Noise).boxed();
    let nw = if cfg.noise { 1 } else { 0 };
    let iw = if cfg.imports { 3 } else { 0 };
    let max = cfg.max_items;
    match role {
        FileRole::Conftest => vec(weighted(vec![(5, fx), (iw, imp), (nw, noise)]), 0..=max).boxed(),
        FileRole::Helper => vec(weighted(vec![(6, fx), (iw.min(2), imp), (nw, noise)]), 1..=max).boxed(),
        FileRole::Leaf => vec(weighted(vec![(6, fx), (nw, noise)]), 1..=max.min(3)).boxed(),
        FileRole::Test => vec(
            weighted(vec![
                (2, fx),
                (5, tst),
                (2, cls),
                (1, pm),
                (if cfg.allow_test_imports { iw } else { 0 }, imp),
                (nw, noise),
            ]),
            1..=max + 1,
        )
        .boxed(),
    }
}

#[derive(Clone, Debug)]
struct DirRaw {
    conftest: Option<Vec<Item>>,
    helpers: Vec<(u8, Vec<Item>)>,
    tests: Vec<(u8, Vec<Item>)>,
}

fn dir_raw(cfg: &GenCfg, test_weight: u32) -> impl Strategy<Value = DirRaw> {
    (
        prop_oneof![1 => Just(None), 3 => items(cfg, FileRole::Conftest).prop_map(Some)],
        vec((prop_oneof![3 => Just(1u8), 3 => Just(2u8), 3 => Just(3u8), 2 => Just(STDLIB_NAMED_HELPER)], items(cfg, FileRole::Helper)), 0..=2),
        prop_oneof![
            (10 - test_weight.min(9)) => Just(Vec::new()),
            test_weight => vec((1u8..=2, items(cfg, FileRole::Test)), 1..=2)
        ],
    )
        .prop_map(|(conftest, helpers, tests)| DirRaw { conftest, helpers, tests })
}

pub fn workspace(cfg: GenCfg) -> impl Strategy<Value = WorkspaceSpec> {
    let c2 = cfg.clone();
    (
        1usize..=cfg.max_depth.min(4).max(1),
        vec(dir_raw(&cfg, 3), 7),
        // guaranteed test file in the deepest chain directory
        vec((1u8..=2, items(&cfg, FileRole::Test)), 1..=2),
        proptest::bits::u8::masked(0b111),
        vec((1u8..=2, items(&cfg, FileRole::Leaf)), 0..=2),
        vec((1u8..=2, items(&cfg, FileRole::Leaf)), 0..=2),
        vec(0u16..1000, 24),
    )
        .prop_map(move |(depth, dirs, deep_tests, sib_mask, plugins, tps, order_keys)| {
            assemble(&c2, depth, dirs, deep_tests, sib_mask, plugins, tps, order_keys)
        })
}

#[allow(clippy::too_many_arguments)]
fn assemble(
    cfg: &GenCfg,
    depth: usize,
    dirs: Vec<DirRaw>,
    deep_tests: Vec<(u8, Vec<Item>)>,
    sib_mask: u8,
    plugins: Vec<(u8, Vec<Item>)>,
    tps: Vec<(u8, Vec<Item>)>,
    order_keys: Vec<u16>,
) -> WorkspaceSpec {
    let mut files: Vec<FileSpec> = Vec::new();
    let mut push = |files: &mut Vec<FileSpec>, loc: FileLoc, items: Vec<Item>| {
        if !files.iter().any(|f| f.loc == loc) {
            files.push(FileSpec { loc, items });
        }
    };
    for (d, raw) in dirs.into_iter().enumerate() {
        let included = if d < 4 {
            d < depth
        } else {
            // sibling of chain level d-4; its parent must exist
            cfg.siblings && (sib_mask >> (d - 4)) & 1 == 1 && (d - 4) < depth
        };
        if !included {
            continue;
        }
        if let Some(it) = raw.conftest {
            push(&mut files, FileLoc { dir: d, kind: FileKind::Conftest }, it);
        }
        for (n, it) in raw.helpers {
            push(&mut files, FileLoc { dir: d, kind: FileKind::Helper(n) }, it);
        }
        for (n, it) in raw.tests {
            push(&mut files, FileLoc { dir: d, kind: FileKind::Test(n) }, it);
        }
    }
    for (n, it) in deep_tests {
        push(&mut files, FileLoc { dir: depth - 1, kind: FileKind::Test(n) }, it);
    }
    if cfg.plugins_and_third_party {
        for (n, it) in plugins {
            push(&mut files, FileLoc { dir: 0, kind: FileKind::Plugin(n) }, it);
        }
        for (n, it) in tps {
            push(&mut files, FileLoc { dir: 0, kind: FileKind::ThirdParty(n) }, it);
        }
    }
    let mut ws = WorkspaceSpec { files, order_keys };
    normalise(cfg, &mut ws);
    ws
}

/// Make the spec well-formed for the configured domain (idempotent).
pub fn normalise(cfg: &GenCfg, ws: &mut WorkspaceSpec) {
    let mut tag = 1u32;
    for f in ws.files.iter_mut() {
        let is_helper = matches!(f.loc.kind, FileKind::Helper(_));
        let helper_no = if let FileKind::Helper(n) = f.loc.kind { n } else { 0 };
        let is_leaf = f.loc.is_plugin() || f.loc.is_third_party();
        let is_test = f.loc.is_test();
        let mut seen_fix: Vec<usize> = Vec::new();
        let mut tsuffix = 1u8;
        let mut csuffix = 1u8;
        let mut has_pm = false;
        let mut out: Vec<Item> = Vec::new();
        for it in f.items.drain(..) {
            match it {
                Item::Import(mut imp) => {
                    if is_leaf || (is_test && !cfg.allow_test_imports) || !cfg.imports {
                        continue;
                    }
                    if is_helper && !cfg.allow_import_cycles {
                        // helpers only import strictly higher-numbered helpers => acyclic
                        if imp.module <= helper_no {
                            if helper_no >= STDLIB_NAMED_HELPER {
                                continue;
                            }
                            imp.module = helper_no + 1;
                        }
                    }
                    if imp.module == STDLIB_NAMED_HELPER {
                        // the stdlib-named helper is only imported relatively (see spec::helper_mod)
                        if imp.form == ImportForm::Plugins {
                            imp.form = ImportForm::Star;
                        }
                        if imp.level == 0 {
                            imp.level = 1;
                        }
                    }
                    if imp.form == ImportForm::Plugins {
                        // for pytest_plugins `level` is reused as the assignment group (rendered in
                        // ascending order, the last assignment wins)
                        imp.level = if cfg.multi_plugin_assignments { imp.level % 3 } else { 0 };
                    }
                    if !out.contains(&Item::Import(imp.clone())) {
                        out.push(Item::Import(imp));
                    }
                }
                Item::Fixture(mut fx) => {
                    if !cfg.allow_dups_in_file && seen_fix.contains(&fx.name) {
                        continue;
                    }
                    seen_fix.push(fx.name);
                    if !cfg.allow_self_dep {
                        let n = fx.name;
                        fx.deps.retain(|d| *d != n);
                    }
                    if fx.scope != 0 || fx.autouse || fx.alias_fn.is_some() {
                        fx.deco = 0;
                    }
                    fx.tag = tag;
                    tag += 1;
                    out.push(Item::Fixture(fx));
                }
                Item::Test(mut t) => {
                    t.suffix = tsuffix;
                    tsuffix += 1;
                    out.push(Item::Test(t));
                }
                Item::Class { usefixtures, mut tests, .. } => {
                    for t in tests.iter_mut() {
                        t.suffix = tsuffix;
                        tsuffix += 1;
                    }
                    out.push(Item::Class { suffix: csuffix, usefixtures, tests });
                    csuffix += 1;
                }
                Item::Pytestmark { names, form } => {
                    if has_pm {
                        continue;
                    }
                    has_pm = true;
                    out.push(Item::Pytestmark { names, form });
                }
                Item::Noise(k) => {
                    if cfg.noise {
                        out.push(Item::Noise(k));
                    }
                }
            }
        }
        f.items = out;
    }
    ws.order_keys.truncate(32);
}

pub fn role_of(loc: &FileLoc) -> FileRole {
    match loc.kind {
        FileKind::Conftest => FileRole::Conftest,
        FileKind::Test(_) => FileRole::Test,
        FileKind::Helper(_) => FileRole::Helper,
        _ => FileRole::Leaf,
    }
}

/// One item of any kind (used by edit histories; normalise() drops what a file may not contain).
pub fn any_item(cfg: &GenCfg) -> BoxedStrategy<Item> {
    let fx = fixture(cfg).prop_map(Item::Fixture).boxed();
    let imp = import_spec(cfg).prop_map(Item::Import).boxed();
    let tst = test_spec(cfg).prop_map(Item::Test).boxed();
    let pm = (names_vec(cfg, 2), 0u8..4).prop_map(|(names, form)| Item::Pytestmark { names, form }).boxed();
    let cls = (names_vec(cfg, 2), vec(test_spec(cfg), 0..=2))
        .prop_map(|(usefixtures, tests)| Item::Class { suffix: 0, usefixtures, tests })
        .boxed();
    weighted(vec![(5, fx), (if cfg.imports { 2 } else { 0 }, imp), (4, tst), (1, pm), (1, cls)])
}
