#![no_main]
//! libFuzzer target for C11: bytes -> (documents built from pytest-shaped snippets with character
//! level mutations, a history of 1-3 versions of 2 files, query positions) -> every public entry
//! point of the library. Oracle: no panic (libFuzzer turns a panic into a crash artifact). A fresh
//! FixtureDatabase per input: no state leaks between iterations.

use arbitrary::Unstructured;
use libfuzzer_sys::fuzz_target;
use pytest_language_server::FixtureDatabase;
use std::collections::HashSet;
use std::path::{Path, PathBuf};

const SNIPPETS: &[&str] = &[
    "import pytest\n",
    "from .conftest import *\n",
    "pytest_plugins = [\"conftest\", \"other\"]\n",
    "@pytest.fixture\ndef alpha():\n    \"\"\"Doc.\n\n    More text.\n        indented.\n    \"\"\"\n    return 1\n",
    "@pytest.fixture(scope=\"session\", autouse=True, name=\"bravo\")\nasync def impl(alpha, /, carol=1, *, delta: int) -> Generator[\"T\", None, None]:\n    async with ctx() as c:\n        got = yield alpha\n",
    "@pytest.mark.usefixtures(\"alpha\", 'bravo', \"\"\"carol\"\"\")\nclass TestK:\n    @pytest.mark.parametrize(\"alpha,bravo\", [(1, 2)], indirect=True)\n    def test_m(self, alpha, bravo):\n        use(carol.attr, key=delta)\n",
    "pytestmark = [pytest.mark.usefixtures(\"alpha\"), pytest.mark.slow]\n",
    "def test_a(\n    alpha,\n    bravo: int = 3,\n) -> None:\n    check((carol := make()))\n    for alpha in items():\n        pass\n    assert delta and not bravo\n",
    "mocker = pytest.fixture(name=\"m\", scope=\"module\")(_impl)\n",
    "@fixture\ndef carol(carol, request):\n    '''\n\tTabbed doc\n    '''\n    yield from inner()\n",
    "def helper(alpha):\n    return alpha\n",
    "@pytest.mark.parametrize(\"delta\", [1], indirect=[\"delta\"])\ndef test_b(delta): pass\n",
    "def test_typing(alpha, \n",
    "@pytest.mark.usefixtures(\n",
    "class :\n",
    "\n",
    "    ",
    "# comment \u{00e9}\u{4e2d}\u{1F600}\n",
];

const PALETTE: &[&str] = &["\u{00e9}", "\u{4e2d}", "\u{1F600}", "\u{00a0}", "\u{2003}", "\u{3000}", "\u{200b}", "\u{0301}", "\u{feff}", "\t", "\r", "\r\n", "\n", " ", "\"", "(", ")", ":", "\\"];

fn build_doc(u: &mut Unstructured) -> arbitrary::Result<String> {
    let n = u.int_in_range(0..=8)?;
    let mut s = String::new();
    for _ in 0..n {
        if u.ratio(1, 8)? {
            // raw bytes, lossily decoded
            let len = u.int_in_range(0..=24)?;
            let b = u.bytes(len)?;
            s.push_str(&String::from_utf8_lossy(b));
        } else {
            s.push_str(SNIPPETS[u.choose_index(SNIPPETS.len())?]);
        }
    }
    let muts = u.int_in_range(0..=5)?;
    for _ in 0..muts {
        let mut chars: Vec<char> = s.chars().collect();
        match u.int_in_range(0..=4)? {
            0 => {
                let pos = if chars.is_empty() { 0 } else { u.int_in_range(0..=chars.len())? };
                let ins: Vec<char> = PALETTE[u.choose_index(PALETTE.len())?].chars().collect();
                chars.splice(pos..pos, ins);
            }
            1 => {
                if !chars.is_empty() {
                    let pos = u.int_in_range(0..=chars.len() - 1)?;
                    let n = u.int_in_range(1..=10)?;
                    let e = (pos + n).min(chars.len());
                    chars.drain(pos..e);
                }
            }
            2 => {
                let pos = if chars.is_empty() { 0 } else { u.int_in_range(0..=chars.len())? };
                chars.truncate(pos);
            }
            3 => {
                // smear one line with multi-byte characters
                let text: String = chars.iter().collect();
                let mut lines: Vec<String> = text.split('\n').map(|l| l.to_string()).collect();
                if !lines.is_empty() {
                    let li = u.int_in_range(0..=lines.len() - 1)?;
                    let pal = ['\u{00e9}', '\u{4e2d}', '\u{1F600}'];
                    let k = u.int_in_range(0..=2)?;
                    let n = lines[li].len().max(4);
                    lines[li] = (0..n).map(|i| pal[(i + k) % 3]).collect();
                }
                chars = lines.join("\n").chars().collect();
            }
            _ => {
                // indentation character in front of an indented line
                let text: String = chars.iter().collect();
                let mut lines: Vec<String> = text.split('\n').map(|l| l.to_string()).collect();
                let cand: Vec<usize> = lines.iter().enumerate().filter(|(_, l)| l.starts_with(' ') || l.starts_with('\t')).map(|(i, _)| i).collect();
                if !cand.is_empty() {
                    let li = cand[u.choose_index(cand.len())?];
                    lines[li] = format!("{}{}", PALETTE[u.choose_index(9)?], lines[li]);
                }
                chars = lines.join("\n").chars().collect();
            }
        }
        s = chars.into_iter().collect();
    }
    Ok(s)
}

fn queries(db: &FixtureDatabase, p: &Path, l: u32, c: u32) {
    let _ = db.find_fixture_definition(p, l, c);
    let _ = db.find_fixture_at_position(p, l, c);
    let _ = db.find_fixture_or_definition_at_position(p, l, c);
    let _ = db.get_completion_context(p, l, c);
    let _ = db.is_inside_function(p, l, c);
    if l < u32::MAX {
        let _ = db.get_function_param_insertion_info(p, l as usize + 1);
        let _ = db.find_containing_function(p, l as usize + 1);
    }
}

fn run(data: &[u8]) -> arbitrary::Result<()> {
    let mut u = Unstructured::new(data);
    let db = FixtureDatabase::new();
    let paths = [PathBuf::from("/vw/fz/conftest.py"), PathBuf::from("/vw/fz/test_doc.py")];
    let versions = u.int_in_range(1..=3)?;
    let mut stale: Vec<(usize, u32, u32)> = Vec::new();
    let mut prev: [Option<String>; 2] = [None, None];
    for _ in 0..versions {
        let f = u.int_in_range(0..=1)?;
        let text = if u.ratio(1, 3)? && prev[f].is_some() {
            // previous version of the same file with a smeared / truncated tail: stale positions
            let mut t = prev[f].clone().unwrap();
            let cut = if t.is_empty() { 0 } else { u.int_in_range(0..=t.chars().count())? };
            t = t.chars().take(cut).collect();
            t.push_str("\u{00e9}\u{4e2d}\u{1F600}\u{00e9}\u{4e2d}\u{1F600}(\n");
            t
        } else {
            build_doc(&mut u)?
        };
        db.analyze_file(paths[f].clone(), &text);
        prev[f] = Some(text);
        if let Some(us) = db.usages.get(&paths[f]) {
            for x in us.iter().take(12) {
                stale.push((f, (x.line.max(1) - 1) as u32, x.start_char as u32));
                stale.push((f, (x.line.max(1) - 1) as u32, x.end_char as u32));
            }
        }
        for (pf, l, c) in stale.clone() {
            queries(&db, &paths[pf], l, c);
        }
        for p in &paths {
            for _ in 0..u.int_in_range(0..=2)? {
                let l = if u.ratio(1, 6)? { u32::MAX } else { u.int_in_range(0..=40)? };
                let c = if u.ratio(1, 6)? { u32::MAX } else { u.int_in_range(0..=80)? };
                queries(&db, p, l, c);
            }
            let _ = db.get_available_fixtures(p);
            let _ = db.get_undeclared_fixtures(p);
            let _ = db.detect_fixture_cycles_in_file(p);
            let _ = db.detect_scope_mismatches_in_file(p);
            let _ = db.get_imported_fixtures(p, &mut HashSet::new());
        }
        let _ = db.get_unused_fixtures();
        let defs: Vec<_> = db.definitions.iter().flat_map(|e| e.value().clone()).collect();
        for d in defs.iter().take(8) {
            let _ = db.find_references_for_definition(d);
            let _ = db.resolve_fixture_for_file(&paths[1], &d.name);
        }
        if stale.len() > 48 {
            stale.truncate(48);
        }
    }
    db.cleanup_file_cache(&paths[0]);
    Ok(())
}

fuzz_target!(|data: &[u8]| {
    let _ = run(data);
});
